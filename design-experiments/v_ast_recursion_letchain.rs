use vstd::prelude::*;
use std::collections::HashMap;
verus! {
pub struct ServerError { pub message: String }
pub struct Positioned<T> { pub pos: usize, pub node: T }
pub struct Field { pub name: String, pub directives: Vec<usize>, pub selection_set: Positioned<SelectionSet> }
pub struct SelectionSet { pub items: Vec<Positioned<Selection>> }
pub struct FragmentSpread { pub fragment_name: String }
pub struct InlineFragment { pub selection_set: Positioned<SelectionSet> }
pub enum Selection { Field(Positioned<Field>), FragmentSpread(Positioned<FragmentSpread>), InlineFragment(Positioned<InlineFragment>) }

#[verifier::external_body]
fn verif_msg() -> String { String::new() }

fn limit(limit_complexity: Option<usize>, complexity: usize) -> (r: Result<(), ServerError>)
   ensures r.is_err() <==> (limit_complexity.is_some() && complexity > limit_complexity.unwrap())
{
    match limit_complexity { Some(limit_complexity) if complexity > limit_complexity => {
        return Err(ServerError { message: verif_msg() });
    } _ => {} }
    Ok(())
}

pub open spec fn max_dirs(s: SelectionSet) -> nat decreases s {
    0
}

fn check_selection_set(
    selection_set: &Positioned<SelectionSet>,
    limit_directives: usize,
) -> (r: Result<(), ServerError>)
    decreases selection_set
{
    for selection in it: &selection_set.node.items {
        match &selection.node {
            Selection::Field(field) => {
                if field.node.directives.len() > limit_directives {
                    return Err(ServerError { message: verif_msg() });
                }
                check_selection_set(&field.node.selection_set, limit_directives)?;
            }
            Selection::FragmentSpread(fragment_spread) => {
            }
            Selection::InlineFragment(inline_fragment) => {
                check_selection_set(
                    &inline_fragment.node.selection_set,
                    limit_directives,
                )?;
            }
        }
    }
    Ok(())
}
}
fn main() {}
