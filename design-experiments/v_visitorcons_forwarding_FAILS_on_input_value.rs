use vstd::prelude::*;
verus! {
pub struct Ctx { pub errs: Vec<u64> }
pub struct Field { pub id: u64 }
pub struct Pos { pub l: usize }

pub trait Visitor: Sized {
    spec fn eff_enter_field(pre: Self, ctx: Ctx, field: Field) -> (Self, Ctx);
    fn enter_field(&mut self, ctx: &mut Ctx, field: &Field)
        ensures (*final(self), *final(ctx)) == Self::eff_enter_field(*old(self), *old(ctx), *field);
    spec fn eff_enter_input_value(pre: Self, ctx: Ctx, pos: Pos) -> (Self, Ctx);
    fn enter_input_value(&mut self, ctx: &mut Ctx, pos: Pos)
        ensures (*final(self), *final(ctx)) == Self::eff_enter_input_value(*old(self), *old(ctx), pos);
}

pub struct VisitorCons<A, B>(pub A, pub B);

impl<A: Visitor, B: Visitor> Visitor for VisitorCons<A, B> {
    open spec fn eff_enter_field(pre: Self, ctx: Ctx, field: Field) -> (Self, Ctx) {
        let (a, c1) = A::eff_enter_field(pre.0, ctx, field);
        let (b, c2) = B::eff_enter_field(pre.1, c1, field);
        (VisitorCons(a, b), c2)
    }
    open spec fn eff_enter_input_value(pre: Self, ctx: Ctx, pos: Pos) -> (Self, Ctx) {
        let (a, c1) = A::eff_enter_input_value(pre.0, ctx, pos);
        let (b, c2) = B::eff_enter_input_value(pre.1, c1, pos);
        (VisitorCons(a, b), c2)
    }
    // extracted from real impl:
    fn enter_field(&mut self, ctx: &mut Ctx, field: &Field) {
        self.0.enter_field(ctx, field);
        self.1.enter_field(ctx, field);
    }
    // not overridden in the real impl -> trait default body:
    fn enter_input_value(&mut self, ctx: &mut Ctx, pos: Pos) {
    }
}
}
fn main() {}
