use vstd::prelude::*;
verus! {
pub struct ServerError { pub id: u64 }
pub enum Value { Null, Other(u64) }
pub struct Field { pub id: u64 }
pub struct Positioned<T> { pub node: T }
// ghost-tracked context shim: errors list
pub struct ContextSelectionSet { pub errors: Vec<ServerError> }
impl ContextSelectionSet {
    pub fn add_error(&mut self, error: ServerError)
        ensures final(self).errors@ == old(self).errors@.push(error)
    { self.errors.push(error); }
}
pub type ServerResult<T> = Result<T, ServerError>;

pub trait OutputType: Sized {
    spec fn spec_resolve(&self, field: Field) -> ServerResult<Value>;
    // await-erased: future run to completion; inner resolution assumed not to touch errors here
    fn resolve(&self, ctx: &mut ContextSelectionSet, field: &Positioned<Field>) -> (r: ServerResult<Value>)
        ensures r == self.spec_resolve(field.node), final(ctx).errors@ == old(ctx).errors@;
}

// extracted: impl<T: OutputType + Sync> OutputType for Option<T> :: resolve  (R-await, R-self)
fn option_resolve<T: OutputType>(
    this: &Option<T>,
    ctx: &mut ContextSelectionSet,
    field: &Positioned<Field>,
) -> (r: ServerResult<Value>)
    ensures
        this.is_none() ==> (r == Ok::<Value, ServerError>(Value::Null) && final(ctx).errors@ == old(ctx).errors@),
        this.is_some() && this.unwrap().spec_resolve(field.node).is_ok() ==>
            (r == this.unwrap().spec_resolve(field.node) && final(ctx).errors@ == old(ctx).errors@),
        this.is_some() && this.unwrap().spec_resolve(field.node).is_err() ==>
            (r == Ok::<Value, ServerError>(Value::Null)
              && final(ctx).errors@ == old(ctx).errors@.push(this.unwrap().spec_resolve(field.node)->Err_0)),
{
    if let Some(inner) = this {
        match OutputType::resolve(inner, ctx, field) {
            Ok(value) => Ok(value),
            Err(err) => {
                ctx.add_error(err);
                Ok(Value::Null)
            }
        }
    } else {
        Ok(Value::Null)
    }
}
}
fn main() {}
