use vstd::prelude::*;
verus! {
// ---- prelude: external types ----
#[verifier::external_body]
pub struct Number { _p: u8 }
impl Number {
    pub uninterp spec fn spec_as_i64(&self) -> Option<i64>;
    #[verifier::external_body]
    pub fn as_i64(&self) -> (r: Option<i64>) ensures r == self.spec_as_i64() { unimplemented!() }
    #[verifier::external_body]
    pub fn from_i64(n: i64) -> (r: Number) ensures r.spec_as_i64() == Some(n) { unimplemented!() }
}
#[verifier::external_body]
pub struct IndexMapNV { _p: u8 }
#[verifier::external_body]
pub struct Bytes { _p: u8 }
#[verifier::external_body]
pub struct Name { _p: u8 }
pub struct InputValueError { pub message: String }
#[verifier::external_body]
fn verif_msg() -> String { String::new() }
impl InputValueError {
    pub fn from_msg() -> InputValueError { InputValueError { message: verif_msg() } }
    pub fn expected_type(actual: Value) -> InputValueError { InputValueError { message: verif_msg() } }
}
pub fn verif_ok_or<T>(o: Option<T>, e: InputValueError) -> (r: Result<T, InputValueError>)
    ensures o.is_some() ==> r == Ok::<T, InputValueError>(o.unwrap()), o.is_none() ==> r.is_err()
{ match o { Some(v) => Ok(v), None => Err(e) } }

// ---- extracted type (value/src/lib.rs) ----
pub enum Value {
    Variable(Name),
    Null,
    Number(Number),
    String(String),
    Boolean(bool),
    Binary(Bytes),
    Enum(Name),
    List(Vec<Value>),
    Object(IndexMapNV),
}

// ---- extracted fn: impl ScalarType for i8 :: parse (R-self, R-msg, R-closure) ----
fn i8_parse(value: Value) -> (r: Result<i8, InputValueError>)
    ensures
        r.is_ok() <==> (value is Number && value->Number_0.spec_as_i64().is_some()
                          && -128 <= value->Number_0.spec_as_i64().unwrap() <= 127),
        r.is_ok() ==> r->Ok_0 as int == value->Number_0.spec_as_i64().unwrap() as int,
{
    match value {
        Value::Number(n) => {
            let n = verif_ok_or(n
                .as_i64(), InputValueError::from_msg())?;
            if n < i8::MIN as i64 || n > i8::MAX as i64 {
                return Err(InputValueError::from_msg());
            }
            Ok(n as i8)
        }
        _ => Err(InputValueError::expected_type(value)),
    }
}

fn i8_to_value(this: &i8) -> (r: Value) 
   ensures r is Number, r->Number_0.spec_as_i64() == Some(*this as i64)
{
    Value::Number(Number::from_i64(*this as i64))
}
}
fn main() {}
