use vstd::prelude::*;
verus! {

// ---- prelude shims (trusted) ----
pub struct FmtError;
pub trait VWrite {
    spec fn buf(&self) -> Seq<char>;
    fn write_str(&mut self, s: &str) -> (r: Result<(), FmtError>)
        ensures final(self).buf() == old(self).buf() + s@, r.is_ok();
    fn write_char(&mut self, c: char) -> (r: Result<(), FmtError>)
        ensures final(self).buf() == old(self).buf().push(c), r.is_ok();
}
pub struct VString { pub s: Vec<char> }
impl VWrite for VString {
    open spec fn buf(&self) -> Seq<char> { self.s@ }
    #[verifier::external_body]
    fn write_str(&mut self, s: &str) -> (r: Result<(), FmtError>) { unimplemented!() }
    #[verifier::external_body]
    fn write_char(&mut self, c: char) -> (r: Result<(), FmtError>) { unimplemented!() }
}
impl VString { 
    pub fn new() -> (r: VString) ensures r.buf() == Seq::<char>::empty() { VString { s: Vec::new() } }
}

// ---- spec ----
pub open spec fn esc1(c: char) -> Seq<char> {
    if c == '\\' { seq!['\\','\\'] } else if c == '"' { seq!['\\','"'] }
    else if c == '\x08' { seq!['\\','b'] } else if c == '\x0c' { seq!['\\','f'] }
    else if c == '\n' { seq!['\\','n'] } else if c == '\r' { seq!['\\','r'] } else if c == '\t' { seq!['\\','t'] }
    else { seq![c] }
}
pub open spec fn esc(s: Seq<char>) -> Seq<char> decreases s.len() {
    if s.len() == 0 { Seq::empty() } else { esc(s.drop_last()) + esc1(s.last()) }
}

// ---- extracted (R-ty: String -> VString) ----
fn escape_string(s: &str) -> (res: VString)
    ensures res.buf() == esc(s@)
{
    let mut res = VString::new();

    for c in it: s.chars()
        invariant it.history@ =~= s@.take(it.index@), res.buf() == esc(s@.take(it.index@)), it.index@ <= s@.len(),
    {
        proof { 
            assert(s@.take(it.index@ + 1).drop_last() =~= s@.take(it.index@));
            assert(s@.take(it.index@ + 1).last() == c);
            reveal_strlit("\\\\"); reveal_strlit("\\b"); reveal_strlit("\\f"); reveal_strlit("\\n"); reveal_strlit("\\r"); reveal_strlit("\\t");
            assert("\\b"@ =~= seq!['\\','b']);
        }
        let ec = match c {
            '\\' => Some("\\\\"),
            '\x08' => Some("\\b"),
            '\x0c' => Some("\\f"),
            '\n' => Some("\\n"),
            '\r' => Some("\\r"),
            '\t' => Some("\\t"),
            _ => None,
        };
        match ec {
            Some(ec) => {
                res.write_str(ec).ok();
            }
            None => {
                res.write_char(c).ok();
            }
        }
    }
    proof { assert(s@.take(s@.len() as int) =~= s@); }
    res
}
}
fn main() {}
