use vstd::prelude::*;
use std::borrow::Cow;
verus! {
pub axiom fn string_eq_axiom()
    ensures <String as vstd::std_specs::cmp::PartialEqSpec>::obeys_eq_spec(),
            forall|a: String, b: String| #[trigger] vstd::std_specs::cmp::PartialEqSpec::eq_spec(&a, &b) == (a@ == b@);


pub enum TypeRef {
    /// Named type
    Named(String),
    /// Non-null type
    NonNull(Box<TypeRef>),
    /// List type
    List(Box<TypeRef>),
}

pub open spec fn spec_sub(sup: TypeRef, sub: TypeRef) -> bool
    decreases sup, sub
{
    match (sup, sub) {
        (TypeRef::NonNull(a), TypeRef::NonNull(b)) => spec_sub(*a, *b),
        (TypeRef::NonNull(_), _) => false,
        (s, TypeRef::NonNull(b)) => spec_sub(s, *b),
        (TypeRef::Named(a), TypeRef::Named(b)) => a@ == b@,
        (TypeRef::List(a), TypeRef::List(b)) => spec_sub(*a, *b),
        _ => false,
    }
}

impl TypeRef {
    pub(crate) fn is_subtype(&self, sub: &TypeRef) -> (r: bool) 
        ensures r == spec_sub(*self, *sub)
    {
        fn is_subtype(cur: &TypeRef, sub: &TypeRef) -> (r: bool) 
            ensures r == spec_sub(*cur, *sub)
            decreases *cur, *sub
        {
            proof { string_eq_axiom(); }
            match (cur, sub) {
                (TypeRef::NonNull(super_type), TypeRef::NonNull(sub_type)) => {
                    is_subtype(&super_type, &sub_type)
                }
                (_, TypeRef::NonNull(sub_type)) => is_subtype(cur, &sub_type),
                (TypeRef::Named(super_type), TypeRef::Named(sub_type)) => super_type == sub_type,
                (TypeRef::List(super_type), TypeRef::List(sub_type)) => {
                    is_subtype(super_type, sub_type)
                }
                _ => false,
            }
        }

        is_subtype(self, sub)
    }
}
}
fn main() {}
