use vstd::prelude::*;
verus! {

#[derive(Clone, Copy, PartialEq, Eq, Debug)]
pub struct CacheControl {
    pub public: bool,
    pub max_age: i32,
}

pub open spec fn rank(a: int) -> int { if a == -1 { -3000000000 } else if a == 0 { 3000000000 } else { a } }
pub open spec fn spec_merge_age(a: int, b: int) -> int { if rank(a) <= rank(b) { a } else { b } }

impl CacheControl {
    pub(crate) fn merge(self, other: &CacheControl) -> (r: CacheControl)
        ensures r.public == (self.public && other.public),
                r.max_age as int == spec_merge_age(self.max_age as int, other.max_age as int),
    {
        CacheControl {
            public: self.public && other.public,
            max_age: match (self.max_age, other.max_age) {
                (-1, _) => -1,
                (_, -1) => -1,
                (a, 0) => a,
                (0, b) => b,
                (a, b) => a.min(b),
            },
        }
    }
}

fn count(s: &str) -> (r: usize) {
    let mut n: usize = 0;
    for ch in s.chars() {
        if n < 100 { n += 1; }
    }
    n
}
}
fn main() {}
