use async_graphql::validators::{maximum, minimum, multiple_of};
fn fmt_stub(_a: core::fmt::Arguments<'_>) -> String { String::new() }

#[kani::proof]
#[kani::stub(alloc::fmt::format, fmt_stub)]
fn max_i32_i64() {
    let v: i32 = kani::any();
    let n: i64 = kani::any();
    let r = maximum(&v, n);
    let ok = r.is_ok();
    core::mem::forget(r);
    assert!(ok == ((v as i128) <= (n as i128)), "contract: is_ok <=> v <= n");
}
#[kani::proof]
#[kani::stub(alloc::fmt::format, fmt_stub)]
fn max_u64_i64() {
    let v: u64 = kani::any();
    let n: i64 = kani::any();
    let r = maximum(&v, n);
    let ok = r.is_ok();
    core::mem::forget(r);
    assert!(ok == ((v as i128) <= (n as i128)), "contract: is_ok <=> v <= n");
}
#[kani::proof]
#[kani::stub(alloc::fmt::format, fmt_stub)]
fn max_f64_f64() {
    let v: f64 = kani::any();
    let n: f64 = kani::any();
    let r = maximum(&v, n);
    let ok = r.is_ok();
    core::mem::forget(r);
    assert!(ok == (v <= n), "contract: is_ok <=> v <= n");
}
