use async_graphql::validators::{maximum, minimum, multiple_of};
fn fmt_stub(_a: core::fmt::Arguments<'_>) -> String { String::new() }

#[kani::proof]
#[kani::stub(alloc::fmt::format, fmt_stub)]
fn max_i32_i64() {
    let v: i32 = kani::any();
    let n: i64 = kani::any();
    let r = maximum(&v, n);
    let ok = r.is_ok();
    core::mem::forget(r);
    assert_eq!(ok, (v as i128) <= (n as i128));
}
