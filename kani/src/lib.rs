#![allow(unused)]
#[cfg(kani)]
mod c08;
