//! Concrete replay of contracts against the REAL code (built with the repository's own
//! toolchain). `replay run <case> <json-args>` evaluates the executable form of the contract
//! on one input; `replay search <case> <seed>` enumerates boundary values + seeded random
//! inputs and reports the first input on which the contract fails.
//! Output: one JSON object on stdout: {"holds":bool,"observed":..,"expected":..,"input":..}
use serde_json::{json, Value};

mod cases;
pub mod rng;

pub struct Outcome {
    pub holds: bool,
    pub observed: String,
    pub expected: String,
}

fn main() {
    let a: Vec<String> = std::env::args().collect();
    if a.len() < 3 {
        eprintln!("usage: replay run <case> <json> | replay search <case> <seed> | replay list");
        std::process::exit(2);
    }
    // a panic inside the real code is an observation, not a crash of the replayer
    std::panic::set_hook(Box::new(|_| {}));
    match a[1].as_str() {
        "run" => {
            let args: Value = serde_json::from_str(a.get(3).map(|s| s.as_str()).unwrap_or("null")).expect("json args");
            match cases::run(&a[2], &args) {
                Some(o) => println!("{}", json!({"holds": o.holds, "observed": o.observed, "expected": o.expected, "input": args})),
                None => { println!("{}", json!({"error": format!("unknown case {}", a[2])})); std::process::exit(3) }
            }
        }
        "list" => {
            let seed: u64 = a.get(3).and_then(|s| s.parse().ok()).unwrap_or(0);
            let open: Vec<String> = a.get(4).map(|s| s.split(',').map(|x| x.to_string()).collect()).unwrap_or_default();
            match cases::list(&a[2], seed, &open) { Some(v) => println!("{}", Value::Array(v)), None => { println!("{}", json!({"error": "no such case"})); std::process::exit(3) } }
        }
        "search" => {
            let seed: u64 = a.get(3).and_then(|s| s.parse().ok()).unwrap_or(0);
            let open: Vec<String> = a.get(4).map(|s| s.split(',').map(|x| x.to_string()).collect()).unwrap_or_default();
            match cases::search(&a[2], seed, &open) {
                Some((tried, Some((input, o)), _)) => println!("{}", json!({"found": true, "tried": tried, "holds": o.holds, "observed": o.observed, "expected": o.expected, "input": input})),
                Some((tried, None, samples)) => println!("{}", json!({"found": false, "tried": tried, "samples": samples.iter().map(|(i, o)| json!({"input": i, "observed": o})).collect::<Vec<_>>()})),
                None => { println!("{}", json!({"error": format!("no search for case {}", a[2])})); std::process::exit(3) }
            }
        }
        _ => std::process::exit(2),
    }
}
