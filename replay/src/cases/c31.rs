//! C31: histories of persisted-query requests against the real extension + LruCacheStorage.
use crate::{rng::Rng, Outcome};
use async_graphql::{extensions::apollo_persisted_queries::{ApolloPersistedQueries, LruCacheStorage}, *};
use futures_util::FutureExt;
use serde_json::{json, Value};
use std::collections::HashMap;

struct Query;
#[Object]
impl Query { async fn a(&self) -> i32 { 1 } async fn b(&self) -> i32 { 2 } async fn c(&self) -> i32 { 3 } }

const DOCS: &[(&str, &str)] = &[("{ a }", "{\"a\":1}"), ("{ b }", "{\"b\":2}"), ("{ a c }", "{\"a\":1,\"c\":3}"), ("{ c }", "{\"c\":3}")];

fn hex_sha(q: &str) -> String {
    // independent of the crate under test: tiny SHA-256
    let k: [u32; 64] = [0x428a2f98,0x71374491,0xb5c0fbcf,0xe9b5dba5,0x3956c25b,0x59f111f1,0x923f82a4,0xab1c5ed5,0xd807aa98,0x12835b01,0x243185be,0x550c7dc3,0x72be5d74,0x80deb1fe,0x9bdc06a7,0xc19bf174,0xe49b69c1,0xefbe4786,0x0fc19dc6,0x240ca1cc,0x2de92c6f,0x4a7484aa,0x5cb0a9dc,0x76f988da,0x983e5152,0xa831c66d,0xb00327c8,0xbf597fc7,0xc6e00bf3,0xd5a79147,0x06ca6351,0x14292967,0x27b70a85,0x2e1b2138,0x4d2c6dfc,0x53380d13,0x650a7354,0x766a0abb,0x81c2c92e,0x92722c85,0xa2bfe8a1,0xa81a664b,0xc24b8b70,0xc76c51a3,0xd192e819,0xd6990624,0xf40e3585,0x106aa070,0x19a4c116,0x1e376c08,0x2748774c,0x34b0bcb5,0x391c0cb3,0x4ed8aa4a,0x5b9cca4f,0x682e6ff3,0x748f82ee,0x78a5636f,0x84c87814,0x8cc70208,0x90befffa,0xa4506ceb,0xbef9a3f7,0xc67178f2];
    let mut h: [u32; 8] = [0x6a09e667,0xbb67ae85,0x3c6ef372,0xa54ff53a,0x510e527f,0x9b05688c,0x1f83d9ab,0x5be0cd19];
    let mut m = q.as_bytes().to_vec(); let bl = (m.len() as u64) * 8; m.push(0x80); while m.len() % 64 != 56 { m.push(0); } m.extend_from_slice(&bl.to_be_bytes());
    for ch in m.chunks(64) {
        let mut w = [0u32; 64];
        for i in 0..16 { w[i] = u32::from_be_bytes([ch[4*i], ch[4*i+1], ch[4*i+2], ch[4*i+3]]); }
        for i in 16..64 { let s0 = w[i-15].rotate_right(7) ^ w[i-15].rotate_right(18) ^ (w[i-15] >> 3); let s1 = w[i-2].rotate_right(17) ^ w[i-2].rotate_right(19) ^ (w[i-2] >> 10); w[i] = w[i-16].wrapping_add(s0).wrapping_add(w[i-7]).wrapping_add(s1); }
        let mut v = h;
        for i in 0..64 { let s1 = v[4].rotate_right(6) ^ v[4].rotate_right(11) ^ v[4].rotate_right(25); let chh = (v[4] & v[5]) ^ (!v[4] & v[6]); let t1 = v[7].wrapping_add(s1).wrapping_add(chh).wrapping_add(k[i]).wrapping_add(w[i]);
            let s0 = v[0].rotate_right(2) ^ v[0].rotate_right(13) ^ v[0].rotate_right(22); let maj = (v[0] & v[1]) ^ (v[0] & v[2]) ^ (v[1] & v[2]); let t2 = s0.wrapping_add(maj);
            v = [t1.wrapping_add(t2), v[0], v[1], v[2], v[3].wrapping_add(t1), v[4], v[5], v[6]]; }
        for i in 0..8 { h[i] = h[i].wrapping_add(v[i]); }
    }
    h.iter().map(|x| format!("{:08x}", x)).collect()
}

/// args {"ops": [{"q": idx|null, "h": idx|"bad"|null, "ver": 1}]}: q = send that query text (or none), h = hash of which doc (or a wrong one)
pub fn apq(args: &Value) -> Outcome {
    let schema = Schema::build(Query, EmptyMutation, EmptySubscription).extension(ApolloPersistedQueries::new(LruCacheStorage::new(256))).finish();
    let mut registered: HashMap<String, usize> = HashMap::new();
    let mut bad = Vec::new();
    for (i, op) in args["ops"].as_array().unwrap().iter().enumerate() {
        let q = op["q"].as_u64().map(|x| x as usize);
        let ver = op["ver"].as_i64().unwrap_or(1);
        let hash: Option<String> = match &op["h"] { Value::Null => None, Value::String(_) => Some("00".repeat(32)),
            // a near miss of a document's digest: only the EXACT digest identifies the document
            Value::Object(o) => { let full = hex_sha(DOCS[o["of"].as_u64().unwrap() as usize].0);
                Some(match o["m"].as_str().unwrap() { "empty" => String::new(), "prefix" => full[..8].to_string(), "prefix63" => full[..63].to_string(), "upper" => full.to_uppercase(),
                    "pad" => format!("{}0", full), "flip" => { let mut b = full.into_bytes(); let l = b.len() - 1; b[l] = if b[l] == b'0' { b'1' } else { b'0' }; String::from_utf8(b).unwrap() }, _ => full }) }
            v => Some(hex_sha(DOCS[v.as_u64().unwrap() as usize].0)) };
        let mut req = Request::new(q.map(|x| DOCS[x].0).unwrap_or(""));
        // payload shapes: the well-formed object, or a malformed one (bare hash string / null / number / list / object without hash): malformed => rejected
        let shape = op["shape"].as_str().unwrap_or("object");
        if let Some(h) = &hash { req.extensions.insert("persistedQuery".to_string(), match shape {
            "string" => value!(h.clone()), "null" => value!(null), "number" => value!(1), "list" => value!([h.clone()]), "nohash" => value!({"version": ver}), "hashnum" => value!({"version": ver, "sha256Hash": 5}),
            _ => value!({"version": ver, "sha256Hash": h.clone()}) }); }
        let resp = schema.execute(req).now_or_never().unwrap();
        let data = resp.data.clone().into_json().unwrap().to_string();
        // reference
        let exp: Option<String> = if hash.is_some() && shape != "object" { None } else { match (&hash, q) {
            (None, Some(x)) => Some(DOCS[x].1.to_string()),
            (None, None) => None,
            (Some(_), _) if ver != 1 => None,
            (Some(h), None) => registered.get(h).map(|x| DOCS[*x].1.to_string()),
            (Some(h), Some(x)) => if *h == hex_sha(DOCS[x].0) { registered.insert(h.clone(), x); Some(DOCS[x].1.to_string()) } else { None },
        } };
        match exp { Some(e) => if !resp.errors.is_empty() || data != e { bad.push(format!("op#{}: data {} errors {:?}, expected {}", i, data, resp.errors.iter().map(|e| e.message.clone()).collect::<Vec<_>>(), e)); },
                    None => if resp.errors.is_empty() { bad.push(format!("op#{}: executed (data {}) but must be rejected", i, data)); } }
    }
    Outcome { holds: bad.is_empty(), observed: if bad.is_empty() { "history consistent".into() } else { bad.join("; ") }, expected: "only the document registered under the hash (or the sent text when its hash matches) executes".into() }
}

pub fn inputs(seed: u64) -> impl Iterator<Item = Value> {
    let mut out = vec![
        json!({"ops": [{"q": null, "h": 0}, {"q": 0, "h": 0}, {"q": null, "h": 0}, {"q": null, "h": 1}]}),
        json!({"ops": [{"q": 0, "h": 1}, {"q": null, "h": 1}, {"q": null, "h": 0}]}),
        json!({"ops": [{"q": 0, "h": "bad"}, {"q": null, "h": "bad"}]}),
        json!({"ops": [{"q": 0, "h": 0, "ver": 2}, {"q": null, "h": 0}]}),
        json!({"ops": [{"q": 0, "h": {"of": 0, "m": "prefix"}}, {"q": null, "h": 0}]}),
        json!({"ops": [{"q": 1, "h": {"of": 1, "m": "empty"}}, {"q": null, "h": 1}]}),
        json!({"ops": [{"q": 2, "h": {"of": 2, "m": "prefix63"}}, {"q": null, "h": 2}, {"q": 2, "h": {"of": 2, "m": "pad"}}, {"q": null, "h": 2}]}),
        json!({"ops": [{"q": 3, "h": {"of": 3, "m": "upper"}}, {"q": null, "h": 3}, {"q": 3, "h": {"of": 3, "m": "flip"}}, {"q": null, "h": 3}]}),
        json!({"ops": [{"q": 0, "h": 0}, {"q": null, "h": {"of": 0, "m": "prefix"}}, {"q": null, "h": {"of": 0, "m": "pad"}}, {"q": 1, "h": 0}, {"q": null, "h": 0}]}),
        json!({"ops": [{"q": 1, "h": 0, "shape": "string"}, {"q": null, "h": 0}, {"q": 0, "h": 0, "shape": "list"}, {"q": null, "h": 0}]}),
        json!({"ops": [{"q": 0, "h": 0, "shape": "null"}, {"q": null, "h": 0}, {"q": 0, "h": 0, "shape": "number"}, {"q": 0, "h": 0, "shape": "nohash"}, {"q": 0, "h": 0, "shape": "hashnum"}, {"q": null, "h": 0}]}),
        json!({"ops": [{"q": 0, "h": 0, "ver": 2}, {"q": null, "h": 0, "ver": 1}, {"q": 1, "h": 1, "ver": 0}, {"q": null, "h": 1}, {"q": 2, "h": 2, "ver": -1}, {"q": null, "h": 2}]}),
        json!({"ops": [{"q": 2, "h": 2}, {"q": 3, "h": 3}, {"q": null, "h": 2}, {"q": null, "h": 3}, {"q": 1, "h": null}]}),
    ];
    let mut r = Rng(seed);
    for _ in 0..40 {
        let n = 2 + r.below(7);
        let ops: Vec<Value> = (0..n).map(|_| { let q = if r.below(2) == 0 { Value::Null } else { json!(r.below(4)) };
            let h = match r.below(8) { 0 => Value::Null, 1 => json!("bad"), 2 => { let m = ["empty", "prefix", "prefix63", "upper", "pad", "flip"][r.below(6) as usize]; json!({"of": r.below(4), "m": m}) }, _ => json!(r.below(4)) }; json!({"q": q, "h": h, "ver": if r.below(8) == 0 { 2 } else { 1 }, "shape": if r.below(9) == 0 { ["string", "null", "list", "nohash"][r.below(4) as usize] } else { "object" }}) }).collect();
        out.push(json!({"ops": ops}));
    }
    out.into_iter()
}
