//! C02: dynamic-schema execution vs. hand-written expectations from the spec's execution algorithm.
use crate::Outcome;
use async_graphql::{dynamic::*, Value as GqlValue};
use futures_util::FutureExt;
use serde_json::{json, Value};

struct YieldN(u32);
impl std::future::Future for YieldN { type Output = (); fn poll(mut self: std::pin::Pin<&mut Self>, cx: &mut std::task::Context<'_>) -> std::task::Poll<()> {
    if self.0 == 0 { std::task::Poll::Ready(()) } else { self.0 -= 1; cx.waker().wake_by_ref(); std::task::Poll::Pending } } }
fn block_on<F: std::future::Future>(f: F) -> F::Output {
    let w = futures_util::task::noop_waker(); let mut cx = std::task::Context::from_waker(&w);
    let mut f = Box::pin(f);
    loop { if let std::task::Poll::Ready(v) = f.as_mut().poll(&mut cx) { return v; } }
}
fn schema() -> Schema {
    let dog = Object::new("Dog").implement("Animal")
        .field(Field::new("name", TypeRef::named_nn(TypeRef::STRING), |_| FieldFuture::new(async { Ok(Some(GqlValue::from("rex"))) })))
        .field(Field::new("bark", TypeRef::named_nn(TypeRef::INT), |_| FieldFuture::new(async { Ok(Some(GqlValue::from(3))) })));
    let cat = Object::new("Cat").implement("Animal")
        .field(Field::new("name", TypeRef::named_nn(TypeRef::STRING), |_| FieldFuture::new(async { Ok(Some(GqlValue::from("tom"))) })))
        .field(Field::new("meow", TypeRef::named_nn(TypeRef::INT), |_| FieldFuture::new(async { Ok(Some(GqlValue::from(9))) })));
    let animal = Interface::new("Animal").field(InterfaceField::new("name", TypeRef::named_nn(TypeRef::STRING)));
    let pet = Union::new("Pet").possible_type("Dog").possible_type("Cat");
    let canine = Union::new("Canine").possible_type("Dog");
    let natural = Scalar::new("Natural").validator(|v| matches!(v, GqlValue::Number(n) if n.as_i64().map(|x| x >= 0).unwrap_or(false)));
    let color = Enum::new("Color").item("RED").item("GREEN");
    let q = Object::new("Query")
        .field(Field::new("num", TypeRef::named_nn(TypeRef::INT), |_| FieldFuture::new(async { Ok(Some(GqlValue::from(7))) })))
        .field(Field::new("opt", TypeRef::named(TypeRef::INT), |_| FieldFuture::new(async { Ok(None::<GqlValue>) })))
        .field(Field::new("color", TypeRef::named_nn("Color"), |_| FieldFuture::new(async { Ok(Some(GqlValue::from("GREEN"))) })))
        .field(Field::new("dog", TypeRef::named_nn("Dog"), |_| FieldFuture::new(async { Ok(Some(FieldValue::owned_any(0u8))) })))
        .field(Field::new("pet", TypeRef::named_nn("Pet"), |_| FieldFuture::new(async { Ok(Some(FieldValue::owned_any(0u8).with_type("Dog"))) })))
        .field(Field::new("animal", TypeRef::named_nn("Animal"), |_| FieldFuture::new(async { Ok(Some(FieldValue::owned_any(0u8).with_type("Cat"))) })))
        .field(Field::new("pets", TypeRef::named_nn_list_nn("Pet"), |_| FieldFuture::new(async { Ok(Some(FieldValue::list(vec![FieldValue::owned_any(0u8).with_type("Dog"), FieldValue::owned_any(0u8).with_type("Cat")]))) })))
        .field(Field::new("naturals", TypeRef::named_nn_list_nn("Natural"), |_| FieldFuture::new(async { Ok(Some(GqlValue::from(vec![1, 2]))) })))
        .field(Field::new("badNaturals", TypeRef::named_nn_list_nn("Natural"), |_| FieldFuture::new(async { Ok(Some(GqlValue::from(vec![1, -2]))) })))
        .field(Field::new("badNested", TypeRef::named_nn_list("Natural"), |_| FieldFuture::new(async { Ok(Some(GqlValue::List(vec![GqlValue::from(1), GqlValue::List(vec![GqlValue::from(2)])]))) })))
        .field(Field::new("badColor", TypeRef::named_nn_list_nn("Color"), |_| FieldFuture::new(async { Ok(Some(GqlValue::List(vec![GqlValue::from("GREEN"), GqlValue::from("PURPLE")]))) })))
        .field(Field::new("nullNn", TypeRef::named_nn(TypeRef::INT), |_| FieldFuture::new(async { Ok(Some(GqlValue::Null)) })))
        .field(Field::new("nullItemNn", TypeRef::named_nn_list_nn(TypeRef::INT), |_| FieldFuture::new(async { Ok(Some(GqlValue::List(vec![GqlValue::from(1), GqlValue::Null]))) })))
        .field(Field::new("strAsInt", TypeRef::named_nn(TypeRef::INT), |_| FieldFuture::new(async { Ok(Some(GqlValue::from("seven"))) })))
        // resolvers that really suspend: response keys must still come out in DOCUMENT order
        .field(Field::new("slow", TypeRef::named_nn(TypeRef::INT), |_| FieldFuture::new(async { YieldN(3).await; Ok(Some(GqlValue::from(1))) })))
        .field(Field::new("mid", TypeRef::named_nn(TypeRef::INT), |_| FieldFuture::new(async { YieldN(1).await; Ok(Some(GqlValue::from(2))) })))
        .field(Field::new("nums", TypeRef::named_nn_list(TypeRef::INT), |_| FieldFuture::new(async { Ok(Some(GqlValue::from(vec![1, 2]))) })));
    Schema::build("Query", None, None).register(dog).register(cat).register(animal).register(pet).register(canine).register(natural).register(color).register(q).finish().unwrap()
}

/// args {"query": "...", "data": "<expected json text>"}
pub fn exec(args: &Value) -> Outcome {
    let mut req = async_graphql::Request::new(args["query"].as_str().unwrap());
    if let Some(v) = args.get("variables") { if !v.is_null() { req = req.variables(async_graphql::Variables::from_json(v.clone())); } }
    let sch = schema();
    let resp = block_on(sch.execute(req));
    let data = serde_json::to_string(&resp.data).unwrap();
    if args["expect_error"] == true {
        // leaf values are CHECKED against their declared type: an invalid value is a field error, never response data
        return Outcome { holds: !resp.errors.is_empty(), observed: format!("data {} errors {:?}", data, resp.errors.iter().map(|e| e.message.clone()).collect::<Vec<_>>()), expected: "a field error (the value is invalid for the declared type)".into() };
    }
    let exp = args["data"].as_str().unwrap();
    Outcome { holds: resp.errors.is_empty() && data == exp, observed: format!("data {} errors {:?}", data, resp.errors.iter().map(|e| e.message.clone()).collect::<Vec<_>>()), expected: format!("data {}", exp) }
}

pub fn inputs(_seed: u64, open: &[String]) -> impl Iterator<Item = Value> {
    let has = |id: &str| open.iter().any(|x| x == id);
    let mut v = vec![
        json!({"query": "{ num opt color }", "data": "{\"num\":7,\"opt\":null,\"color\":\"GREEN\"}"}),
        json!({"query": "{ b: num a: num num nums }", "data": "{\"b\":7,\"a\":7,\"num\":7,\"nums\":[1,2]}"}),
        json!({"query": "{ dog { name } num dog { bark } }", "data": "{\"dog\":{\"name\":\"rex\",\"bark\":3},\"num\":7}"}),
        json!({"query": "{ dog { ... on Dog { bark } name __typename } }", "data": "{\"dog\":{\"bark\":3,\"name\":\"rex\",\"__typename\":\"Dog\"}}"}),
        json!({"query": "{ dog { ... on Animal { name } bark } }", "data": "{\"dog\":{\"name\":\"rex\",\"bark\":3}}"}),
        json!({"query": "{ pet { ... on Dog { bark } ... on Cat { meow } __typename } }", "data": "{\"pet\":{\"bark\":3,\"__typename\":\"Dog\"}}"}),
        json!({"query": "{ animal { name ... on Cat { meow } ... on Dog { bark } } }", "data": "{\"animal\":{\"name\":\"tom\",\"meow\":9}}"}),
        json!({"query": "{ pets { ... on Animal { name } } }", "data": "{\"pets\":[{\"name\":\"rex\"},{\"name\":\"tom\"}]}"}),
        json!({"query": "{ pets { ...F } } fragment F on Dog { bark }", "data": "{\"pets\":[{\"bark\":3},{}]}"}),
        json!({"query": "{ num @skip(if: true) dog { name @include(if: false) bark } }", "data": "{\"dog\":{\"bark\":3}}"}),
        json!({"query": "{ ... { num } ... on Query { opt } }", "data": "{\"num\":7,\"opt\":null}"}),
        json!({"query": "{ slow mid num }", "data": "{\"slow\":1,\"mid\":2,\"num\":7}"}),
        json!({"query": "{ a: slow num b: mid c: slow }", "data": "{\"a\":1,\"num\":7,\"b\":2,\"c\":1}"}),
        json!({"query": "{ ...F num } fragment F on Query { slow mid }", "data": "{\"slow\":1,\"mid\":2,\"num\":7}"}),
        // both directives on one selection: BOTH must let it through
        json!({"query": "{ num @skip(if: false) @include(if: false) opt }", "data": "{\"opt\":null}"}),
        json!({"query": "{ num @include(if: true) @skip(if: true) opt }", "data": "{\"opt\":null}"}),
        json!({"query": "{ num @include(if: true) @skip(if: false) opt }", "data": "{\"num\":7,\"opt\":null}"}),
        json!({"query": "query($a: Boolean!, $b: Boolean!) { ... @skip(if: $a) @include(if: $b) { num } dog @include(if: $b) @skip(if: $a) { name } opt }", "variables": {"a": false, "b": false}, "data": "{\"opt\":null}"}),
        // a union condition the runtime object is NOT a member of never applies
        json!({"query": "{ animal { name ... on Canine { __typename } } }", "data": "{\"animal\":{\"name\":\"tom\"}}"}),
        json!({"query": "{ naturals }", "data": "{\"naturals\":[1,2]}"}),
        json!({"query": "{ badNaturals }", "expect_error": true}),
        json!({"query": "{ badNested }", "expect_error": true}),
        json!({"query": "{ badColor }", "expect_error": true}),
        // a position whose type is non-null never holds null
        json!({"query": "{ nullNn }", "expect_error": true}),
        json!({"query": "{ nullItemNn }", "expect_error": true}),
    ];
    if !has("C02-builtin-scalars-unchecked") {
        v.push(json!({"query": "{ strAsInt }", "expect_error": true}));
    }
    if !has("C02-union-type-condition") {
        v.push(json!({"query": "{ pets { ... on Canine { __typename } ... on Cat { meow } } }", "data": "{\"pets\":[{\"__typename\":\"Dog\"},{\"meow\":9}]}"}));
        v.push(json!({"query": "{ pet { ... on Pet { ... on Dog { bark } } } }", "data": "{\"pet\":{\"bark\":3}}"}));
        v.push(json!({"query": "{ pets { ...F } } fragment F on Pet { ... on Dog { bark } ... on Cat { meow } }", "data": "{\"pets\":[{\"bark\":3},{\"meow\":9}]}"}));
    }
    v.into_iter()
}
