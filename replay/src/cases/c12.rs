//! C12: client-controlled input must produce an error, never a panic.
use crate::{rng::Rng, Outcome};
use async_graphql::{InputType, Upload, Value as GqlValue};
use async_graphql_parser::parse_query;
use serde_json::{json, Value};

/// args {"s": "..."} -> <Upload as InputType>::parse(Some(String(s)))   (a panic is reported by the caller's catch_unwind)
pub fn upload(args: &Value) -> Outcome {
    let s = args["s"].as_str().unwrap();
    let r = <Upload as InputType>::parse(Some(GqlValue::String(s.to_string())));
    let exp = s.strip_prefix("#__graphql_file__:").and_then(|t| t.parse::<usize>().ok());
    Outcome { holds: r.as_ref().ok().map(|u| u.0) == exp, observed: format!("{:?}", r.map(|u| u.0).map_err(|_| "Err")), expected: format!("{:?}", exp) }
}
pub fn upload_inputs(_seed: u64) -> impl Iterator<Item = Value> {
    let v = ["", "x", "#__graphql_file__:", "#__graphql_file__:0", "#__graphql_file__:12", "#__graphql_file__:x", "#__graphql_file__:-1", "#__graphql_file__: 1",
             "#__graphql_file__:99999999999999999999999999", "#__graphql_file__:1.5", "#__graphql_file__:+3", "#__graphql_file__:\u{661}", "#__graphql_file_:1", "##__graphql_file__:1"];
    v.into_iter().map(|s| json!({"s": s})).collect::<Vec<_>>().into_iter()
}

/// args {"doc": "..."}: parse_query must return Ok or Err, and must reject selection nesting deeper than the parser's limit (64)
pub fn parse(args: &Value) -> Outcome {
    let doc = args["doc"].as_str().unwrap();
    let r = parse_query(doc);
    // independent nesting measure: maximum brace depth outside strings / comments
    let (mut depth, mut maxd, mut in_str, mut in_block, mut in_comment) = (0i64, 0i64, false, false, false);
    let cs: Vec<char> = doc.chars().collect();
    let mut i = 0;
    while i < cs.len() {
        let c = cs[i];
        if in_comment { if c == '\n' || c == '\r' { in_comment = false; } }
        else if in_block { if c == '\\' && cs[i..].starts_with(&['\\', '"', '"', '"']) { i += 3; } else if cs[i..].starts_with(&['"', '"', '"']) { in_block = false; i += 2; } }
        else if in_str { if c == '\\' { i += 1; } else if c == '"' { in_str = false; } }
        else if cs[i..].starts_with(&['"', '"', '"']) { in_block = true; i += 2; }
        else if c == '"' { in_str = true; }
        else if c == '#' { in_comment = true; }
        else if c == '{' { depth += 1; maxd = maxd.max(depth); }
        else if c == '}' { depth -= 1; }
        i += 1;
    }
    let too_deep = maxd > 70 && args["all_selection_sets"].as_bool().unwrap_or(false);
    let holds = !(too_deep && r.is_ok());
    Outcome { holds, observed: format!("{} (brace depth {})", if r.is_ok() { "Ok".to_string() } else { format!("Err({})", r.err().unwrap().to_string().lines().next().unwrap_or("")) }, maxd), expected: if too_deep { "Err (recursion limit)".into() } else { "Ok or Err, no panic".into() } }
}
pub fn parse_inputs(seed: u64) -> impl Iterator<Item = Value> {
    let mut out = Vec::new();
    // nesting built from fields, inline fragments, and alternating; must be rejected beyond the limit without exhausting the stack
    for n in [60usize, 80, 100, 150] {
        for kind in 0..4 {
            let mut d = String::new();
            for i in 0..n { d.push_str(match kind { 0 => "{ a ", 1 => "{ ... ", 2 => if i % 2 == 0 { "{ ... on T " } else { "{ x " }, _ => if i % 3 == 0 { "{ ... @include(if: true) " } else { "{ b " } }); }
            d.push_str("{ z }");
            for _ in 0..n { d.push_str(" }"); }
            out.push(json!({"doc": d, "all_selection_sets": true}));
        }
    }
    // strings and block strings: every shape of indentation / blank lines / escapes
    let lines = ["", " ", "  ", "\t", "    x", "  y", "z", "   ", "\\\"\"\"", "\"", "\\", "\u{e9}"];
    let seps = ["\n", "\r\n", "\r"];
    let mut r = Rng(seed);
    for a in lines { for b in lines { for c in lines { if r.below(3) == 0 { let s = seps[r.below(3) as usize];
        out.push(json!({"doc": format!("{{ f(a: \"\"\"{}{}{}{}{}\"\"\") }}", a, s, b, s, c)})); } } } }
    for s in ["\\u0041", "\\u00e9", "\\uD7FF", "\\uE000", "\\uffff", "\\n\\r\\t\\b\\f\\/\\\\\\\"", "\\u004", "\\uD800", "\\x", "\\", "a\\", "\u{0}", "\u{7f}"] {
        out.push(json!({"doc": format!("{{ f(a: \"{}\") }}", s)}));
    }
    for d in ["", "{", "}", "{ a", "query", "query($a: [Int = 1) { a }", "{ a(b: [[[[[[[[[[1]]]]]]]]]]) }", "{ a(b: {c: {d: {e: $f}}}) }", "\u{feff}{ a }", "{ a @b(c: 1e400) }", "{ a(b: 99999999999999999999999) }", "{ a(b: -0.0e-0) }", "fragment on on on { on }"] {
        out.push(json!({"doc": d}));
    }
    out.into_iter()
}
