//! C12: client-controlled input must produce an error, never a panic.
use crate::{rng::Rng, Outcome};
use async_graphql::{InputType, Upload, Value as GqlValue};
use async_graphql_parser::parse_query;
use serde_json::{json, Value};

/// args {"s": "..."} -> <Upload as InputType>::parse(Some(String(s)))   (a panic is reported by the caller's catch_unwind)
pub fn upload(args: &Value) -> Outcome {
    let s = args["s"].as_str().unwrap();
    let r = <Upload as InputType>::parse(Some(GqlValue::String(s.to_string())));
    let exp = s.strip_prefix("#__graphql_file__:").and_then(|t| t.parse::<usize>().ok());
    Outcome { holds: r.as_ref().ok().map(|u| u.0) == exp, observed: format!("{:?}", r.map(|u| u.0).map_err(|_| "Err")), expected: format!("{:?}", exp) }
}
pub fn upload_inputs(_seed: u64) -> impl Iterator<Item = Value> {
    let v = ["", "x", "#__graphql_file__:", "#__graphql_file__:0", "#__graphql_file__:12", "#__graphql_file__:x", "#__graphql_file__:-1", "#__graphql_file__: 1",
             "#__graphql_file__:99999999999999999999999999", "#__graphql_file__:1.5", "#__graphql_file__:+3", "#__graphql_file__:\u{661}", "#__graphql_file_:1", "##__graphql_file__:1"];
    v.into_iter().map(|s| json!({"s": s})).collect::<Vec<_>>().into_iter()
}

/// args {"doc": "..."}: parse_query must return Ok or Err, and must reject selection nesting deeper than the parser's limit (64)
pub fn parse(args: &Value) -> Outcome {
    let doc = args["doc"].as_str().unwrap();
    let r = parse_query(doc);
    // independent nesting measure: maximum brace depth outside strings / comments
    let (mut depth, mut maxd, mut in_str, mut in_block, mut in_comment) = (0i64, 0i64, false, false, false);
    let cs: Vec<char> = doc.chars().collect();
    let mut i = 0;
    while i < cs.len() {
        let c = cs[i];
        if in_comment { if c == '\n' || c == '\r' { in_comment = false; } }
        else if in_block { if c == '\\' && cs[i..].starts_with(&['\\', '"', '"', '"']) { i += 3; } else if cs[i..].starts_with(&['"', '"', '"']) { in_block = false; i += 2; } }
        else if in_str { if c == '\\' { i += 1; } else if c == '"' { in_str = false; } }
        else if cs[i..].starts_with(&['"', '"', '"']) { in_block = true; i += 2; }
        else if c == '"' { in_str = true; }
        else if c == '#' { in_comment = true; }
        else if c == '{' { depth += 1; maxd = maxd.max(depth); }
        else if c == '}' { depth -= 1; }
        i += 1;
    }
    let too_deep = maxd > 70 && args["all_selection_sets"].as_bool().unwrap_or(false);
    let holds = !(too_deep && r.is_ok());
    Outcome { holds, observed: format!("{} (brace depth {})", if r.is_ok() { "Ok".to_string() } else { format!("Err({})", r.err().unwrap().to_string().lines().next().unwrap_or("")) }, maxd), expected: if too_deep { "Err (recursion limit)".into() } else { "Ok or Err, no panic".into() } }
}
pub fn parse_inputs(seed: u64) -> impl Iterator<Item = Value> {
    let mut out = Vec::new();
    // nesting built from fields, inline fragments, and alternating; must be rejected beyond the limit without exhausting the stack
    for n in [60usize, 80, 100, 150] {
        for kind in 0..4 {
            let mut d = String::new();
            for i in 0..n { d.push_str(match kind { 0 => "{ a ", 1 => "{ ... ", 2 => if i % 2 == 0 { "{ ... on T " } else { "{ x " }, _ => if i % 3 == 0 { "{ ... @include(if: true) " } else { "{ b " } }); }
            d.push_str("{ z }");
            for _ in 0..n { d.push_str(" }"); }
            out.push(json!({"doc": d, "all_selection_sets": true}));
        }
    }
    // strings and block strings: every shape of indentation / blank lines / escapes
    let lines = ["", " ", "  ", "\t", "    x", "  y", "z", "   ", "\\\"\"\"", "\"", "\\", "\u{e9}", "\u{3000}b", "\u{a0}c", "\u{2003}", " \u{3000}", "\u{1F600}  d"];
    let seps = ["\n", "\r\n", "\r"];
    let mut r = Rng(seed);
    for a in lines { for b in lines { for c in lines { if r.below(3) == 0 { let s = seps[r.below(3) as usize];
        out.push(json!({"doc": format!("{{ f(a: \"\"\"{}{}{}{}{}\"\"\") }}", a, s, b, s, c)})); } } } }
    for s in ["\\u0041", "\\u00e9", "\\uD7FF", "\\uE000", "\\uffff", "\\n\\r\\t\\b\\f\\/\\\\\\\"", "\\u004", "\\uD800", "\\x", "\\", "a\\", "\u{0}", "\u{7f}"] {
        out.push(json!({"doc": format!("{{ f(a: \"{}\") }}", s)}));
    }
    for d in ["", "{", "}", "{ a", "query", "query($a: [Int = 1) { a }", "{ a(b: [[[[[[[[[[1]]]]]]]]]]) }", "{ a(b: {c: {d: {e: $f}}}) }", "\u{feff}{ a }", "{ a @b(c: 1e400) }", "{ a(b: 99999999999999999999999) }", "{ a(b: -0.0e-0) }", "fragment on on on { on }"] {
        out.push(json!({"doc": d}));
    }
    out.into_iter()
}


// ------------------------------------------------------------------------------------------------------------------
// c12_multipart: hostile multipart bodies (operations / map / file parts) through http::receive_batch_body: error or request, never a panic
pub fn multipart(args: &Value) -> Outcome {
    use async_graphql::http::{receive_batch_body, MultipartOptions};
    let b = "XbOuNdArY";
    let mut body = String::new();
    let mut part = |name: &str, filename: Option<&str>, content: &str| {
        body.push_str(&format!("--{}\r\nContent-Disposition: form-data; name=\"{}\"{}\r\n\r\n{}\r\n", b, name, filename.map(|f| format!("; filename=\"{}\"", f)).unwrap_or_default(), content));
    };
    if let Some(o) = args["operations"].as_str() { part("operations", None, o); }
    if let Some(m) = args["map"].as_str() { part("map", None, m); }
    for f in args["files"].as_array().cloned().unwrap_or_default() { part(f.as_str().unwrap(), Some("f.txt"), "data"); }
    body.push_str(&format!("--{}--\r\n", b));
    let ct = format!("multipart/form-data; boundary={}", b);
    let opts = MultipartOptions::default().max_num_files(4).max_file_size(4096);
    let rt = tokio::runtime::Builder::new_current_thread().enable_all().build().unwrap();
    let r = rt.block_on(receive_batch_body(Some(ct), futures_util::io::Cursor::new(body.into_bytes()), opts));
    Outcome { holds: true, observed: match r { Ok(_) => "Ok(request)".into(), Err(e) => format!("Err({})", e) }, expected: "a request or an error, no panic".into() }
}
pub fn multipart_inputs(_seed: u64) -> impl Iterator<Item = Value> {
    let single = r#"{"query": "mutation($file: Upload!) { up(file: $file) }", "variables": {"file": null, "files": [null, null], "o": {"f": null}}}"#;
    let batch = r#"[{"query": "mutation($file: Upload!) { up(file: $file) }", "variables": {"file": null}}, {"query": "mutation($file: Upload!) { up(file: $file) }", "variables": {"file": null, "files": [null]}}]"#;
    let paths = ["variables.file", "variables.files.0", "variables.files.1", "variables.files.2", "variables.files.99999999999999999999", "variables.files.-1", "variables.o.f", "variables.o.g", "variables.file.x", "variables", "", ".", "variables.", "query", "0.variables.file", "1.variables.file", "1.variables.files.0", "2.variables.file", "18446744073709551615.variables.file", "18446744073709551616.variables.file", "-1.variables.file", "x.variables.file", "0", "0.", "1.variables.files.5", "00.variables.file"];
    let mut out = Vec::new();
    for ops in [single, batch, "[]", "{}", "null", "[null]", "not json"] { for p in paths {
        out.push(json!({"operations": ops, "map": format!("{{\"0\": [\"{}\"]}}", p), "files": ["0"]}));
    } }
    for m in [r#"{"0": []}"#, r#"{"1": ["variables.file"]}"#, r#"{"0": ["variables.file", "variables.files.0"], "1": ["variables.files.1"]}"#, r#"{"0": "variables.file"}"#, r#"[]"#, r#"{"0": [1]}"#, "not json", r#"{"": ["variables.file"]}"#] {
        for ops in [single, batch] { out.push(json!({"operations": ops, "map": m, "files": ["0", "1"]})); out.push(json!({"operations": ops, "map": m, "files": []})); out.push(json!({"operations": ops, "map": m, "files": ["0", "0", "1", "2", "3", "4"]})); }
    }
    out.push(json!({"operations": single, "files": ["0"]}));
    out.push(json!({"map": r#"{"0": ["variables.file"]}"#, "files": ["0"]}));
    out.push(json!({"files": ["0"]}));
    out.into_iter()
}

// ------------------------------------------------------------------------------------------------------------------
// c12_ws: a WebSocket session fed with a script of client messages keeps making progress: after every script the final query is answered
// within a deadline (a hang is a timeout; a panic is caught by the harness)
mod ws_case {
    use async_graphql::*;
    pub struct Query;
    #[Object]
    impl Query { async fn value(&self) -> i32 { 1 } }
}
pub fn ws(args: &Value) -> Outcome {
    use async_graphql::http::{WebSocketProtocols as Protocols, WebSocket, WsMessage};
    use async_graphql::*;
    use futures_util::{SinkExt, StreamExt};
    let proto = if args["protocol"] == "graphql-ws" { Protocols::GraphQLWS } else { Protocols::SubscriptionsTransportWS };
    let script: Vec<String> = args["messages"].as_array().unwrap().iter().map(|m| m.to_string()).collect();
    let rt = tokio::runtime::Builder::new_current_thread().enable_all().build().unwrap();
    let out = rt.block_on(async move {
        let schema = Schema::new(ws_case::Query, EmptyMutation, EmptySubscription);
        let (mut tx, rx) = futures_channel::mpsc::unbounded::<String>();
        let mut stream = WebSocket::new(schema, rx, proto);
        let mut seen: Vec<String> = Vec::new();
        for m in script { tx.send(m).await.unwrap(); }
        // the probe: a query that must be answered (or the connection closed) in time
        let start = if proto == Protocols::GraphQLWS { "subscribe" } else { "start" };
        tx.send(format!("{{\"type\":\"{}\",\"id\":\"probe\",\"payload\":{{\"query\":\"{{ value }}\"}}}}", start)).await.unwrap();
        let deadline = std::time::Duration::from_millis(6000);
        loop {
            match tokio::time::timeout(deadline, stream.next()).await {
                Err(_) => return Err(format!("no progress for {:?} after {:?}", deadline, seen)),
                Ok(None) => return Ok(format!("closed after {:?}", seen)),
                Ok(Some(WsMessage::Close(code, _))) => return Ok(format!("close {} after {:?}", code, seen)),
                Ok(Some(WsMessage::Text(t))) => { let done = t.contains("\"probe\"") && (t.contains("\"data\"") || t.contains("\"next\"") || t.contains("\"error\"")); seen.push(t); if done { return Ok(format!("{:?}", seen)); } }
            }
        }
    });
    match out { Ok(o) => Outcome { holds: true, observed: o, expected: "the probe query is answered or the connection is closed".into() }, Err(e) => Outcome { holds: false, observed: e, expected: "the probe query is answered or the connection is closed (progress)".into() } }
}
pub fn ws_inputs(_seed: u64) -> impl Iterator<Item = Value> {
    let mut out = Vec::new();
    for (p, stop) in [("graphql-transport-ws-legacy", "stop"), ("graphql-ws", "complete")] {
        let init = json!({"type": "connection_init"});
        let scripts: Vec<Vec<Value>> = vec![
            vec![init.clone()],
            vec![init.clone(), json!({"type": stop, "id": "never-started"})],
            vec![init.clone(), json!({"type": stop, "id": "x"}), json!({"type": stop, "id": "x"})],
            vec![init.clone(), json!({"type": if p == "graphql-ws" { "subscribe" } else { "start" }, "id": "1", "payload": {"query": "{ value }"}}), json!({"type": stop, "id": "1"}), json!({"type": stop, "id": "1"})],
            vec![init.clone(), json!({"type": "ping"})],
            vec![init.clone(), json!({"type": if p == "graphql-ws" { "subscribe" } else { "start" }, "id": "2", "payload": {"query": "{ nope"}})],
        ];
        for s in scripts { out.push(json!({"protocol": p, "messages": s})); }
    }
    out.into_iter()
}
