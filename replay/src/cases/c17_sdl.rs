//! C17: export a dynamic schema to SDL, re-parse it with the crate's own parse_schema, and compare what was put in
//! (descriptions, default values, deprecation reasons) with what comes out.
use crate::{rng::Rng, Outcome};
use async_graphql::{
    dynamic::{Field, FieldFuture, InputObject, InputValue, Object, Schema, TypeRef},
    parser::{parse_schema, types::*},
    SDLExportOptions, Value as GqlValue,
};
use serde_json::{json, Value};

fn reason_of(dirs: &[async_graphql::Positioned<ConstDirective>]) -> Option<Option<String>> {
    let d = dirs.iter().find(|d| d.node.name.node == "deprecated")?;
    Some(d.node.arguments.iter().find(|(n, _)| n.node == "reason").map(|(_, v)| match &v.node { GqlValue::String(s) => s.clone(), o => format!("<{}>", o) }))
}

/// args {"desc": str|null, "default": int|null, "dep": null | "" (no reason) | "reason text", "single_line": bool}
pub fn sdl(args: &Value) -> Outcome {
    let desc = args["desc"].as_str();
    let default = args["default"].as_i64();
    let dep: Option<Option<&str>> = match &args["dep"] { Value::Null => None, Value::String(s) if s.is_empty() => Some(None), Value::String(s) => Some(Some(s.as_str())), _ => None };
    let mk = |name: &str| {
        let mut iv = InputValue::new(name, TypeRef::named(TypeRef::INT));
        if let Some(d) = default { iv = iv.default_value(GqlValue::from(d)); }
        if let Some(r) = dep { iv = iv.deprecation(r); }
        if let Some(d) = desc { iv = iv.description(d); }
        iv
    };
    let mut f = Field::new("items", TypeRef::named_nn(TypeRef::INT), |_| FieldFuture::new(async { Ok(Some(GqlValue::from(1))) })).argument(mk("arg"));
    if let Some(d) = desc { f = f.description(d); }
    if let Some(r) = dep { f = f.deprecation(r); }
    let mut q = Object::new("Query").field(f);
    if let Some(d) = desc { q = q.description(d); }
    let input = InputObject::new("In").field(mk("fld"));
    let schema = Schema::build("Query", None, None).register(input).register(q)
        .register(Object::new("Unused").field(Field::new("x", TypeRef::named(TypeRef::INT), |_| FieldFuture::new(async { Ok(None::<GqlValue>) })).argument(InputValue::new("i", TypeRef::named("In")))))
        .finish().unwrap();
    let mut opts = SDLExportOptions::new();
    if args["single_line"].as_bool().unwrap_or(false) { opts = opts.prefer_single_line_descriptions(); }
    let text = schema.sdl_with_options(opts);
    let doc = match parse_schema(&text) { Ok(d) => d, Err(e) => return Outcome { holds: false, observed: format!("exported SDL does not parse: {} -- {:?}", e, text), expected: "valid SDL".into() } };
    let bad = std::cell::RefCell::new(Vec::<String>::new());
    let seen = std::cell::Cell::new(0);
    let exp_dep: Option<Option<String>> = dep.map(|r| r.map(|s| s.to_string()));
    let exp_desc = desc.map(|s| s.to_string());
    let chk_iv = |who: &str, d: &InputValueDefinition| {
        seen.set(seen.get() + 1);
        let got_def = d.default_value.as_ref().map(|v| v.node.to_string());
        if got_def != default.map(|x| x.to_string()) { bad.borrow_mut().push(format!("{}: default {:?}", who, got_def)); }
        if reason_of(&d.directives) != exp_dep { bad.borrow_mut().push(format!("{}: deprecation {:?}", who, reason_of(&d.directives))); }
        if d.description.as_ref().map(|x| x.node.clone()) != exp_desc { bad.borrow_mut().push(format!("{}: description {:?}", who, d.description.as_ref().map(|x| x.node.clone()))); }
    };
    for def in &doc.definitions {
        if let TypeSystemDefinition::Type(ty) = def {
            match &ty.node.kind {
                TypeKind::InputObject(io) if ty.node.name.node == "In" => for f in &io.fields { chk_iv("In.fld", &f.node); },
                TypeKind::Object(o) if ty.node.name.node == "Query" => {
                    if ty.node.description.as_ref().map(|x| x.node.clone()) != exp_desc { bad.borrow_mut().push(format!("Query: description {:?}", ty.node.description.as_ref().map(|x| x.node.clone()))); }
                    for f in &o.fields { if f.node.name.node == "items" {
                        if reason_of(&f.node.directives) != exp_dep { bad.borrow_mut().push(format!("Query.items: deprecation {:?}", reason_of(&f.node.directives))); }
                        if f.node.description.as_ref().map(|x| x.node.clone()) != exp_desc { bad.borrow_mut().push(format!("Query.items: description {:?}", f.node.description.as_ref().map(|x| x.node.clone()))); }
                        for a in &f.node.arguments { chk_iv("Query.items.arg", &a.node); }
                    } }
                }
                _ => {}
            }
        }
    }
    if seen.get() != 2 { bad.borrow_mut().push(format!("expected 2 input values in the re-parsed SDL, found {}", seen.get())); }
    let bad = bad.into_inner();
    Outcome { holds: bad.is_empty(), observed: if bad.is_empty() { "all descriptions / defaults / deprecations read back".into() } else { bad.join("; ") }, expected: format!("desc {:?} default {:?} deprecation {:?}", exp_desc, default, exp_dep) }
}

pub fn inputs(seed: u64, open: &[String]) -> impl Iterator<Item = Value> {
    let skip_indent = open.iter().any(|x| x == "C17-block-description-indentation");
    let descs: Vec<Option<&str>> = vec![None, Some("plain"), Some("say \"hi\""), Some("two\nlines"), Some("tab\there"), Some("back\\slash"), Some("tri \"\"\" ple"), Some("ends with quote\""), Some("  indented"), Some("\u{e9}\u{1F600}")];
    let deps: Vec<Value> = vec![json!(null), json!(""), json!("use other"), json!("use \"other\" instead"), json!("a\\b"), json!("line\nbreak"), json!("\u{1F600}")];
    let mut out = Vec::new();
    let mut r = Rng(seed);
    for d in &descs { for dep in &deps { for def in [None, Some(10i64), Some(-3)] { for sl in [false, true] {
        if r.below(3) == 0 && !(d.is_none() || dep.is_null()) { continue; }
        if skip_indent { if let Some(t) = d { if t.starts_with(' ') || t.starts_with('\t') { continue; } } }
        out.push(json!({"desc": d, "default": def, "dep": dep, "single_line": sl}));
    } } } }
    out.into_iter()
}
