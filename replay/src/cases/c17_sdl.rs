//! C17: export a dynamic schema to SDL, re-parse it with the crate's own parse_schema, and compare what was put in
//! (descriptions, default values, deprecation reasons) with what comes out.
use crate::{rng::Rng, Outcome};
use async_graphql::{
    dynamic::{Field, FieldFuture, InputObject, InputValue, Object, Schema, TypeRef},
    parser::{parse_schema, types::*},
    SDLExportOptions, Value as GqlValue,
};
use serde_json::{json, Value};

fn reason_of(dirs: &[async_graphql::Positioned<ConstDirective>]) -> Option<Option<String>> {
    let d = dirs.iter().find(|d| d.node.name.node == "deprecated")?;
    Some(d.node.arguments.iter().find(|(n, _)| n.node == "reason").map(|(_, v)| match &v.node { GqlValue::String(s) => s.clone(), o => format!("<{}>", o) }))
}

/// args {"desc": str|null, "default": int|null, "dep": null | "" (no reason) | "reason text", "single_line": bool}
pub fn sdl(args: &Value) -> Outcome {
    let desc = args["desc"].as_str();
    let default = args["default"].as_i64();
    let null_default = args["default"] == "null";
    let dep: Option<Option<&str>> = match &args["dep"] { Value::Null => None, Value::String(s) if s.is_empty() => Some(None), Value::String(s) => Some(Some(s.as_str())), _ => None };
    let mk = |name: &str| {
        let mut iv = InputValue::new(name, TypeRef::named(TypeRef::INT));
        if let Some(d) = default { iv = iv.default_value(GqlValue::from(d)); }
        if null_default { iv = iv.default_value(GqlValue::Null); }
        if let Some(r) = dep { iv = iv.deprecation(r); }
        if let Some(d) = desc { iv = iv.description(d); }
        iv
    };
    let mut f = Field::new("items", TypeRef::named_nn(TypeRef::INT), |_| FieldFuture::new(async { Ok(Some(GqlValue::from(1))) })).argument(mk("arg"));
    if let Some(d) = desc { f = f.description(d); }
    if let Some(r) = dep { f = f.deprecation(r); }
    let mut q = Object::new("Query").field(f);
    if let Some(d) = desc { q = q.description(d); }
    let input = InputObject::new("In").field(mk("fld"));
    let federation = args["federation"].as_bool().unwrap_or(false);
    let mut sb = Schema::build("Query", None, None);
    if federation { sb = sb.enable_federation(); }
    let schema = sb.register(input).register(q)
        .register(Object::new("Unused").field(Field::new("x", TypeRef::named(TypeRef::INT), |_| FieldFuture::new(async { Ok(None::<GqlValue>) })).argument(InputValue::new("i", TypeRef::named("In")))))
        .finish().unwrap();
    let mut opts = SDLExportOptions::new();
    if args["single_line"].as_bool().unwrap_or(false) { opts = opts.prefer_single_line_descriptions(); }
    let text = schema.sdl_with_options(opts);
    let doc = match parse_schema(&text) { Ok(d) => d, Err(e) => return Outcome { holds: false, observed: format!("exported SDL does not parse: {} -- {:?}", e, text), expected: "valid SDL".into() } };
    let bad = std::cell::RefCell::new(Vec::<String>::new());
    let seen = std::cell::Cell::new(0);
    let exp_dep: Option<Option<String>> = dep.map(|r| r.map(|s| s.to_string()));
    let exp_desc = desc.map(|s| s.to_string());
    let chk_iv = |who: &str, d: &InputValueDefinition| {
        seen.set(seen.get() + 1);
        let got_def = d.default_value.as_ref().map(|v| v.node.to_string());
        if got_def != default.map(|x| x.to_string()).or(if null_default { Some("null".to_string()) } else { None }) { bad.borrow_mut().push(format!("{}: default {:?}", who, got_def)); }
        if reason_of(&d.directives) != exp_dep { bad.borrow_mut().push(format!("{}: deprecation {:?}", who, reason_of(&d.directives))); }
        if d.description.as_ref().map(|x| x.node.clone()) != exp_desc { bad.borrow_mut().push(format!("{}: description {:?}", who, d.description.as_ref().map(|x| x.node.clone()))); }
    };
    for def in &doc.definitions {
        if let TypeSystemDefinition::Type(ty) = def {
            match &ty.node.kind {
                TypeKind::InputObject(io) if ty.node.name.node == "In" => for f in &io.fields { chk_iv("In.fld", &f.node); },
                TypeKind::Object(o) if ty.node.name.node == "Query" => {
                    if ty.node.description.as_ref().map(|x| x.node.clone()) != exp_desc { bad.borrow_mut().push(format!("Query: description {:?}", ty.node.description.as_ref().map(|x| x.node.clone()))); }
                    for f in &o.fields { if f.node.name.node == "items" {
                        if reason_of(&f.node.directives) != exp_dep { bad.borrow_mut().push(format!("Query.items: deprecation {:?}", reason_of(&f.node.directives))); }
                        if f.node.description.as_ref().map(|x| x.node.clone()) != exp_desc { bad.borrow_mut().push(format!("Query.items: description {:?}", f.node.description.as_ref().map(|x| x.node.clone()))); }
                        for a in &f.node.arguments { chk_iv("Query.items.arg", &a.node); }
                    } }
                }
                _ => {}
            }
        }
    }
    // the document is closed: every type it mentions is defined in it (or is a built-in scalar)
    {
        let mut defined: Vec<String> = ["Int", "Float", "String", "Boolean", "ID"].iter().map(|x| x.to_string()).collect();
        let mut used: Vec<String> = Vec::new();
        fn base(t: &Type) -> String { match &t.base { BaseType::Named(n) => n.to_string(), BaseType::List(i) => base(i) } }
        for def in &doc.definitions { if let TypeSystemDefinition::Type(ty) = def {
            defined.push(ty.node.name.node.to_string());
            match &ty.node.kind {
                TypeKind::Object(o) => { for f in &o.fields { used.push(base(&f.node.ty.node)); for a in &f.node.arguments { used.push(base(&a.node.ty.node)); } } for i in &o.implements { used.push(i.node.to_string()); } }
                TypeKind::Interface(o) => { for f in &o.fields { used.push(base(&f.node.ty.node)); for a in &f.node.arguments { used.push(base(&a.node.ty.node)); } } }
                TypeKind::InputObject(o) => { for f in &o.fields { used.push(base(&f.node.ty.node)); } }
                TypeKind::Union(u) => { for m in &u.members { used.push(m.node.to_string()); } }
                _ => {}
            } } }
        for u in used { if !defined.contains(&u) { bad.borrow_mut().push(format!("SDL mentions type {} but does not define it", u)); } }
    }
    if seen.get() != 2 { bad.borrow_mut().push(format!("expected 2 input values in the re-parsed SDL, found {}", seen.get())); }
    let bad = bad.into_inner();
    Outcome { holds: bad.is_empty(), observed: if bad.is_empty() { "all descriptions / defaults / deprecations read back".into() } else { bad.join("; ") }, expected: format!("desc {:?} default {:?} deprecation {:?}", exp_desc, default, exp_dep) }
}

pub fn inputs(seed: u64, open: &[String]) -> impl Iterator<Item = Value> {
    let skip_indent = open.iter().any(|x| x == "C17-block-description-indentation");
    let descs: Vec<Option<&str>> = vec![None, Some("plain"), Some("say \"hi\""), Some("two\nlines"), Some("tab\there"), Some("back\\slash"), Some("tri \"\"\" ple"), Some("ends with quote\""), Some("  indented"), Some("\u{e9}\u{1F600}")];
    let deps: Vec<Value> = vec![json!(null), json!(""), json!("use other"), json!("use \"other\" instead"), json!("a\\b"), json!("line\nbreak"), json!("\u{1F600}")];
    let mut out = Vec::new();
    let mut r = Rng(seed);
    for fed in [false, true] { for sl in [false, true] {
        out.push(json!({"desc": null, "default": "null", "dep": null, "single_line": sl, "federation": fed}));
        out.push(json!({"desc": "d", "default": "null", "dep": "gone", "single_line": sl, "federation": fed}));
        out.push(json!({"desc": "plain", "default": 5, "dep": "", "single_line": sl, "federation": fed}));
    } }
    for d in &descs { for dep in &deps { for def in [None, Some(10i64), Some(-3)] { for sl in [false, true] {
        if r.below(3) == 0 && !(d.is_none() || dep.is_null()) { continue; }
        if skip_indent { if let Some(t) = d { if t.starts_with(' ') || t.starts_with('\t') { continue; } } }
        out.push(json!({"desc": d, "default": def, "dep": dep, "single_line": sl}));
    } } } }
    out.into_iter()
}
