//! C17: export a dynamic schema to SDL, re-parse it with the crate's own parse_schema, and compare what was put in
//! (descriptions, default values, deprecation reasons) with what comes out.
use crate::{rng::Rng, Outcome};
use async_graphql::{
    dynamic::{Field, FieldFuture, InputObject, InputValue, Object, Schema, TypeRef},
    parser::{parse_schema, types::*},
    SDLExportOptions, Value as GqlValue,
};
use serde_json::{json, Value};

fn reason_of(dirs: &[async_graphql::Positioned<ConstDirective>]) -> Option<Option<String>> {
    let d = dirs.iter().find(|d| d.node.name.node == "deprecated")?;
    Some(d.node.arguments.iter().find(|(n, _)| n.node == "reason").map(|(_, v)| match &v.node { GqlValue::String(s) => s.clone(), o => format!("<{}>", o) }))
}

/// args {"desc": str|null, "default": int|null, "dep": null | "" (no reason) | "reason text", "single_line": bool}
pub fn sdl(args: &Value) -> Outcome {
    let desc = args["desc"].as_str();
    let default = args["default"].as_i64();
    let null_default = args["default"] == "null";
    let dep: Option<Option<&str>> = match &args["dep"] { Value::Null => None, Value::String(s) if s.is_empty() => Some(None), Value::String(s) => Some(Some(s.as_str())), _ => None };
    let mk = |name: &str| {
        let mut iv = InputValue::new(name, TypeRef::named(TypeRef::INT));
        if let Some(d) = default { iv = iv.default_value(GqlValue::from(d)); }
        if null_default { iv = iv.default_value(GqlValue::Null); }
        if let Some(r) = dep { iv = iv.deprecation(r); }
        if let Some(d) = desc { iv = iv.description(d); }
        iv
    };
    let mut f = Field::new("items", TypeRef::named_nn(TypeRef::INT), |_| FieldFuture::new(async { Ok(Some(GqlValue::from(1))) })).argument(mk("arg"));
    if let Some(d) = desc { f = f.description(d); }
    if let Some(r) = dep { f = f.deprecation(r); }
    let mut q = Object::new("Query").field(f);
    if let Some(d) = desc { q = q.description(d); }
    let input = InputObject::new("In").field(mk("fld"));
    let federation = args["federation"].as_bool().unwrap_or(false);
    let mut sb = Schema::build("Query", None, None);
    if federation { sb = sb.enable_federation(); }
    let schema = sb.register(input).register(q)
        .register(Object::new("Unused").field(Field::new("x", TypeRef::named(TypeRef::INT), |_| FieldFuture::new(async { Ok(None::<GqlValue>) })).argument(InputValue::new("i", TypeRef::named("In")))))
        .finish().unwrap();
    let mut opts = SDLExportOptions::new();
    if args["single_line"].as_bool().unwrap_or(false) { opts = opts.prefer_single_line_descriptions(); }
    let text = schema.sdl_with_options(opts);
    let doc = match parse_schema(&text) { Ok(d) => d, Err(e) => return Outcome { holds: false, observed: format!("exported SDL does not parse: {} -- {:?}", e, text), expected: "valid SDL".into() } };
    let bad = std::cell::RefCell::new(Vec::<String>::new());
    let seen = std::cell::Cell::new(0);
    let exp_dep: Option<Option<String>> = dep.map(|r| r.map(|s| s.to_string()));
    let exp_desc = desc.map(|s| s.to_string());
    let chk_iv = |who: &str, d: &InputValueDefinition| {
        seen.set(seen.get() + 1);
        let got_def = d.default_value.as_ref().map(|v| v.node.to_string());
        if got_def != default.map(|x| x.to_string()).or(if null_default { Some("null".to_string()) } else { None }) { bad.borrow_mut().push(format!("{}: default {:?}", who, got_def)); }
        if reason_of(&d.directives) != exp_dep { bad.borrow_mut().push(format!("{}: deprecation {:?}", who, reason_of(&d.directives))); }
        if d.description.as_ref().map(|x| x.node.clone()) != exp_desc { bad.borrow_mut().push(format!("{}: description {:?}", who, d.description.as_ref().map(|x| x.node.clone()))); }
    };
    for def in &doc.definitions {
        if let TypeSystemDefinition::Type(ty) = def {
            match &ty.node.kind {
                TypeKind::InputObject(io) if ty.node.name.node == "In" => for f in &io.fields { chk_iv("In.fld", &f.node); },
                TypeKind::Object(o) if ty.node.name.node == "Query" => {
                    if ty.node.description.as_ref().map(|x| x.node.clone()) != exp_desc { bad.borrow_mut().push(format!("Query: description {:?}", ty.node.description.as_ref().map(|x| x.node.clone()))); }
                    for f in &o.fields { if f.node.name.node == "items" {
                        if reason_of(&f.node.directives) != exp_dep { bad.borrow_mut().push(format!("Query.items: deprecation {:?}", reason_of(&f.node.directives))); }
                        if f.node.description.as_ref().map(|x| x.node.clone()) != exp_desc { bad.borrow_mut().push(format!("Query.items: description {:?}", f.node.description.as_ref().map(|x| x.node.clone()))); }
                        for a in &f.node.arguments { chk_iv("Query.items.arg", &a.node); }
                    } }
                }
                _ => {}
            }
        }
    }
    // the document is closed: every type it mentions is defined in it (or is a built-in scalar)
    {
        let mut defined: Vec<String> = ["Int", "Float", "String", "Boolean", "ID"].iter().map(|x| x.to_string()).collect();
        let mut used: Vec<String> = Vec::new();
        fn base(t: &Type) -> String { match &t.base { BaseType::Named(n) => n.to_string(), BaseType::List(i) => base(i) } }
        for def in &doc.definitions { if let TypeSystemDefinition::Type(ty) = def {
            defined.push(ty.node.name.node.to_string());
            match &ty.node.kind {
                TypeKind::Object(o) => { for f in &o.fields { used.push(base(&f.node.ty.node)); for a in &f.node.arguments { used.push(base(&a.node.ty.node)); } } for i in &o.implements { used.push(i.node.to_string()); } }
                TypeKind::Interface(o) => { for f in &o.fields { used.push(base(&f.node.ty.node)); for a in &f.node.arguments { used.push(base(&a.node.ty.node)); } } }
                TypeKind::InputObject(o) => { for f in &o.fields { used.push(base(&f.node.ty.node)); } }
                TypeKind::Union(u) => { for m in &u.members { used.push(m.node.to_string()); } }
                _ => {}
            } } }
        for u in used { if !defined.contains(&u) { bad.borrow_mut().push(format!("SDL mentions type {} but does not define it", u)); } }
    }
    if seen.get() != 2 { bad.borrow_mut().push(format!("expected 2 input values in the re-parsed SDL, found {}", seen.get())); }
    let bad = bad.into_inner();
    Outcome { holds: bad.is_empty(), observed: if bad.is_empty() { "all descriptions / defaults / deprecations read back".into() } else { bad.join("; ") }, expected: format!("desc {:?} default {:?} deprecation {:?}", exp_desc, default, exp_dep) }
}

pub fn inputs(seed: u64, open: &[String]) -> impl Iterator<Item = Value> {
    let skip_indent = open.iter().any(|x| x == "C17-block-description-indentation");
    let descs: Vec<Option<&str>> = vec![None, Some("plain"), Some("say \"hi\""), Some("two\nlines"), Some("tab\there"), Some("back\\slash"), Some("tri \"\"\" ple"), Some("ends with quote\""), Some("  indented"), Some("\u{e9}\u{1F600}")];
    let deps: Vec<Value> = vec![json!(null), json!(""), json!("use other"), json!("use \"other\" instead"), json!("a\\b"), json!("line\nbreak"), json!("\u{1F600}")];
    let mut out = Vec::new();
    let mut r = Rng(seed);
    for fed in [false, true] { for sl in [false, true] {
        out.push(json!({"desc": null, "default": "null", "dep": null, "single_line": sl, "federation": fed}));
        out.push(json!({"desc": "d", "default": "null", "dep": "gone", "single_line": sl, "federation": fed}));
        out.push(json!({"desc": "plain", "default": 5, "dep": "", "single_line": sl, "federation": fed}));
    } }
    for d in &descs { for dep in &deps { for def in [None, Some(10i64), Some(-3)] { for sl in [false, true] {
        if r.below(3) == 0 && !(d.is_none() || dep.is_null()) { continue; }
        if skip_indent { if let Some(t) = d { if t.starts_with(' ') || t.starts_with('\t') { continue; } } }
        out.push(json!({"desc": d, "default": def, "dep": dep, "single_line": sl}));
    } } } }
    out.into_iter()
}

// ------------------------------------------------------------------------------------------------------------------
// c17_schema: one rich dynamic schema (every kind of type) exported under many option sets, re-parsed, and compared with the record of
// what was put in: kinds, descriptions, fields / arguments with their types in declaration order (or sorted), enum values with their
// own descriptions / deprecations, union members, implemented interfaces; every type defined exactly once (not merely extended).
pub fn schema_case(args: &Value) -> Outcome {
    use async_graphql::dynamic::{Enum, EnumItem, Interface, InterfaceField, Union};
    let nf = |n: &str, t: TypeRef| Field::new(n.to_string(), t, |_| FieldFuture::new(async { Ok(None::<GqlValue>) }));
    let color = Enum::new("Color").description("All the colours")
        .item(EnumItem::new("RED").description("warm")).item(EnumItem::new("GREEN").description("calm").deprecation(Some("use TEAL"))).item(EnumItem::new("BLUE"));
    let node = Interface::new("Node").description("has an id").field(InterfaceField::new("id", TypeRef::named_nn(TypeRef::ID)).description("the id"));
    let named = Interface::new("Named").implement("Node").field(InterfaceField::new("id", TypeRef::named_nn(TypeRef::ID))).field(InterfaceField::new("name", TypeRef::named(TypeRef::STRING)).argument(InputValue::new("upper", TypeRef::named(TypeRef::BOOLEAN))));
    let user_desc = args["user_desc"].as_bool().unwrap_or(true);
    let mut user = Object::new("User"); if user_desc { user = user.description("a user"); }
    let user = user.implement("Node").implement("Named").extends()
        .field(nf("id", TypeRef::named_nn(TypeRef::ID))).field(nf("name", TypeRef::named(TypeRef::STRING)).argument(InputValue::new("upper", TypeRef::named(TypeRef::BOOLEAN))))
        .field(nf("tags", TypeRef::named_nn_list_nn(TypeRef::STRING))).field(nf("matrix", TypeRef::List(Box::new(TypeRef::named_nn_list(TypeRef::INT)))))
        .field(nf("favourite", TypeRef::named("Color")).argument(InputValue::new("z", TypeRef::named(TypeRef::INT))).argument(InputValue::new("a", TypeRef::named_nn_list(TypeRef::INT)).default_value(GqlValue::List(vec![GqlValue::from(1)]))));
    let post = Object::new("Post").implement("Node").field(nf("id", TypeRef::named_nn(TypeRef::ID))).field(nf("author", TypeRef::named_nn("User")));
    let result = Union::new("SearchResult").description("anything").possible_type("Post").possible_type("User");
    let filter = InputObject::new("Filter").description("a filter").field(InputValue::new("color", TypeRef::named("Color")).default_value(GqlValue::Enum(async_graphql::Name::new("RED")))).field(InputValue::new("ids", TypeRef::named_nn_list(TypeRef::ID)));
    let query = Object::new("Query").field(nf("search", TypeRef::named_nn_list_nn("SearchResult")).argument(InputValue::new("filter", TypeRef::named("Filter"))))
        .field(nf("node", TypeRef::named("Node")).argument(InputValue::new("id", TypeRef::named_nn(TypeRef::ID)))).field(nf("colors", TypeRef::named_nn_list_nn("Color")));
    let schema = Schema::build("Query", None, None).register(color).register(node).register(named).register(user).register(post).register(result).register(filter).register(query).finish().unwrap();
    let mut o = SDLExportOptions::new();
    let has = |k: &str| args["opts"].as_array().map(|a| a.iter().any(|x| x == k)).unwrap_or(false);
    if has("federation") { o = o.federation(); } if has("sorted_fields") { o = o.sorted_fields(); } if has("sorted_arguments") { o = o.sorted_arguments(); } if has("sorted_enum_items") { o = o.sorted_enum_items(); }
    if has("single_line") { o = o.prefer_single_line_descriptions(); } if has("space") { o = o.use_space_ident(); } if has("specified_by") { o = o.include_specified_by(); }
    let text = schema.sdl_with_options(o);
    let doc = match parse_schema(&text) { Ok(d) => d, Err(e) => return Outcome { holds: false, observed: format!("exported SDL does not parse: {} -- {:?}", e, text), expected: "valid SDL".into() } };
    fn ty(t: &Type) -> String { t.to_string() }
    let desc = |d: &Option<async_graphql::Positioned<String>>| d.as_ref().map(|x| x.node.clone());
    let mut got: Vec<String> = Vec::new();
    for def in &doc.definitions { if let TypeSystemDefinition::Type(t) = def {
        let n = t.node.name.node.to_string(); if n.starts_with('_') { continue; }
        let head = format!("{}{}", if t.node.extend { "EXTEND " } else { "" }, n);
        match &t.node.kind {
            TypeKind::Enum(e) => got.push(format!("enum {} desc={:?} values=[{}]", head, desc(&t.node.description), e.values.iter().map(|v| format!("{}:{:?}:{:?}", v.node.value.node, desc(&v.node.description), reason_of(&v.node.directives))).collect::<Vec<_>>().join(","))),
            TypeKind::Union(u) => got.push(format!("union {} desc={:?} members=[{}]", head, desc(&t.node.description), u.members.iter().map(|m| m.node.to_string()).collect::<Vec<_>>().join(","))),
            TypeKind::Object(ob) => got.push(format!("type {} desc={:?} implements=[{}] fields=[{}]", head, desc(&t.node.description), ob.implements.iter().map(|m| m.node.to_string()).collect::<Vec<_>>().join(","),
                ob.fields.iter().filter(|f| !f.node.name.node.starts_with('_')).map(|f| format!("{}({}):{}", f.node.name.node, f.node.arguments.iter().map(|a| format!("{}:{}={:?}", a.node.name.node, ty(&a.node.ty.node), a.node.default_value.as_ref().map(|d| d.node.to_string()))).collect::<Vec<_>>().join(","), ty(&f.node.ty.node))).collect::<Vec<_>>().join(";"))),
            TypeKind::Interface(ob) => got.push(format!("interface {} desc={:?} implements=[{}] fields=[{}]", head, desc(&t.node.description), ob.implements.iter().map(|m| m.node.to_string()).collect::<Vec<_>>().join(","),
                ob.fields.iter().map(|f| format!("{}({}):{}:{:?}", f.node.name.node, f.node.arguments.iter().map(|a| format!("{}:{}", a.node.name.node, ty(&a.node.ty.node))).collect::<Vec<_>>().join(","), ty(&f.node.ty.node), desc(&f.node.description))).collect::<Vec<_>>().join(";"))),
            TypeKind::InputObject(ob) => got.push(format!("input {} desc={:?} fields=[{}]", head, desc(&t.node.description), ob.fields.iter().map(|f| format!("{}:{}={:?}", f.node.name.node, ty(&f.node.ty.node), f.node.default_value.as_ref().map(|d| d.node.to_string()))).collect::<Vec<_>>().join(";"))),
            TypeKind::Scalar => got.push(format!("scalar {}", head)),
        } } }
    got.sort();
    // the record of what was put in (fields / arguments / enum items sorted when the option asks for it)
    let srt = |mut v: Vec<&str>, on: bool| -> String { if on { v.sort(); } v.join(";") };
    let srtc = |mut v: Vec<&str>, on: bool| -> String { if on { v.sort(); } v.join(",") };
    let fav_args = if has("sorted_arguments") { "a:[Int!]=Some(\"[1]\"),z:Int=None" } else { "z:Int=None,a:[Int!]=Some(\"[1]\")" };
    let user_fields: Vec<String> = vec!["id():ID!".into(), "name(upper:Boolean=None):String".into(), "tags():[String!]!".into(), "matrix():[[Int!]]".into(), format!("favourite({}):Color", fav_args)];
    let user_fields_s = { let mut v: Vec<&str> = user_fields.iter().map(|x| x.as_str()).collect(); if has("sorted_fields") { v.sort(); } v.join(";") };
    let ext = if has("federation") { "EXTEND " } else { "" };
    let mut exp: Vec<String> = vec![
        format!("enum Color desc=Some(\"All the colours\") values=[{}]", srtc(vec!["RED:Some(\"warm\"):None", "GREEN:Some(\"calm\"):Some(Some(\"use TEAL\"))", "BLUE:None:None"], has("sorted_enum_items"))),
        "interface Node desc=Some(\"has an id\") implements=[] fields=[id():ID!:Some(\"the id\")]".to_string(),
        format!("interface Named desc=None implements=[Node] fields=[{}]", "id():ID!:None;name(upper:Boolean):String:None"),
        format!("type {}User desc={} implements=[Node,Named] fields=[{}]", ext, if user_desc { "Some(\"a user\")" } else { "None" }, user_fields_s),
        format!("type Post desc=None implements=[Node] fields=[{}]", srt(vec!["id():ID!", "author():User!"], has("sorted_fields"))),
        "union SearchResult desc=Some(\"anything\") members=[Post,User]".to_string(),
        format!("input Filter desc=Some(\"a filter\") fields=[{}]", { let mut v = vec!["color:Color=Some(\"RED\")", "ids:[ID!]=None"]; if has("sorted_fields") { v.sort(); } v.join(";") }),
        format!("type Query desc=None implements=[] fields=[{}]", srt(vec!["search(filter:Filter=None):[SearchResult!]!", "node(id:ID!=None):Node", "colors():[Color!]!"], has("sorted_fields"))),
    ];
    exp.sort();
    let missing: Vec<&String> = exp.iter().filter(|e| !got.contains(e)).collect();
    let extra: Vec<&String> = got.iter().filter(|g| !exp.contains(g)).collect();
    Outcome { holds: missing.is_empty() && extra.is_empty(), observed: if missing.is_empty() && extra.is_empty() { format!("{} type definitions read back exactly", got.len()) } else { format!("SDL says {:?} where the schema has {:?}", extra, missing) }, expected: "the exported SDL describes exactly the schema".into() }
}
pub fn schema_inputs(seed: u64, open: &[String]) -> impl Iterator<Item = Value> {
    // region of the open finding: a described `extends` type exported with the federation option
    let no_desc_on_extend = open.iter().any(|x| x == "C17-description-before-extend-type");
    let all = ["federation", "sorted_fields", "sorted_arguments", "sorted_enum_items", "single_line", "space", "specified_by"];
    let mk = |v: Vec<&str>| { let fed = v.contains(&"federation"); json!({"opts": v, "user_desc": !(fed && no_desc_on_extend)}) };
    let mut out = vec![mk(vec![])];
    for o in all { out.push(mk(vec![o])); }
    let mut r = Rng(seed);
    for _ in 0..12 { let v: Vec<&str> = all.iter().filter(|_| r.below(2) == 0).cloned().collect(); out.push(mk(v)); }
    out.into_iter()
}
