use crate::{rng::Rng, Outcome};
use async_graphql::{verif_hooks, CacheControl};
use serde_json::{json, Value};

fn rank(a: i64) -> i64 { if a == -1 { -(1 << 32) } else if a == 0 { 1 << 32 } else { a } }

/// args: {"a":[public,max_age],"b":[public,max_age]}
pub fn merge(args: &Value) -> Outcome {
    let g = |k: &str| (args[k][0].as_bool().unwrap(), args[k][1].as_i64().unwrap() as i32);
    let (ap, aa) = g("a");
    let (bp, ba) = g("b");
    let r = verif_hooks::cache_control_merge(CacheControl { public: ap, max_age: aa }, &CacheControl { public: bp, max_age: ba });
    let exp_age = if rank(aa as i64) <= rank(ba as i64) { aa } else { ba };
    let exp = (ap && bp, exp_age);
    Outcome { holds: (r.public, r.max_age) == exp, observed: format!("{:?}", (r.public, r.max_age)), expected: format!("{:?}", exp) }
}

pub fn merge_inputs(seed: u64) -> impl Iterator<Item = Value> {
    let b: Vec<i32> = vec![-1, 0, 1, 2, 5, 10, 60, i32::MAX, i32::MIN, -2, -5];
    let mut v = Vec::new();
    for &x in &b { for &y in &b { for p in [false, true] { for q in [false, true] {
        v.push(json!({"a":[p,x],"b":[q,y]}));
    }}}}
    let mut r = Rng(seed);
    for _ in 0..2000 {
        let x = (r.next() as i32) >> (r.below(31) as u32);
        let y = (r.next() as i32) >> (r.below(31) as u32);
        v.push(json!({"a":[r.below(2)==1,x],"b":[r.below(2)==1,y]}));
    }
    v.into_iter()
}
