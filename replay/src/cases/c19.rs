//! C19: the 3x3 matrix of schema-level x request-level introspection modes against queries mixing introspection, federation,
//! __typename and ordinary fields (static schema, query and mutation roots).
use crate::Outcome;
use async_graphql::*;
use futures_util::FutureExt;
use serde_json::{json, Value};
use std::sync::atomic::{AtomicUsize, Ordering};

static RAN: AtomicUsize = AtomicUsize::new(0);
struct Query;
#[Object]
impl Query { async fn value(&self) -> i32 { RAN.fetch_add(1, Ordering::SeqCst); 1 } }
struct Mutation;
#[Object]
impl Mutation { async fn bump(&self) -> i32 { RAN.fetch_add(1, Ordering::SeqCst); 2 } }

fn mode(b: SchemaBuilder<Query, Mutation, EmptySubscription>, m: &str) -> SchemaBuilder<Query, Mutation, EmptySubscription> {
    match m { "disabled" => b.disable_introspection(), "only" => b.introspection_only(), _ => b }
}

fn dyn_exec(sm: &str, rm: &str, q: &str) -> (String, usize, Vec<String>) {
    use async_graphql::dynamic as d;
    let item = d::Object::new("Item").key("id").field(d::Field::new("id", d::TypeRef::named_nn(d::TypeRef::INT), |_| d::FieldFuture::new(async { Ok(Some(async_graphql::Value::from(1))) })));
    let query = d::Object::new("Query").field(d::Field::new("value", d::TypeRef::named_nn(d::TypeRef::INT), |_| d::FieldFuture::new(async { RAN.fetch_add(1, Ordering::SeqCst); Ok(Some(async_graphql::Value::from(1))) })));
    let mut b = d::Schema::build("Query", None, None).register(item).register(query).enable_federation()
        .entity_resolver(|_| d::FieldFuture::new(async { RAN.fetch_add(1, Ordering::SeqCst); Ok(Some(d::FieldValue::list(vec![d::FieldValue::owned_any(0u8).with_type("Item")]))) }));
    b = match sm { "disabled" => b.disable_introspection(), "only" => b.introspection_only(), _ => b };
    let schema = b.finish().unwrap();
    let mut req = Request::new(q);
    req = match rm { "disabled" => req.disable_introspection(), "only" => req.only_introspection(), _ => req };
    RAN.store(0, Ordering::SeqCst);
    let resp = schema.execute(req).now_or_never().unwrap();
    (resp.data.clone().into_json().unwrap().to_string(), RAN.load(Ordering::SeqCst), resp.errors.iter().map(|e| e.message.clone()).collect())
}

/// args {"schema_mode": "enabled"|"disabled"|"only", "req_mode": ..., "query": "...", "federation": bool}
pub fn modes(args: &Value) -> Outcome {
    let sm = args["schema_mode"].as_str().unwrap(); let rm = args["req_mode"].as_str().unwrap();
    if args["flavour"] == "dynamic" {
        let q = args["query"].as_str().unwrap();
        let (data, ran, errs) = dyn_exec(sm, rm, q);
        let disabled = sm == "disabled" || rm == "disabled"; let only = sm == "only" || rm == "only";
        let mut bad = Vec::new();
        if disabled && (data.contains("\"queryType\"") || data.contains("\"kind\"") || data.contains("\"sdl\":\"")) { bad.push(format!("schema metadata served although introspection is disabled: {}", &data[..data.len().min(160)])); }
        if only && ran > 0 { bad.push(format!("{} user / entity resolver(s) ran in introspection-only mode", ran)); }
        if !disabled && !only && !errs.is_empty() { bad.push(format!("errors with introspection enabled: {:?}", errs)); }
        if q.contains("{ __typename") && !q.contains("_entities") && !data.contains("\"__typename\":\"") { bad.push(format!("__typename did not resolve: {}", data)); }
        return Outcome { holds: bad.is_empty(), observed: if bad.is_empty() { format!("data {} ran {}", &data[..data.len().min(120)], ran) } else { bad.join("; ") }, expected: "metadata only when enabled; resolvers only when not introspection-only; __typename always".into() };
    }
    let mut b = mode(Schema::build(Query, Mutation, EmptySubscription), sm);
    if args["federation"].as_bool().unwrap_or(false) { b = b.enable_federation(); }
    let schema = b.finish();
    let q = args["query"].as_str().unwrap();
    let mut req = Request::new(q);
    req = match rm { "disabled" => req.disable_introspection(), "only" => req.only_introspection(), _ => req };
    RAN.store(0, Ordering::SeqCst);
    let resp = if let Some(first) = args["req_first"].as_str() {
        // request-level plumbing through BatchRequest: the batch-wide setter (rm) applies to EVERY request, whatever mode it carried before (first)
        let mut r0 = Request::new(q);
        r0 = match first { "disabled" => r0.disable_introspection(), "only" => r0.only_introspection(), _ => r0 };
        let batch = if args["single"] == true { BatchRequest::Single(r0) } else { BatchRequest::Batch(vec![r0]) };
        let batch = match rm { "disabled" => batch.disable_introspection(), "only" => batch.introspection_only(), _ => batch };
        match schema.execute_batch(batch).now_or_never().unwrap() { BatchResponse::Single(r) => r, BatchResponse::Batch(mut v) => v.remove(0) }
    } else { schema.execute(req).now_or_never().unwrap() };
    let ran = RAN.load(Ordering::SeqCst);
    let data = resp.data.clone().into_json().unwrap().to_string();
    let disabled = sm == "disabled" || rm == "disabled";
    let only = sm == "only" || rm == "only";
    let mut bad = Vec::new();
    // schema metadata must not be served when disabled
    if disabled && (data.contains("\"queryType\"") || data.contains("\"kind\"") || data.contains("\"sdl\":\"")) { bad.push(format!("schema metadata served although introspection is disabled: {}", data)); }
    // no user resolver when introspection-only
    if only && ran > 0 { bad.push(format!("{} user resolver(s) ran in introspection-only mode", ran)); }
    // fully enabled: everything works
    if !disabled && !only && !resp.errors.is_empty() { bad.push(format!("errors with introspection enabled: {:?}", resp.errors.iter().map(|e| e.message.clone()).collect::<Vec<_>>())); }
    // __typename always resolves
    if q.contains("{ __typename") && !q.contains("_entities") && !data.contains("\"__typename\":\"") { bad.push(format!("__typename did not resolve: data {} errors {:?}", data, resp.errors.iter().map(|e| e.message.clone()).collect::<Vec<_>>())); }
    // ordinary fields resolve unless introspection-only
    if !only && q.contains("value") && !q.contains("__schema") && !q.contains("__type(") && !q.contains("_service") && ran == 0 { bad.push("ordinary field did not resolve".into()); }
    Outcome { holds: bad.is_empty(), observed: if bad.is_empty() { format!("data {} ran {}", data, ran) } else { bad.join("; ") }, expected: "metadata only when enabled; resolvers only when not introspection-only; __typename always".into() }
}

pub fn inputs(_seed: u64, open: &[String]) -> impl Iterator<Item = Value> {
    let skip_service = open.iter().any(|x| x == "C19-service-sdl-ignores-disabled-introspection");
    let mut out = Vec::new();
    let ms = ["enabled", "disabled", "only"];
    let qs = ["{ value }", "{ __typename }", "{ __typename value }", "{ __schema { queryType { name } } }", "{ __type(name: \"Query\") { kind name } }", "{ value __schema { queryType { name } } }",
              "mutation { bump }", "mutation { __typename }", "{ _service { sdl } }", "{ _service { sdl } value }"];
    for s in ms { for r in ms { for q in qs {
        let fed = q.contains("_service");
        if fed && skip_service && (s == "disabled" || r == "disabled") { continue; }
        out.push(json!({"schema_mode": s, "req_mode": r, "query": q, "federation": fed}));
    } } }
    for first in ["enabled", "disabled", "only"] { for r in ["disabled", "only"] { for single in [false, true] { for q in ["{ value }", "{ __schema { queryType { name } } }", "{ __typename value }", "mutation { bump }"] {
        out.push(json!({"schema_mode": "enabled", "req_first": first, "req_mode": r, "single": single, "query": q, "federation": false}));
    } } } }
    let dqs = ["{ value }", "{ __typename value }", "{ __schema { queryType { name } } }", "{ __type(name: \"Query\") { kind } }", "{ _service { sdl } }", "{ _entities(representations: [{__typename: \"Item\", id: 1}]) { __typename } }"];
    for s in ms { for r in ms { for q in dqs {
        if q.contains("_entities") && (s == "only" || r == "only") && open.iter().any(|x| x == "C19-dynamic-entities-in-introspection-only") { continue; }
        out.push(json!({"flavour": "dynamic", "schema_mode": s, "req_mode": r, "query": q}));
    } } }
    out.into_iter()
}
