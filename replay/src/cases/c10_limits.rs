//! C10: limit_complexity / limit_depth on a derive-built schema vs. an independent measure of the document.
use crate::{rng::Rng, Outcome};
use async_graphql::*;
use async_graphql_parser::{parse_query, types as ast};
use futures_util::FutureExt;
use serde_json::{json, Value};

struct Item;
#[Object]
impl Item {
    async fn a(&self) -> i32 { 1 }
    async fn b(&self) -> i32 { 2 }
    async fn sub(&self) -> Item { Item }
}
struct Query;
#[Object]
impl Query {
    #[graphql(complexity = "count as usize * child_complexity + 3")]
    async fn items(&self, count: i32) -> Vec<Item> { (0..count.min(2)).map(|_| Item).collect() }
    #[graphql(complexity = 7)]
    async fn heavy(&self) -> i32 { 1 }
    async fn value(&self) -> i32 { 1 }
    async fn obj(&self) -> Item { Item }
}

thread_local! { static VARS: std::cell::RefCell<(Variables, Vec<(String, Option<async_graphql_value::ConstValue>)>)> = std::cell::RefCell::new((Variables::default(), Vec::new())); }
/// the value the resolver would receive for `count`: literal, or the variable's provided value, else its default
fn arg_count(f: &ast::Field) -> usize {
    f.arguments.iter().find(|(n, _)| n.node == "count").and_then(|(_, v)| match &v.node {
        async_graphql_value::Value::Number(n) => n.as_u64(),
        async_graphql_value::Value::Variable(name) => VARS.with(|c| { let c = c.borrow();
            let provided = c.0.get(name).cloned();
            let def = c.1.iter().find(|d| d.0 == name.as_str()).and_then(|d| d.1.clone());
            match provided.or(def) { Some(async_graphql_value::ConstValue::Number(n)) => n.as_u64(), _ => None } }),
        _ => None }).unwrap_or(0) as usize
}
/// (complexity, depth) of a selection set on parent type `ty` with fragments inlined
fn measure(doc: &ast::ExecutableDocument, ss: &ast::SelectionSet, ty: &str) -> (usize, usize) {
    let (mut c, mut d) = (0, 0);
    for it in &ss.items {
        match &it.node {
            ast::Selection::Field(f) => {
                let name = f.node.name.node.as_str();
                let child_ty = match (ty, name) { ("Query", "items") | ("Query", "obj") | ("Item", "sub") => "Item", _ => "" };
                let (cc, cd) = measure(doc, &f.node.selection_set.node, child_ty);
                c += match (ty, name) { ("Query", "items") => arg_count(&f.node) * cc + 3, ("Query", "heavy") => 7, _ => 1 + cc };
                d = d.max(1 + cd);
            }
            ast::Selection::InlineFragment(i) => { let (cc, cd) = measure(doc, &i.node.selection_set.node, ty); c += cc; d = d.max(cd); }
            ast::Selection::FragmentSpread(s) => if let Some(fr) = doc.fragments.get(&s.node.fragment_name.node) {
                let (cc, cd) = measure(doc, &fr.node.selection_set.node, fr.node.type_condition.node.on.node.as_str()); c += cc; d = d.max(cd); },
        }
    }
    (c, d)
}

/// args {"query": "...", "kind": "complexity"|"depth", "limit": n}
pub fn limits(args: &Value) -> Outcome {
    let q = args["query"].as_str().unwrap();
    let limit = args["limit"].as_u64().unwrap() as usize;
    let doc = parse_query(q).expect("generated query parses");
    let vars = args.get("variables").filter(|v| !v.is_null()).map(|v| Variables::from_json(v.clone())).unwrap_or_default();
    set_vars(&doc, &vars);
    let (c, d) = doc.operations.iter().map(|(_, op)| measure(&doc, &op.node.selection_set.node, "Query")).next().unwrap();
    let b = Schema::build(Query, EmptyMutation, EmptySubscription);
    let (schema, measure_v) = if args["kind"] == "complexity" { (b.limit_complexity(limit).finish(), c) } else { (b.limit_depth(limit).finish(), d) };
    let resp = schema.execute(Request::new(q).variables(vars)).now_or_never().unwrap();
    let rejected = !resp.errors.is_empty();
    let exp = measure_v > limit;
    Outcome { holds: rejected == exp, observed: format!("rejected={} ({} {} vs limit {}; errors {:?})", rejected, args["kind"], measure_v, limit, resp.errors.iter().map(|e| e.message.clone()).collect::<Vec<_>>()), expected: format!("rejected={}", exp) }
}

fn set_vars(doc: &ast::ExecutableDocument, vars: &Variables) {
    let defs = doc.operations.iter().next().map(|(_, op)| op.node.variable_definitions.iter().map(|d| (d.node.name.node.to_string(), d.node.default_value.as_ref().map(|x| x.node.clone()))).collect()).unwrap_or_default();
    VARS.with(|c| *c.borrow_mut() = (vars.clone(), defs));
}
pub fn inputs(seed: u64) -> impl Iterator<Item = Value> {
    let qs = [
        "{ value }", "{ v: value heavy }", "{ h: heavy }", "{ items(count: 3) { a } }", "{ p: items(count: 3) { a b } }", "{ value: items(count: 2) { a } }",
        "{ obj { a sub { a b } } }", "{ o: obj { x: a } }", "{ ... on Query { q: items(count: 2) { a } } }", "{ ...F } fragment F on Query { z: items(count: 4) { a sub { b } } heavy }",
        "{ obj { ...G } } fragment G on Item { sub { sub { a } } }", "{ a1: value a2: value a3: heavy }",
    ];
    let mut out = Vec::new();
    let mut r = Rng(seed);
    // complexity rules that read an argument bound to a variable: the PROVIDED value counts, else the variable's default
    for (q, v) in [("query($n: Int = 1) { items(count: $n) { a b } }", json!({"n": 10})), ("query($n: Int = 10) { items(count: $n) { a b } }", json!({"n": 1})),
                   ("query($n: Int = 5) { items(count: $n) { a b } }", json!(null)), ("query($n: Int!) { items(count: $n) { a } value }", json!({"n": 4}))] {
        let doc = parse_query(q).unwrap(); let vars = if v.is_null() { Variables::default() } else { Variables::from_json(v.clone()) }; set_vars(&doc, &vars);
        let (c, _) = doc.operations.iter().map(|(_, op)| measure(&doc, &op.node.selection_set.node, "Query")).next().unwrap();
        for l in [c.saturating_sub(1), c, c + 1, 2, 19] { out.push(json!({"query": q, "variables": v, "kind": "complexity", "limit": l})); }
    }
    VARS.with(|c| *c.borrow_mut() = (Variables::default(), Vec::new()));
    for q in qs {
        let doc = parse_query(q).unwrap();
        let (c, d) = doc.operations.iter().map(|(_, op)| measure(&doc, &op.node.selection_set.node, "Query")).next().unwrap();
        for (kind, m) in [("complexity", c), ("depth", d)] {
            for l in [m.saturating_sub(1), m, m + 1, r.below(12) as usize] { out.push(json!({"query": q, "kind": kind, "limit": l})); }
        }
    }
    out.into_iter()
}
