use crate::Outcome;
use serde_json::Value;

mod c01;
mod c02;
mod c03;
mod c04;
mod c06;
mod c07;
mod c08;
mod c09;
mod c10;
mod c10_limits;
mod c12;
mod c13;
mod c14;
mod c31;
mod c32;
mod c33;
mod c17_sdl;
mod c19;
mod c20;
mod c21;
mod c22;
mod c29;
mod c20_policy;
mod strings;

type SearchResult = (u64, Option<(Value, Outcome)>, Vec<(Value, String)>);

pub fn run(case: &str, args: &Value) -> Option<Outcome> {
    let r = std::panic::catch_unwind(|| run_inner(case, args));
    match r {
        Ok(o) => o,
        Err(e) => {
            let msg = e.downcast_ref::<String>().cloned().or_else(|| e.downcast_ref::<&str>().map(|s| s.to_string())).unwrap_or_default();
            Some(Outcome { holds: false, observed: format!("PANIC: {}", msg), expected: "no panic".into() })
        }
    }
}

fn run_inner(case: &str, args: &Value) -> Option<Outcome> {
    match case {
        "c20_merge" => Some(c20::merge(args)),
        "c08_num" | "c08_num_search_maximum" | "c08_num_search_minimum" | "c08_num_search_multiple_of" => Some(c08::num(args)),
        "c08_len" => Some(c08::len(args)),
        "c08_derive" => Some(c08::derive(args)),
        "c07_int" => Some(c07::int(args)),
        "c07_enum" => Some(c07::enum_case(args)),
        "c07_simple" => Some(c07::simple(args)),
        "c07_float" => Some(c07::float_case(args)),
        "c20_policy" => Some(c20_policy::policy(args)),
        "c10_depth" => Some(c10::depth_case(args)),
        "c10_complexity" => Some(c10_limits::limits(args)),
        "c10_directives" => Some(c10::directives_case(args)),
        "c33_subtype" => Some(c33::subtype(args)),
        "c33_build" => Some(c33::build_case(args)),
        "c14_pos" => Some(c14::pos(args)),
        "c12_upload" => Some(c12::upload(args)),
        "c04_serial" => Some(c04::serial(args)),
        "c02_exec" => Some(c02::exec(args)),
        "c01_exec" | "c04_merge" => Some(c01::exec(args)),
        "c19_modes" => Some(c19::modes(args)),
        "c31_apq" => Some(c31::apq(args)),
        "c22_lookahead" => Some(c22::lookahead(args)),
        "c32_connection" => Some(c32::connection(args)),
        "c06_args" => Some(c06::args(args)),
        "c03_errors" => Some(c03::errors(args)),
        "c21_redact" => Some(c21::redact(args)),
        "c29_loader" => Some(c29::loader(args)),
        "c09_validate" => Some(c09::validate(args)),
        "c09_subtype" => Some(c09::subtype(args)),
        "c12_exec" => Some(c09::hostile(args)),
        "c13_lex" => Some(c13::lex(args)),
        "c12_parse" => Some(c12::parse(args)),
        "c12_multipart" => Some(c12::multipart(args)),
        "c12_ws" => Some(c12::ws(args)),
        "c15_quoted" => Some(strings::quoted(args)),
        "c15_values" => Some(strings::value_roundtrip(args)),
        "c17_escape" => Some(strings::escape(args)),
        "c17_input_value" | "c17_sdl" => Some(c17_sdl::sdl(args)),
        "c17_schema" => Some(c17_sdl::schema_case(args)),
        _ => None,
    }
}

pub fn list(case: &str, seed: u64, open: &[String]) -> Option<Vec<Value>> {
    Some(generator(case, seed, open)?.filter(|i| !in_known_region(case, i, open)).collect())
}
pub fn search(case: &str, seed: u64, open: &[String]) -> Option<SearchResult> {
    let gen = generator(case, seed, open)?;
    search_in(case, gen, open)
}
fn generator(case: &str, seed: u64, open: &[String]) -> Option<Box<dyn Iterator<Item = Value>>> {
    let gen: Box<dyn Iterator<Item = Value>> = match case {
        "c20_merge" => Box::new(c20::merge_inputs(seed)),
        "c08_num_search_maximum" => Box::new(c08::num_inputs("maximum", seed)),
        "c08_num_search_minimum" => Box::new(c08::num_inputs("minimum", seed)),
        "c08_num_search_multiple_of" => Box::new(c08::num_inputs("multiple_of", seed)),
        "c08_len" => Box::new(c08::len_inputs(seed)),
        "c08_derive" => Box::new(c08::derive_inputs(seed)),
        "c07_int" => Box::new(c07::int_inputs(seed)),
        "c07_enum" => Box::new(c07::enum_inputs(seed)),
        "c07_simple" => Box::new(c07::simple_inputs(seed)),
        "c07_float" => Box::new(c07::float_inputs(seed, open)),
        "c20_policy" => Box::new(c20_policy::inputs(seed)),
        "c10_depth" | "c10_directives" => Box::new(c10::doc_inputs(seed)),
        "c10_complexity" => Box::new(c10_limits::inputs(seed)),
        "c33_subtype" => Box::new(c33::inputs(seed)),
        "c33_build" => Box::new(c33::build_inputs(seed, open)),
        "c14_pos" => Box::new(c14::pos_inputs(seed, open)),
        "c12_upload" => Box::new(c12::upload_inputs(seed)),
        "c04_serial" => Box::new(c04::inputs(seed, open)),
        "c02_exec" => Box::new(c02::inputs(seed, open)),
        "c01_exec" => Box::new(c01::inputs(seed, open)),
        "c04_merge" => Box::new(c01::merge_inputs(seed)),
        "c19_modes" => Box::new(c19::inputs(seed, open)),
        "c31_apq" => Box::new(c31::inputs(seed)),
        "c22_lookahead" => Box::new(c22::inputs(seed)),
        "c32_connection" => Box::new(c32::inputs(seed)),
        "c06_args" => Box::new(c06::inputs(seed, open)),
        "c03_errors" => Box::new(c03::inputs(seed, open)),
        "c21_redact" => Box::new(c21::inputs(seed, open)),
        "c29_loader" => Box::new(c29::inputs(seed)),
        "c09_validate" => Box::new(c09::inputs(seed, open)),
        "c09_subtype" => Box::new(c09::subtype_inputs(seed, open)),
        "c12_exec" => Box::new(c09::hostile_inputs(seed)),
        "c13_lex" => Box::new(c13::inputs(seed, open)),
        "c12_parse" => Box::new(c12::parse_inputs(seed)),
        "c12_multipart" => Box::new(c12::multipart_inputs(seed)),
        "c12_ws" => Box::new(c12::ws_inputs(seed)),
        "c15_quoted" | "c17_escape" => Box::new(strings::string_inputs(seed)),
        "c15_values" => Box::new(strings::value_inputs(seed, open)),
        "c17_input_value" | "c17_sdl" => Box::new(c17_sdl::inputs(seed, open)),
        "c17_schema" => Box::new(c17_sdl::schema_inputs(seed, open)),
        _ => return None,
    };
    Some(gen)
}
fn search_in(case: &str, gen: Box<dyn Iterator<Item = Value>>, open: &[String]) -> Option<SearchResult> {
    let mut tried = 0u64;
    let mut samples: Vec<(Value, String)> = Vec::new();
    for input in gen {
        if in_known_region(case, &input, open) { continue; }
        tried += 1;
        if let Some(o) = run(case, &input) {
            if !o.holds {
                return Some((tried, Some((input, o)), samples));
            }
            if samples.len() < 6 { samples.push((input, o.observed)); }
        }
    }
    Some((tried, None, samples))
}

/// inputs inside the region of an OPEN known finding are skipped by the witness search (they are reported as KNOWN-FINDING)
fn in_known_region(case: &str, input: &Value, open: &[String]) -> bool {
    let has = |id: &str| open.iter().any(|x| x == id);
    if case.starts_with("c08_num") {
        let t = input["T"].as_str().unwrap_or("");
        if has("C08-unsigned-wrap") && (t == "u64" || t == "usize") && input["N"] == "i64" {
            if let Some(v) = input["v"].as_str().and_then(|s| s.parse::<i128>().ok()) { return v > i64::MAX as i128; }
        }
    }
    false
}
