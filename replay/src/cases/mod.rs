use crate::Outcome;
use serde_json::Value;

mod c20;

type SearchResult = (u64, Option<(Value, Outcome)>);

pub fn run(case: &str, args: &Value) -> Option<Outcome> {
    let r = std::panic::catch_unwind(|| run_inner(case, args));
    match r {
        Ok(o) => o,
        Err(e) => {
            let msg = e.downcast_ref::<String>().cloned().or_else(|| e.downcast_ref::<&str>().map(|s| s.to_string())).unwrap_or_default();
            Some(Outcome { holds: false, observed: format!("PANIC: {}", msg), expected: "no panic".into() })
        }
    }
}

fn run_inner(case: &str, args: &Value) -> Option<Outcome> {
    match case {
        "c20_merge" => Some(c20::merge(args)),
        _ => None,
    }
}

pub fn search(case: &str, seed: u64) -> Option<SearchResult> {
    let gen: Box<dyn Iterator<Item = Value>> = match case {
        "c20_merge" => Box::new(c20::merge_inputs(seed)),
        _ => return None,
    };
    let mut tried = 0u64;
    for input in gen {
        tried += 1;
        if let Some(o) = run(case, &input) {
            if !o.holds {
                return Some((tried, Some((input, o))));
            }
        }
    }
    Some((tried, None))
}
