//! C01: execution results of a derive-built schema vs. hand-written expectations taken from the spec's execution algorithm.
use crate::Outcome;
use async_graphql::*;
use futures_util::FutureExt;
use serde_json::{json, Value};

#[derive(SimpleObject, Clone)]
struct Dog { name: String, bark: i32 }
#[derive(SimpleObject, Clone)]
struct Cat { name: String, meow: i32 }
#[derive(Union, Clone)]
enum Pet { Dog(Dog), Cat(Cat) }
#[derive(Interface, Clone)]
#[graphql(field(name = "name", ty = "&String"))]
enum Animal { Dog(Dog), Cat(Cat) }
#[derive(SimpleObject, Clone)]
struct Owner { name: String, pet: Dog, pets: Vec<Dog> }
fn owner(n: &str) -> Owner { Owner { name: n.into(), pet: dog(), pets: vec![dog(), Dog { name: "fido".into(), bark: 1 }] } }
fn dog() -> Dog { Dog { name: "rex".into(), bark: 3 } }
fn cat() -> Cat { Cat { name: "tom".into(), meow: 9 } }
struct YieldOnce(bool);
impl std::future::Future for YieldOnce { type Output = (); fn poll(mut self: std::pin::Pin<&mut Self>, cx: &mut std::task::Context<'_>) -> std::task::Poll<()> {
    if self.0 { std::task::Poll::Ready(()) } else { self.0 = true; cx.waker().wake_by_ref(); std::task::Poll::Pending } } }
fn block_on<F: std::future::Future>(f: F) -> F::Output {
    let w = futures_util::task::noop_waker(); let mut cx = std::task::Context::from_waker(&w);
    let mut f = Box::pin(f);
    loop { if let std::task::Poll::Ready(v) = f.as_mut().poll(&mut cx) { return v; } }
}
struct Query;
#[Object]
impl Query {
    /// a resolver that really suspends (twice) before completing: response keys must still come out in DOCUMENT order
    async fn slow(&self) -> i32 { YieldOnce(false).await; YieldOnce(false).await; 1 }
    async fn slow_dog(&self) -> Dog { YieldOnce(false).await; dog() }
    async fn dog(&self) -> Dog { dog() }
    async fn pet(&self) -> Pet { Pet::Dog(dog()) }
    async fn pet2(&self) -> Pet { Pet::Cat(cat()) }
    async fn animal(&self) -> Animal { Animal::Cat(cat()) }
    async fn pets(&self) -> Vec<Pet> { vec![Pet::Dog(dog()), Pet::Cat(cat())] }
    async fn owners(&self) -> Vec<Owner> { vec![owner("ann"), owner("bob")] }
    async fn owner(&self) -> Owner { owner("ann") }
    async fn num(&self) -> i32 { 7 }
    async fn fl(&self, nan: bool) -> f64 { if nan { f64::NAN } else { 1.5 } }
    async fn opt(&self) -> Option<i32> { None }
}

/// args {"query": "...", "variables": {...}, "data": expected}
pub fn exec(args: &Value) -> Outcome {
    let mut req = Request::new(args["query"].as_str().unwrap());
    if let Some(v) = args.get("variables") { if !v.is_null() { req = req.variables(Variables::from_json(v.clone())); } }
    let schema = Schema::build(Query, EmptyMutation, EmptySubscription).register_output_type::<Animal>().finish();
    let resp = block_on(schema.execute(req));
    // key ORDER matters: compare the serialized text
    let data = serde_json::to_string(&resp.data).unwrap();
    let exp = args["data"].as_str().unwrap().to_string();
    Outcome { holds: resp.errors.is_empty() && data == exp, observed: format!("data {} errors {:?}", data, resp.errors.iter().map(|e| e.message.clone()).collect::<Vec<_>>()), expected: format!("data {}", exp) }
}

pub fn inputs(_seed: u64, open: &[String]) -> impl Iterator<Item = Value> {
    let has = |id: &str| open.iter().any(|x| x == id);
    let mut v = vec![
        json!({"query": "{ num dog { name bark } }", "data": "{\"num\":7,\"dog\":{\"name\":\"rex\",\"bark\":3}}"}),
        json!({"query": "{ b: num a: num num }", "data": "{\"b\":7,\"a\":7,\"num\":7}"}),
        json!({"query": "{ dog { name } num dog { bark } }", "data": "{\"dog\":{\"name\":\"rex\",\"bark\":3},\"num\":7}"}),
        json!({"query": "{ dog { ... on Dog { bark } name } }", "data": "{\"dog\":{\"bark\":3,\"name\":\"rex\"}}"}),
        json!({"query": "{ dog { ... on Animal { name } bark } }", "data": "{\"dog\":{\"name\":\"rex\",\"bark\":3}}"}),
        json!({"query": "{ pet { ... on Dog { bark } ... on Cat { meow } __typename } }", "data": "{\"pet\":{\"bark\":3,\"__typename\":\"Dog\"}}"}),
        json!({"query": "{ pet2 { ... on Dog { bark } ... on Cat { meow name } } }", "data": "{\"pet2\":{\"meow\":9,\"name\":\"tom\"}}"}),
        json!({"query": "{ animal { name ... on Cat { meow } ... on Dog { bark } } }", "data": "{\"animal\":{\"name\":\"tom\",\"meow\":9}}"}),
        json!({"query": "{ pets { ... on Animal { name } } }", "data": "{\"pets\":[{\"name\":\"rex\"},{\"name\":\"tom\"}]}"}),
        json!({"query": "{ pets { ...F } } fragment F on Pet { ... on Dog { bark } ... on Cat { meow } }", "data": "{\"pets\":[{\"bark\":3},{\"meow\":9}]}"}),
        json!({"query": "{ num @skip(if: true) dog { name @include(if: false) bark } }", "data": "{\"dog\":{\"bark\":3}}"}),
        json!({"query": "query($s: Boolean!) { num @skip(if: $s) opt }", "variables": {"s": false}, "data": "{\"num\":7,\"opt\":null}"}),
        json!({"query": "query($s: Boolean!) { num @include(if: $s) opt }", "variables": {"s": false}, "data": "{\"opt\":null}"}),
        json!({"query": "{ ... @include(if: false) { num } ... @skip(if: false) { opt } }", "data": "{\"opt\":null}"}),
        json!({"query": "{ fl(nan: false) }", "data": "{\"fl\":1.5}"}),
        // repeated response keys merge recursively, also through lists (MergeSelectionSets)
        json!({"query": "{ owners { pet { name } } owners { pet { bark } } }", "data": "{\"owners\":[{\"pet\":{\"name\":\"rex\",\"bark\":3}},{\"pet\":{\"name\":\"rex\",\"bark\":3}}]}"}),
        json!({"query": "{ owners { name pets { name } } owners { pets { bark } name } }", "data": "{\"owners\":[{\"name\":\"ann\",\"pets\":[{\"name\":\"rex\",\"bark\":3},{\"name\":\"fido\",\"bark\":1}]},{\"name\":\"bob\",\"pets\":[{\"name\":\"rex\",\"bark\":3},{\"name\":\"fido\",\"bark\":1}]}]}"}),
        json!({"query": "{ owner { pet { name } } ... on Query { owner { pet { bark } name } } }", "data": "{\"owner\":{\"pet\":{\"name\":\"rex\",\"bark\":3},\"name\":\"ann\"}}"}),
        json!({"query": "{ owner { pets { name } } ...F } fragment F on Query { owner { pets { bark } } }", "data": "{\"owner\":{\"pets\":[{\"name\":\"rex\",\"bark\":3},{\"name\":\"fido\",\"bark\":1}]}}"}),
        // key order is the document's, not the order in which resolvers complete
        json!({"query": "{ slow num }", "data": "{\"slow\":1,\"num\":7}"}),
        json!({"query": "{ a: slow b: num c: slow d: num }", "data": "{\"a\":1,\"b\":7,\"c\":1,\"d\":7}"}),
        json!({"query": "{ slowDog { name } dog { bark } num }", "data": "{\"slowDog\":{\"name\":\"rex\"},\"dog\":{\"bark\":3},\"num\":7}"}),
        json!({"query": "{ ...F num } fragment F on Query { slow }", "data": "{\"slow\":1,\"num\":7}"}),
        // both directives on one selection: BOTH must let it through
        json!({"query": "{ num @skip(if: false) @include(if: false) opt }", "data": "{\"opt\":null}"}),
        json!({"query": "{ num @include(if: true) @skip(if: true) opt }", "data": "{\"opt\":null}"}),
        json!({"query": "{ num @include(if: true) @skip(if: false) opt }", "data": "{\"num\":7,\"opt\":null}"}),
        json!({"query": "query($a: Boolean!, $b: Boolean!) { ... @skip(if: $a) @include(if: $b) { num } dog @include(if: $b) @skip(if: $a) { name } opt }", "variables": {"a": false, "b": false}, "data": "{\"opt\":null}"}),
        json!({"query": "query($a: Boolean!, $b: Boolean!) { ...F @skip(if: $a) @include(if: $b) opt } fragment F on Query { num }", "variables": {"a": true, "b": true}, "data": "{\"opt\":null}"}),
    ];
    if !has("C01-union-type-condition-on-concrete-object") {
        v.push(json!({"query": "{ dog { ... on Pet { ... on Dog { bark } } name } }", "data": "{\"dog\":{\"bark\":3,\"name\":\"rex\"}}"}));
    }
    if !has("C01-skip-include-ignore-variable-defaults") {
        v.push(json!({"query": "query($s: Boolean = true) { num @skip(if: $s) opt }", "data": "{\"opt\":null}"}));
    }
    v.into_iter()
}

/// C04 (second half of "merged fields"): the sub-selections of fields sharing a response key are merged, at every depth and through lists
pub fn merge_inputs(_seed: u64) -> impl Iterator<Item = Value> {
    vec![
        json!({"query": "{ dog { name } num dog { bark } }", "data": "{\"dog\":{\"name\":\"rex\",\"bark\":3},\"num\":7}"}),
        json!({"query": "{ owners { pet { name } } owners { pet { bark } } }", "data": "{\"owners\":[{\"pet\":{\"name\":\"rex\",\"bark\":3}},{\"pet\":{\"name\":\"rex\",\"bark\":3}}]}"}),
        json!({"query": "{ owners { name pets { name } } owners { pets { bark } name } }", "data": "{\"owners\":[{\"name\":\"ann\",\"pets\":[{\"name\":\"rex\",\"bark\":3},{\"name\":\"fido\",\"bark\":1}]},{\"name\":\"bob\",\"pets\":[{\"name\":\"rex\",\"bark\":3},{\"name\":\"fido\",\"bark\":1}]}]}"}),
        json!({"query": "{ owner { pet { name } } ... on Query { owner { pet { bark } name } } }", "data": "{\"owner\":{\"pet\":{\"name\":\"rex\",\"bark\":3},\"name\":\"ann\"}}"}),
        json!({"query": "{ owner { pets { name } } ...F } fragment F on Query { owner { pets { bark } } }", "data": "{\"owner\":{\"pets\":[{\"name\":\"rex\",\"bark\":3},{\"name\":\"fido\",\"bark\":1}]}}"}),
        json!({"query": "{ o: owners { p: pet { name } } o: owners { p: pet { b: bark } p: pet { name } } }", "data": "{\"o\":[{\"p\":{\"name\":\"rex\",\"b\":3}},{\"p\":{\"name\":\"rex\",\"b\":3}}]}"}),
    ].into_iter()
}
