//! C07: built-in scalar parse/to_value on concrete values, against the type's domain.
use crate::{rng::Rng, Outcome};
use async_graphql::{Number, ScalarType, Value as GqlValue};
use serde_json::{json, Value};

fn to_gql(v: &Value) -> GqlValue {
    match v {
        Value::Null => GqlValue::Null,
        Value::Bool(b) => GqlValue::Boolean(*b),
        Value::String(s) => {
            if let Some(n) = s.strip_prefix("int:") {
                let k: i128 = n.parse().unwrap();
                if k >= 0 { GqlValue::Number(Number::from(k as u64)) } else { GqlValue::Number(Number::from(k as i64)) }
            } else if let Some(n) = s.strip_prefix("float:") {
                GqlValue::Number(Number::from_f64(n.parse().unwrap()).unwrap())
            } else if let Some(n) = s.strip_prefix("enum:") {
                GqlValue::Enum(async_graphql::Name::new(n))
            } else { GqlValue::String(s.clone()) }
        }
        Value::Array(a) => GqlValue::List(a.iter().map(to_gql).collect()),
        _ => GqlValue::Null,
    }
}

fn int_of(v: &Value) -> Option<i128> { v.as_str().and_then(|s| s.strip_prefix("int:")).and_then(|n| n.parse().ok()) }

macro_rules! int_case {
    ($T:ty, $v:expr, $raw:expr) => {{
        let got = <$T as ScalarType>::parse($v.clone());
        let exp: Option<i128> = int_of($raw).filter(|k| *k >= <$T>::MIN as i128 && *k <= <$T>::MAX as i128);
        let got_i: Option<i128> = got.as_ref().ok().map(|x| *x as i128);
        let mut holds = got_i == exp;
        let mut obs = format!("parse({}) = {:?}", $v, got.as_ref().map(|x| *x as i128).map_err(|_| "Err"));
        if let Some(k) = exp {
            // round trip
            let x = k as $T;
            let back = <$T as ScalarType>::parse(ScalarType::to_value(&x));
            if back.as_ref().ok().map(|y| *y as i128) != Some(k) { holds = false; obs += &format!("; parse(to_value({})) = {:?}", k, back.map(|y| y as i128).map_err(|_| "Err")); }
        }
        Outcome { holds, observed: obs, expected: format!("{:?} (Ok exactly for integers in {}..={})", exp, <$T>::MIN, <$T>::MAX) }
    }};
}

/// args {"T":"i8","v": "int:-128" | "float:1.5" | "str" | null | true}
pub fn int(args: &Value) -> Outcome {
    let v = to_gql(&args["v"]);
    let raw = &args["v"];
    match args["T"].as_str().unwrap() {
        "i8" => int_case!(i8, v, raw), "i16" => int_case!(i16, v, raw), "i32" => int_case!(i32, v, raw), "i64" => int_case!(i64, v, raw), "isize" => int_case!(isize, v, raw),
        "u8" => int_case!(u8, v, raw), "u16" => int_case!(u16, v, raw), "u32" => int_case!(u32, v, raw), "u64" => int_case!(u64, v, raw), "usize" => int_case!(usize, v, raw),
        _ => panic!("type"),
    }
}

pub fn int_inputs(seed: u64) -> impl Iterator<Item = Value> {
    let mut out = Vec::new();
    let mut r = Rng(seed);
    let ranges: [(&str, i128, i128); 10] = [("i8", i8::MIN as i128, i8::MAX as i128), ("i16", i16::MIN as i128, i16::MAX as i128), ("i32", i32::MIN as i128, i32::MAX as i128),
        ("i64", i64::MIN as i128, i64::MAX as i128), ("isize", isize::MIN as i128, isize::MAX as i128), ("u8", 0, u8::MAX as i128), ("u16", 0, u16::MAX as i128),
        ("u32", 0, u32::MAX as i128), ("u64", 0, u64::MAX as i128), ("usize", 0, usize::MAX as i128)];
    for (t, lo, hi) in ranges {
        let mut ks = vec![lo - 1, lo, lo + 1, -1, 0, 1, hi - 1, hi, hi + 1, -(hi), -(hi) - 1, i64::MIN as i128, i64::MAX as i128, u64::MAX as i128];
        for _ in 0..30 { ks.push(lo + (r.next() as i128).rem_euclid(hi - lo + 1)); }
        for k in ks { if k >= i64::MIN as i128 && k <= u64::MAX as i128 { out.push(json!({"T": t, "v": format!("int:{}", k)})); } }
        for v in [json!("float:1.5"), json!("float:0.0"), json!("float:1e300"), json!("1"), json!(null), json!(true), json!("enum:A"), json!(["int:1"])] { out.push(json!({"T": t, "v": v})); }
    }
    out.into_iter()
}
