//! C07: built-in scalar parse/to_value on concrete values, against the type's domain.
use crate::{rng::Rng, Outcome};
use async_graphql::{Number, ScalarType, Value as GqlValue};
use serde_json::{json, Value};

fn to_gql(v: &Value) -> GqlValue {
    match v {
        Value::Null => GqlValue::Null,
        Value::Bool(b) => GqlValue::Boolean(*b),
        Value::String(s) => {
            if let Some(n) = s.strip_prefix("int:") {
                let k: i128 = n.parse().unwrap();
                if k >= 0 { GqlValue::Number(Number::from(k as u64)) } else { GqlValue::Number(Number::from(k as i64)) }
            } else if let Some(n) = s.strip_prefix("float:") {
                GqlValue::Number(Number::from_f64(n.parse().unwrap()).unwrap())
            } else if let Some(n) = s.strip_prefix("enum:") {
                GqlValue::Enum(async_graphql::Name::new(n))
            } else { GqlValue::String(s.clone()) }
        }
        Value::Array(a) => GqlValue::List(a.iter().map(to_gql).collect()),
        _ => GqlValue::Null,
    }
}

fn int_of(v: &Value) -> Option<i128> { v.as_str().and_then(|s| s.strip_prefix("int:")).and_then(|n| n.parse().ok()) }

macro_rules! int_case {
    ($T:ty, $v:expr, $raw:expr) => {{
        let got = <$T as ScalarType>::parse($v.clone());
        let exp: Option<i128> = int_of($raw).filter(|k| *k >= <$T>::MIN as i128 && *k <= <$T>::MAX as i128);
        let got_i: Option<i128> = got.as_ref().ok().map(|x| *x as i128);
        let mut holds = got_i == exp;
        let mut obs = format!("parse({}) = {:?}", $v, got.as_ref().map(|x| *x as i128).map_err(|_| "Err"));
        if let Some(k) = exp {
            // round trip
            let x = k as $T;
            let back = <$T as ScalarType>::parse(ScalarType::to_value(&x));
            if back.as_ref().ok().map(|y| *y as i128) != Some(k) { holds = false; obs += &format!("; parse(to_value({})) = {:?}", k, back.map(|y| y as i128).map_err(|_| "Err")); }
        }
        Outcome { holds, observed: obs, expected: format!("{:?} (Ok exactly for integers in {}..={})", exp, <$T>::MIN, <$T>::MAX) }
    }};
}

/// args {"T":"i8","v": "int:-128" | "float:1.5" | "str" | null | true}
pub fn int(args: &Value) -> Outcome {
    let v = to_gql(&args["v"]);
    let raw = &args["v"];
    match args["T"].as_str().unwrap() {
        "i8" => int_case!(i8, v, raw), "i16" => int_case!(i16, v, raw), "i32" => int_case!(i32, v, raw), "i64" => int_case!(i64, v, raw), "isize" => int_case!(isize, v, raw),
        "u8" => int_case!(u8, v, raw), "u16" => int_case!(u16, v, raw), "u32" => int_case!(u32, v, raw), "u64" => int_case!(u64, v, raw), "usize" => int_case!(usize, v, raw),
        _ => panic!("type"),
    }
}

pub fn int_inputs(seed: u64) -> impl Iterator<Item = Value> {
    let mut out = Vec::new();
    let mut r = Rng(seed);
    let ranges: [(&str, i128, i128); 10] = [("i8", i8::MIN as i128, i8::MAX as i128), ("i16", i16::MIN as i128, i16::MAX as i128), ("i32", i32::MIN as i128, i32::MAX as i128),
        ("i64", i64::MIN as i128, i64::MAX as i128), ("isize", isize::MIN as i128, isize::MAX as i128), ("u8", 0, u8::MAX as i128), ("u16", 0, u16::MAX as i128),
        ("u32", 0, u32::MAX as i128), ("u64", 0, u64::MAX as i128), ("usize", 0, usize::MAX as i128)];
    for (t, lo, hi) in ranges {
        let mut ks = vec![lo - 1, lo, lo + 1, -1, 0, 1, hi - 1, hi, hi + 1, -(hi), -(hi) - 1, i64::MIN as i128, i64::MAX as i128, u64::MAX as i128];
        for _ in 0..30 { ks.push(lo + (r.next() as i128).rem_euclid(hi - lo + 1)); }
        for k in ks { if k >= i64::MIN as i128 && k <= u64::MAX as i128 { out.push(json!({"T": t, "v": format!("int:{}", k)})); } }
        for v in [json!("float:1.5"), json!("float:0.0"), json!("float:1e300"), json!("1"), json!(null), json!(true), json!("enum:A"), json!(["int:1"])] { out.push(json!({"T": t, "v": v})); }
    }
    out.into_iter()
}

// ---------------------------------------------------------------- enums (bounded stand-in)
#[derive(async_graphql::Enum, Copy, Clone, Eq, PartialEq, Debug)]
enum Color { Red, Green, #[graphql(name = "DEEP_BLUE")] Blue }
#[derive(async_graphql::Enum, Copy, Clone, Eq, PartialEq, Debug)]
#[graphql(rename_items = "lowercase")]
enum Unit { #[graphql(name = "mb")] Millibit, #[graphql(name = "MB")] Megabyte, Kb }

fn enum_check<T: async_graphql::resolver_utils::EnumType + async_graphql::InputType + std::fmt::Debug>(v: &GqlValue, names: &[(&str, T)]) -> Outcome {
    let got = async_graphql::resolver_utils::parse_enum::<T>(v.clone());
    let key = match v { GqlValue::Enum(n) => Some(n.to_string()), GqlValue::String(s) => Some(s.clone()), _ => None };
    let exp = key.and_then(|k| names.iter().find(|(n, _)| *n == k).map(|(_, x)| *x));
    let mut holds = got.as_ref().ok().copied() == exp;
    let mut obs = format!("parse_enum({}) = {:?}", v, got.as_ref().map_err(|_| "Err"));
    for (n, x) in names {   // round trip + to_value names
        let tv = async_graphql::resolver_utils::enum_value(*x);
        if tv != GqlValue::Enum(async_graphql::Name::new(*n)) { holds = false; obs += &format!("; enum_value({:?}) = {}", x, tv); }
        let back = async_graphql::resolver_utils::parse_enum::<T>(tv);
        if back.as_ref().ok().copied() != Some(*x) { holds = false; obs += &format!("; parse(to_value({:?})) = {:?}", x, back.map_err(|_| "Err")); }
    }
    Outcome { holds, observed: obs, expected: format!("{:?} (Ok exactly for the item names; every item round-trips)", exp) }
}
/// args {"enum": "Color"|"Unit", "v": <value as in c07_int>}
pub fn enum_case(args: &Value) -> Outcome {
    let v = to_gql(&args["v"]);
    match args["enum"].as_str().unwrap() {
        "Color" => enum_check::<Color>(&v, &[("RED", Color::Red), ("GREEN", Color::Green), ("DEEP_BLUE", Color::Blue)]),
        _ => enum_check::<Unit>(&v, &[("mb", Unit::Millibit), ("MB", Unit::Megabyte), ("kb", Unit::Kb)]),
    }
}
pub fn enum_inputs(_seed: u64) -> impl Iterator<Item = Value> {
    let mut out = Vec::new();
    for e in ["Color", "Unit"] {
        for n in ["RED", "GREEN", "DEEP_BLUE", "BLUE", "Red", "red", "Green", "RE", "REDD", "", " RED", "mb", "MB", "Mb", "mB", "kb", "KB", "Kb", "Millibit", "MILLIBIT"] {
            out.push(json!({"enum": e, "v": format!("enum:{}", n)}));
            out.push(json!({"enum": e, "v": n}));
        }
        for v in [json!(null), json!(true), json!("int:0"), json!("int:1"), json!(["enum:RED"])] { out.push(json!({"enum": e, "v": v})); }
    }
    out.into_iter()
}

// ---------------------------------------------------------------- bool / String / ID / char
/// args {"T": "bool"|"String"|"ID"|"char", "v": value}
pub fn simple(args: &Value) -> Outcome {
    let v = to_gql(&args["v"]);
    let t = args["T"].as_str().unwrap();
    let (got, exp): (Option<String>, Option<String>) = match t {
        "bool" => (<bool as ScalarType>::parse(v.clone()).ok().map(|b| b.to_string()), if let GqlValue::Boolean(b) = &v { Some(b.to_string()) } else { None }),
        "String" => (<String as ScalarType>::parse(v.clone()).ok(), if let GqlValue::String(s) = &v { Some(s.clone()) } else { None }),
        "char" => (<char as ScalarType>::parse(v.clone()).ok().map(|c| c.to_string()), if let GqlValue::String(s) = &v { if s.chars().count() == 1 { Some(s.clone()) } else { None } } else { None }),
        _ => (<async_graphql::ID as ScalarType>::parse(v.clone()).ok().map(|i| i.0), match &v { GqlValue::String(s) => Some(s.clone()), GqlValue::Number(n) if n.is_i64() => Some(n.to_string()), _ => None }),
    };
    let mut holds = got == exp;
    let mut obs = format!("parse({}) = {:?}", v, got);
    for b in [true, false] { if <bool as ScalarType>::parse(ScalarType::to_value(&b)).ok() != Some(b) { holds = false; obs += "; bool round trip fails"; } }
    for s in ["", "a", "\u{1F600}", "a\"b"] {
        if <String as ScalarType>::parse(ScalarType::to_value(&s.to_string())).ok().as_deref() != Some(s) { holds = false; obs += "; String round trip fails"; }
        if <async_graphql::ID as ScalarType>::parse(ScalarType::to_value(&async_graphql::ID(s.to_string()))).ok().map(|i| i.0).as_deref() != Some(s) { holds = false; obs += "; ID round trip fails"; }
    }
    for c in ['a', '\u{0}', '\u{1F600}', '"'] { if <char as ScalarType>::parse(ScalarType::to_value(&c)).ok() != Some(c) { holds = false; obs += "; char round trip fails"; } }
    Outcome { holds, observed: obs, expected: format!("{:?}", exp) }
}
pub fn simple_inputs(_seed: u64) -> impl Iterator<Item = Value> {
    let mut out = Vec::new();
    for t in ["bool", "String", "ID", "char"] {
        for v in [json!(true), json!(false), json!(null), json!(""), json!("a"), json!("ab"), json!("\u{1F600}"), json!("\u{e9}\u{e9}"), json!("true"), json!("enum:true"), json!("enum:a"),
                  json!("int:0"), json!("int:1"), json!("int:-5"), json!("int:18446744073709551615"), json!("float:1.5"), json!(["a"]), json!([true])] {
            out.push(json!({"T": t, "v": v}));
        }
    }
    out.into_iter()
}

// ---------------------------------------------------------------- floats (bounded stand-in)
/// args {"T":"f32"|"f64","bits": u64}  parse of a finite f64 number and the round trip of the resulting value
pub fn float_case(args: &Value) -> Outcome {
    let bits = args["bits"].as_u64().unwrap();
    let d = f64::from_bits(bits);
    if !d.is_finite() {
        // round trip of a non-finite value (only used as the witness of a known finding; never generated by the search)
        let tv = ScalarType::to_value(&d);
        let back = <f64 as ScalarType>::parse(tv.clone()).ok();
        let same = back.map(|y| y.to_bits() == d.to_bits() || (y.is_nan() && d.is_nan())).unwrap_or(false);
        return Outcome { holds: same, observed: format!("to_value({}) = {}; parse of that = {:?}", d, tv, back), expected: "parse(to_value(x)) == Ok(x)".into() };
    }
    if args["T"] == "f32" {
        let got = <f32 as ScalarType>::parse(GqlValue::Number(Number::from_f64(d).unwrap()));
        // domain of a 32-bit Float: finite doubles whose magnitude fits f32 (result = nearest f32)
        let exp: Option<f32> = if d.abs() <= f32::MAX as f64 { Some(d as f32) } else { None };
        let mut holds = got.as_ref().ok().copied().map(f32::to_bits) == exp.map(f32::to_bits);
        let mut obs = format!("f32::parse({:e}) = {:?}", d, got.as_ref().map_err(|_| "Err"));
        let x = d as f32;
        if x.is_finite() { let back = <f32 as ScalarType>::parse(ScalarType::to_value(&x)); if back.as_ref().ok().map(|y| y.to_bits()) != Some(x.to_bits()) { holds = false; obs += &format!("; parse(to_value({:e})) = {:?}", x, back.map_err(|_| "Err")); } }
        Outcome { holds, observed: obs, expected: format!("{:?}", exp) }
    } else {
        let got = <f64 as ScalarType>::parse(GqlValue::Number(Number::from_f64(d).unwrap())).ok();
        let back = <f64 as ScalarType>::parse(ScalarType::to_value(&d)).ok();
        let ok = |r: &Option<f64>| r.map(|y| y.to_bits()) == Some(d.to_bits());
        Outcome { holds: ok(&got) && ok(&back), observed: format!("f64::parse({:e}) = {:?}; round trip {:?}", d, got, back), expected: format!("Ok({:e})", d) }
    }
}
pub fn float_inputs(seed: u64, open: &[String]) -> impl Iterator<Item = Value> {
    let skip_overflow = open.iter().any(|x| x == "C07-f32-overflow-to-inf");
    let mut out = Vec::new();
    let vals: Vec<f64> = vec![0.0, -0.0, 1.0, -1.0, 0.1, 1.5, 16777217.0, f32::MAX as f64, f32::MIN as f64, f32::MIN_POSITIVE as f64, 1e-46, 3.4028236e38, 1e39, -1e39, f64::MAX, f64::MIN, f64::MIN_POSITIVE, 5e-324, 1e300];
    let mut r = Rng(seed);
    let mut all = vals.clone();
    for _ in 0..100 { let d = f64::from_bits(r.next()); if d.is_finite() { all.push(d); } }
    for d in all { for t in ["f32", "f64"] {
        if t == "f32" && skip_overflow && d.abs() > f32::MAX as f64 { continue; }
        out.push(json!({"T": t, "bits": d.to_bits()}));
    } }
    out.into_iter()
}
