//! C03: field errors null the nearest nullable position and are reported once with their path (hand-written expectations).
use crate::Outcome;
use async_graphql::{dynamic, *};
use futures_util::FutureExt;
use serde_json::{json, Value};

struct Leaf;
#[Object]
impl Leaf {
    async fn fine(&self) -> i32 { 1 }
    async fn fail_nn(&self) -> Result<i32> { Err("boom-nn".into()) }
    async fn fail_opt(&self) -> Option<Result<i32>> { Some(Err("boom-opt".into())) }
}
struct Query;
#[Object]
impl Query {
    async fn ok(&self) -> i32 { 1 }
    async fn bad(&self) -> Option<Result<i32>> { Some(Err("boom".into())) }
    async fn bad2(&self) -> Result<Option<i32>> { Err("boom2".into()) }
    async fn leaf(&self) -> Leaf { Leaf }
    async fn leaf_opt(&self) -> Option<Leaf> { Some(Leaf) }
    async fn leaves(&self) -> Vec<Option<Leaf>> { vec![Some(Leaf), Some(Leaf)] }
    async fn leaves_nn(&self) -> Option<Vec<Leaf>> { Some(vec![Leaf, Leaf]) }
    async fn fatal(&self) -> Result<i32> { Err("fatal".into()) }
    async fn vec_err(&self) -> Option<Vec<Result<i32>>> { Some(vec![Ok(1), Err("item".into())]) }
    async fn weak(&self) -> std::sync::Weak<Leaf> { std::sync::Arc::downgrade(&LIVE) }
    async fn gone(&self) -> std::sync::Weak<Leaf> { std::sync::Weak::new() }
    async fn arc(&self) -> Option<std::sync::Arc<Leaf>> { Some(LIVE.clone()) }
    async fn boxed(&self) -> Option<Box<Leaf>> { Some(Box::new(Leaf)) }
}
static LIVE: std::sync::LazyLock<std::sync::Arc<Leaf>> = std::sync::LazyLock::new(|| std::sync::Arc::new(Leaf));
struct Ev { n: i32 }
#[Object]
impl Ev {
    async fn n(&self) -> i32 { self.n }
    async fn soft(&self) -> Option<Leaf> { if self.n == 1 { Some(Leaf) } else { None } }
    async fn hard(&self) -> Result<i32> { if self.n == 1 { Err("hard".into()) } else { Ok(self.n) } }
    async fn opt(&self) -> Option<Result<i32>> { if self.n == 2 { Some(Err("opt".into())) } else { Some(Ok(self.n)) } }
}
struct Sub;
#[Subscription]
impl Sub { async fn events(&self) -> impl futures_util::Stream<Item = Ev> { futures_util::stream::iter(vec![Ev { n: 1 }, Ev { n: 2 }, Ev { n: 3 }]) } }
struct Extra;
#[Object]
impl Extra {
    async fn strict(&self) -> Result<i32> { Err("strict".into()) }
    async fn soft(&self) -> Option<Result<i32>> { Some(Err("soft".into())) }
    async fn version(&self) -> i32 { 7 }
}
#[derive(MergedObject, Default)]
struct MergedQuery(Base, ExtraDefault);
#[derive(Default)] struct Base;
#[Object] impl Base { async fn ok(&self) -> i32 { 1 } async fn child(&self) -> Option<MergedChild> { Some(MergedChild::default()) } }
#[derive(Default)] struct ExtraDefault;
#[Object] impl ExtraDefault {
    async fn strict(&self) -> Result<i32> { Err("strict".into()) }
    async fn soft(&self) -> Option<Result<i32>> { Some(Err("soft".into())) }
    async fn version(&self) -> i32 { 7 }
}
#[derive(MergedObject, Default)]
struct MergedChild(ChildA, ChildB);
#[derive(Default)] struct ChildA;
#[Object] impl ChildA { async fn a(&self) -> i32 { 1 } }
#[derive(Default)] struct ChildB;
#[Object] impl ChildB { async fn boom(&self) -> Result<i32> { Err("boom".into()) } }
struct NoopExt;
#[async_graphql::async_trait::async_trait]
impl async_graphql::extensions::Extension for NoopExt {}
impl async_graphql::extensions::ExtensionFactory for NoopExt { fn create(&self) -> std::sync::Arc<dyn async_graphql::extensions::Extension> { std::sync::Arc::new(NoopExt) } }

fn dyn_schema() -> dynamic::Schema {
    use dynamic::*;
    let leaf = Object::new("Leaf")
        .field(Field::new("fine", TypeRef::named_nn(TypeRef::INT), |_| FieldFuture::new(async { Ok(Some(async_graphql::Value::from(1))) })))
        .field(Field::new("failNn", TypeRef::named_nn(TypeRef::INT), |_| FieldFuture::new(async { Err::<Option<async_graphql::Value>, _>(Error::new("boom-nn")) })))
        .field(Field::new("failOpt", TypeRef::named(TypeRef::INT), |_| FieldFuture::new(async { Err::<Option<async_graphql::Value>, _>(Error::new("boom-opt")) })));
    let q = Object::new("Query")
        .field(Field::new("ok", TypeRef::named_nn(TypeRef::INT), |_| FieldFuture::new(async { Ok(Some(async_graphql::Value::from(1))) })))
        .field(Field::new("bad", TypeRef::named(TypeRef::INT), |_| FieldFuture::new(async { Err::<Option<async_graphql::Value>, _>(Error::new("boom")) })))
        .field(Field::new("leafOpt", TypeRef::named("Leaf"), |_| FieldFuture::new(async { Ok(Some(FieldValue::owned_any(0u8))) })))
        .field(Field::new("leaf", TypeRef::named_nn("Leaf"), |_| FieldFuture::new(async { Ok(Some(FieldValue::owned_any(0u8))) })));
    Schema::build("Query", None, None).register(leaf).register(q).finish().unwrap()
}

/// args {"schema": "static"|"dynamic", "query": "...", "data": <expected data json>, "errors": [[path...], ...]}
pub fn errors(args: &Value) -> Outcome {
    let q = args["query"].as_str().unwrap();
    if args["schema"] == "subscription" {
        // each event's response carries exactly its own data and errors
        use futures_util::StreamExt;
        let schema = Schema::new(Query, EmptyMutation, Sub);
        let evs: Vec<Response> = schema.execute_stream(q).collect::<Vec<_>>().now_or_never().unwrap();
        let got: Vec<Value> = evs.iter().map(|r| { let mut p: Vec<Value> = r.errors.iter().map(|e| serde_json::to_value(&e.path).unwrap()).collect(); p.sort_by_key(|x| x.to_string());
            json!({"data": r.data.clone().into_json().unwrap(), "errors": p}) }).collect();
        let mut exp = args["events"].as_array().unwrap().clone();
        for e in exp.iter_mut() { let mut p = e["errors"].as_array().unwrap().clone(); p.sort_by_key(|x| x.to_string()); e["errors"] = Value::Array(p); }
        return Outcome { holds: got == exp, observed: format!("{}", Value::Array(got)), expected: format!("{}", Value::Array(exp)) };
    }
    let _ = Extra;
    let resp = if args["schema"] == "merged" { Schema::new(MergedQuery::default(), EmptyMutation, EmptySubscription).execute(q).now_or_never().unwrap() }
               else if args["schema"] == "dynamic" { dyn_schema().execute(q).now_or_never().unwrap() }
               else if args["schema"] == "static_ext" { Schema::build(Query, EmptyMutation, EmptySubscription).extension(NoopExt).finish().execute(q).now_or_never().unwrap() }
               else { Schema::new(Query, EmptyMutation, EmptySubscription).execute(q).now_or_never().unwrap() };
    let data = resp.data.clone().into_json().unwrap();
    let mut paths: Vec<Value> = resp.errors.iter().map(|e| serde_json::to_value(&e.path).unwrap()).collect();
    let mut exp_paths: Vec<Value> = args["errors"].as_array().unwrap().clone();
    paths.sort_by_key(|p| p.to_string()); exp_paths.sort_by_key(|p| p.to_string());
    // every field error carries exactly one source location, and it points at the field the path ends in (its alias or name in the query text)
    let mut loc_bad = Vec::new();
    if args["schema"] != "dynamic" || !resp.errors.iter().any(|e| e.path.is_empty()) {
        for e in &resp.errors {
            let key = e.path.iter().rev().find_map(|seg| match seg { PathSegment::Field(f) => Some(f.clone()), _ => None });
            if let Some(key) = key {
                if e.locations.len() != 1 { loc_bad.push(format!("error at {:?} has {} locations", e.path, e.locations.len())); continue; }
                let (l, c) = (e.locations[0].line, e.locations[0].column);
                let line = q.lines().nth(l.saturating_sub(1)).unwrap_or("");
                let at: String = line.chars().skip(c.saturating_sub(1)).take(key.chars().count()).collect();
                if at != key { loc_bad.push(format!("error at {:?} is located at {}:{} (`{}`), not at the field `{}`", e.path, l, c, at, key)); }
            }
        }
    }
    if !loc_bad.is_empty() { return Outcome { holds: false, observed: loc_bad.join("; "), expected: "each error located at its field".into() }; }
    Outcome { holds: data == args["data"] && paths == exp_paths, observed: format!("data {} error paths {}", data, Value::Array(paths)), expected: format!("data {} error paths {}", args["data"], Value::Array(exp_paths)) }
}

pub fn inputs(_seed: u64, open: &[String]) -> impl Iterator<Item = Value> {
    let has = |id: &str| open.iter().any(|x| x == id);
    let mut v = vec![
        json!({"schema": "static", "query": "{ ok }", "data": {"ok": 1}, "errors": []}),
        json!({"schema": "static", "query": "{ ok bad }", "data": {"ok": 1, "bad": null}, "errors": [["bad"]]}),
        json!({"schema": "static", "query": "{ b: bad ok }", "data": {"b": null, "ok": 1}, "errors": [["b"]]}),
        json!({"schema": "static", "query": "{ ok leaf { fine failOpt } }", "data": {"ok": 1, "leaf": {"fine": 1, "failOpt": null}}, "errors": [["leaf", "failOpt"]]}),
        json!({"schema": "static", "query": "{ ok leafOpt { fine failNn } }", "data": {"ok": 1, "leafOpt": null}, "errors": [["leafOpt", "failNn"]]}),
        json!({"schema": "static", "query": "{ ok leaf { failNn } }", "data": null, "errors": [["leaf", "failNn"]]}),
        json!({"schema": "static", "query": "{ ok leaves { fine failNn } }", "data": {"ok": 1, "leaves": [null, null]}, "errors": [["leaves", 0, "failNn"], ["leaves", 1, "failNn"]]}),
        json!({"schema": "static", "query": "{ leafOpt { a: failOpt b: failOpt fine } }", "data": {"leafOpt": {"a": null, "b": null, "fine": 1}}, "errors": [["leafOpt", "a"], ["leafOpt", "b"]]}),
        json!({"schema": "static", "query": "{ bad fatal }", "data": null, "errors": [["bad"], ["fatal"]]}),
        json!({"schema": "static", "query": "{ leafOpt { failNn } b: bad fatal }", "data": null, "errors": [["leafOpt", "failNn"], ["b"], ["fatal"]]}),
        json!({"schema": "static", "query": "{ ok vecErr }", "data": {"ok": 1, "vecErr": null}, "errors": [["vecErr", 1]]}),
        json!({"schema": "static_ext", "query": "{ ok vecErr }", "data": {"ok": 1, "vecErr": null}, "errors": [["vecErr", 1]]}),
        json!({"schema": "static_ext", "query": "{ ok bad }", "data": {"ok": 1, "bad": null}, "errors": [["bad"]]}),
        json!({"schema": "static_ext", "query": "{ ok leaves { fine failNn } }", "data": {"ok": 1, "leaves": [null, null]}, "errors": [["leaves", 0, "failNn"], ["leaves", 1, "failNn"]]}),
        // every nullable wrapper is a capturing position: Weak / Option<Arc> / Option<Box>
        json!({"schema": "static", "query": "{ ok weak { fine failNn } gone { fine } }", "data": {"ok": 1, "weak": null, "gone": null}, "errors": [["weak", "failNn"]]}),
        json!({"schema": "static", "query": "{ ok weak { fine failOpt } }", "data": {"ok": 1, "weak": {"fine": 1, "failOpt": null}}, "errors": [["weak", "failOpt"]]}),
        json!({"schema": "static", "query": "{ ok arc { failNn } boxed { failNn fine } }", "data": {"ok": 1, "arc": null, "boxed": null}, "errors": [["arc", "failNn"], ["boxed", "failNn"]]}),
        // aliases: the error is located at the alias, the path uses the response key
        json!({"schema": "static", "query": "{ ok leafOpt { x: failNn fine } }", "data": {"ok": 1, "leafOpt": null}, "errors": [["leafOpt", "x"]]}),
        json!({"schema": "static", "query": "{ ok z: leafOpt { fine } f: fatal }", "data": null, "errors": [["f"]]}),
        // derived merged objects: the member that owns the field decides, its error is an error
        json!({"schema": "merged", "query": "{ ok version soft }", "data": {"ok": 1, "version": 7, "soft": null}, "errors": [["soft"]]}),
        json!({"schema": "merged", "query": "{ version strict }", "data": null, "errors": [["strict"]]}),
        json!({"schema": "merged", "query": "{ ok child { a boom } }", "data": {"ok": 1, "child": null}, "errors": [["child", "boom"]]}),
        // subscription events: each response holds its own errors, whether or not the event failed as a whole
        json!({"schema": "subscription", "query": "subscription { events { n opt } }", "events": [
            {"data": {"events": {"n": 1, "opt": 1}}, "errors": []}, {"data": {"events": {"n": 2, "opt": null}}, "errors": [["events", "opt"]]}, {"data": {"events": {"n": 3, "opt": 3}}, "errors": []}]}),
        json!({"schema": "subscription", "query": "subscription { events { n soft { failNn } hard } }", "events": [
            {"data": null, "errors": [["events", "hard"], ["events", "soft", "failNn"]]}, {"data": {"events": {"n": 2, "soft": null, "hard": 2}}, "errors": []}, {"data": {"events": {"n": 3, "soft": null, "hard": 3}}, "errors": []}]}),
        json!({"schema": "dynamic", "query": "{ ok }", "data": {"ok": 1}, "errors": []}),
        json!({"schema": "dynamic", "query": "{ ok leaf { fine } }", "data": {"ok": 1, "leaf": {"fine": 1}}, "errors": []}),
    ];
    if !has("C03-list-item-error-path") {
        v.push(json!({"schema": "static", "query": "{ ok leavesNn { fine failNn } }", "data": {"ok": 1, "leavesNn": null}, "errors": [["leavesNn", 0, "failNn"]]}));
    }
    if !has("C03-result-outside-option-propagates") {
        v.push(json!({"schema": "static", "query": "{ ok bad2 }", "data": {"ok": 1, "bad2": null}, "errors": [["bad2"]]}));
    }
    if !has("C03-dynamic-errors-propagate") {
        v.push(json!({"schema": "dynamic", "query": "{ ok bad }", "data": {"ok": 1, "bad": null}, "errors": [["bad"]]}));
        v.push(json!({"schema": "dynamic", "query": "{ ok leafOpt { fine failNn } }", "data": {"ok": 1, "leafOpt": null}, "errors": [["leafOpt", "failNn"]]}));
        v.push(json!({"schema": "dynamic", "query": "{ ok leaf { fine failOpt } }", "data": {"ok": 1, "leaf": {"fine": 1, "failOpt": null}}, "errors": [["leaf", "failOpt"]]}));
    }
    v.into_iter()
}
