//! C21: the text produced by ExtensionContext::stringify_execute_doc must not contain any secret argument / secret input field value.
use crate::Outcome;
use async_graphql::{
    extensions::{Extension, ExtensionContext, ExtensionFactory, NextParseQuery},
    parser::types::ExecutableDocument,
    *,
};
use futures_util::{FutureExt, StreamExt};
use serde_json::{json, Value};
use std::sync::{Arc, Mutex};

#[derive(Default, Clone)]
struct Captured(Arc<Mutex<Vec<String>>>);
struct CaptureImpl(Captured);
#[async_graphql::async_trait::async_trait]
impl Extension for CaptureImpl {
    async fn parse_query(&self, ctx: &ExtensionContext<'_>, query: &str, variables: &Variables, next: NextParseQuery<'_>) -> ServerResult<ExecutableDocument> {
        let doc = next.run(ctx, query, variables).await?;
        self.0 .0.lock().unwrap().push(ctx.stringify_execute_doc(&doc, variables));
        Ok(doc)
    }
}
struct Capture(Captured);
impl ExtensionFactory for Capture { fn create(&self) -> Arc<dyn Extension> { Arc::new(CaptureImpl(self.0.clone())) } }

#[derive(InputObject)]
struct Cred { user: String, #[graphql(secret)] password: String }
#[derive(InputObject)]
struct Wrap { cred: Cred, note: Option<String> }
struct Account;
#[Object]
impl Account { async fn unlock(&self, #[graphql(secret)] pin: String) -> bool { !pin.is_empty() } async fn id(&self) -> i32 { 1 } }
struct Query;
#[Object]
impl Query {
    async fn login(&self, user: String, #[graphql(secret)] token: String) -> bool { !user.is_empty() && !token.is_empty() }
    async fn auth(&self, cred: Cred) -> bool { !cred.user.is_empty() && !cred.password.is_empty() }
    async fn deep(&self, w: Wrap) -> bool { w.note.is_none() || !w.cred.password.is_empty() }
    async fn account(&self) -> Account { Account }
    async fn multi(&self, creds: Vec<Cred>) -> i32 { creds.len() as i32 }
}
struct Mutation;
#[Object]
impl Mutation { async fn set_pin(&self, #[graphql(secret)] pin: String) -> bool { !pin.is_empty() } async fn enroll(&self, cred: Cred) -> bool { !cred.user.is_empty() } }
struct Subscription;
#[Subscription]
impl Subscription {
    async fn watch(&self, #[graphql(secret)] key: String) -> impl futures_util::Stream<Item = i32> { futures_util::stream::iter(vec![key.len() as i32]) }
    async fn watch2(&self, cred: Cred) -> impl futures_util::Stream<Item = i32> { futures_util::stream::iter(vec![cred.user.len() as i32]) }
}

/// args {"query": "... HUNTER2 ...", "variables": {...}, "stream": bool}; the marker HUNTER2 is only ever placed in secret positions
pub fn redact(args: &Value) -> Outcome {
    let captured = Captured::default();
    let schema = Schema::build(Query, Mutation, Subscription).extension(Capture(captured.clone())).finish();
    let mut req = Request::new(args["query"].as_str().unwrap());
    if let Some(v) = args.get("variables") { if !v.is_null() { req = req.variables(Variables::from_json(v.clone())); } }
    let errs: Vec<String> = if args["stream"].as_bool().unwrap_or(false) {
        let mut s = schema.execute_stream(req);
        let first = s.next().now_or_never().flatten();
        first.map(|r| r.errors.iter().map(|e| e.message.clone()).collect()).unwrap_or_default()
    } else {
        schema.execute(req).now_or_never().unwrap().errors.iter().map(|e| e.message.clone()).collect()
    };
    let logs = captured.0.lock().unwrap().clone();
    let leaked: Vec<&String> = logs.iter().filter(|l| l.contains("HUNTER2")).collect();
    Outcome { holds: errs.is_empty() && logs.len() == 1 && leaked.is_empty(),
              observed: format!("logged {:?} errors {:?}", logs, errs), expected: "one logged text, without the secret marker HUNTER2".into() }
}

pub fn inputs(_seed: u64, open: &[String]) -> impl Iterator<Item = Value> {
    let has = |id: &str| open.iter().any(|x| x == id);
    let mut v = vec![
        json!({"query": "{ login(user: \"bob\", token: \"HUNTER2\") }"}),
        json!({"query": "{ first: login(user: \"bob\", token: \"HUNTER2\") }"}),
        json!({"query": "{ login: auth(cred: {user: \"u\", password: \"HUNTER2\"}) }"}),
        json!({"query": "{ auth(cred: {user: \"u\", password: \"HUNTER2\"}) }"}),
        json!({"query": "{ a: auth(cred: {password: \"HUNTER2\", user: \"u\"}) b: login(token: \"HUNTER2\", user: \"x\") }"}),
        json!({"query": "{ deep(w: {cred: {user: \"u\", password: \"HUNTER2\"}, note: \"n\"}) }"}),
        json!({"query": "{ account { unlock(pin: \"HUNTER2\") id } }"}),
        json!({"query": "{ acc: account { u: unlock(pin: \"HUNTER2\") } }"}),
        json!({"query": "query Q($t: String!) { login(user: \"bob\", token: $t) }", "variables": {"t": "HUNTER2"}}),
        json!({"query": "query Q($c: Cred!) { x: auth(cred: $c) }", "variables": {"c": {"user": "u", "password": "HUNTER2"}}}),
        json!({"query": "{ ... on Query { login(user: \"bob\", token: \"HUNTER2\") } }"}),
        json!({"query": "{ ...F } fragment F on Query { l: login(user: \"bob\", token: \"HUNTER2\") account { unlock(pin: \"HUNTER2\") } }"}),
        json!({"query": "mutation { setPin(pin: \"HUNTER2\") }"}),
        json!({"query": "mutation { m: enroll(cred: {user: \"u\", password: \"HUNTER2\"}) }"}),
        json!({"query": "subscription { watch(key: \"HUNTER2\") }", "stream": true}),
        json!({"query": "subscription { w: watch2(cred: {user: \"u\", password: \"HUNTER2\"}) }", "stream": true}),
    ];
    if !has("C21-secrets-in-lists") {
        v.push(json!({"query": "{ multi(creds: [{user: \"u\", password: \"HUNTER2\"}, {user: \"v\", password: \"HUNTER2\"}]) }"}));
        v.push(json!({"query": "query Q($c: [Cred!]!) { m: multi(creds: $c) }", "variables": {"c": [{"user": "u", "password": "HUNTER2"}]}}));
    }
    if !has("C21-untyped-inline-fragment") { v.push(json!({"query": "{ ... { login(user: \"bob\", token: \"HUNTER2\") } }"})); }
    if !has("C21-variable-defaults") { v.push(json!({"query": "query Q($c: Cred = {user: \"u\", password: \"HUNTER2\"}) { auth(cred: $c) }"})); }
    v.into_iter()
}
