//! C32: cursor round trips and pagination argument checks through the public connection API.
use crate::Outcome;
use async_graphql::connection::{query_with, Connection, CursorType, EmptyFields, OpaqueCursor};
use futures_util::FutureExt;
use serde_json::{json, Value};
use std::sync::atomic::{AtomicUsize, Ordering};

fn rt<T: CursorType + PartialEq + std::fmt::Debug + Clone>(x: T) -> Option<String> where T::Error: std::fmt::Debug {
    let e = x.encode_cursor();
    match T::decode_cursor(&e) { Ok(y) if y == x => None, other => Some(format!("{:?} -> {:?} -> {:?}", x, e, other)) }
}

/// args {"kind": "roundtrip"} | {"kind": "query", "after": s|null, "before": s|null, "first": n|null, "last": n|null}
pub fn connection(args: &Value) -> Outcome {
    if args["kind"] == "roundtrip" {
        let mut bad = Vec::new();
        for x in [0usize, 1, 42, usize::MAX] { if let Some(b) = rt(x) { bad.push(b); } }
        for x in [0i32, -1, i32::MIN, i32::MAX] { if let Some(b) = rt(x) { bad.push(b); } }
        for x in [0i64, i64::MIN, i64::MAX] { if let Some(b) = rt(x) { bad.push(b); } }
        for x in ["", "a", "\u{1F600} x", "a:b/c="] { if let Some(b) = rt(x.to_string()) { bad.push(b); } }
        for x in [0.0f64, -1.5, 1e300, f64::MIN_POSITIVE] { if let Some(b) = rt(x) { bad.push(b); } }
        for x in [(1i32, "k".to_string()), (-5, "\u{e9}\"".to_string())] {
            let c = OpaqueCursor(x.clone()); let e = c.encode_cursor();
            match OpaqueCursor::<(i32, String)>::decode_cursor(&e) { Ok(y) if y.0 == x => {}, other => bad.push(format!("opaque {:?} -> {} -> {:?}", x, e, other.map(|o| o.0).map_err(|e| e.to_string()))) }
        }
        // opaque cursors over strings whose JSON bytes hit every base64 symbol (incl. the two alphabet-specific ones) and every padding length
        let mut strs: Vec<String> = vec!["?".into(), ">".into(), "~".into(), "??".into(), ">>>".into(), "~~~~".into(), "\u{e9}".into(), "\u{4e2d}\u{6587}".into(), "\u{1F600}".into(), "a?b>c~".into(), "\u{ff}\u{fe}".into()];
        let mut r = crate::rng::Rng(args["seed"].as_u64().unwrap_or(0) ^ 0x32);
        for _ in 0..60 { let n = r.below(7); strs.push((0..n).map(|_| char::from_u32(match r.below(4) { 0 => 0x20 + r.below(0x5f) as u32, 1 => 0x3e + r.below(2) as u32, 2 => 0xa0 + r.below(0x60) as u32, _ => 0x4e00 + r.below(0x100) as u32 }).unwrap()).collect()); }
        for x in &strs {
            let c = OpaqueCursor(x.clone()); let e = c.encode_cursor();
            match OpaqueCursor::<String>::decode_cursor(&e) { Ok(y) if &y.0 == x => {}, other => bad.push(format!("opaque {:?} -> {} -> {:?}", x, e, other.map(|o| o.0).map_err(|e| e.to_string()))) }
            let c2 = OpaqueCursor(vec![x.clone(), x.clone()]); let e2 = c2.encode_cursor();
            match OpaqueCursor::<Vec<String>>::decode_cursor(&e2) { Ok(y) if y.0 == vec![x.clone(), x.clone()] => {}, other => bad.push(format!("opaque [{:?};2] -> {} -> {:?}", x, e2, other.map(|o| o.0).map_err(|e| e.to_string()))) }
            if let Some(b) = rt(x.clone()) { bad.push(b); }
            if let Some(b) = rt(async_graphql::ID(x.clone())) { bad.push(b); }
        }
        for x in ['a', '?', '\u{1F600}', ' '] { if let Some(b) = rt(x) { bad.push(b); } }
        for x in [true, false] { if let Some(b) = rt(x) { bad.push(b); } }
        for x in [0u8, 255] { if let Some(b) = rt(x) { bad.push(b); } }
        for x in [i128::MIN, u64::MAX as i128] { if let Some(b) = rt(x) { bad.push(b); } }
        for x in [0.5f32, f32::MAX, -0.0] { if let Some(b) = rt(x) { bad.push(b); } }
        return Outcome { holds: bad.is_empty(), observed: if bad.is_empty() { "all cursors round-trip".into() } else { bad.join("; ") }, expected: "decode(encode(x)) == x".into() };
    }
    let s = |k: &str| args[k].as_str().map(|x| x.to_string());
    let n = |k: &str| args[k].as_i64().map(|x| x as i32);
    if args["kind"] == "query_str" {
        let mut got: Option<(Option<String>, Option<String>, Option<usize>, Option<usize>)> = None;
        let r = query_with::<String, _, _, _, _>(s("after"), s("before"), n("first"), n("last"), |a, b, f, l| { got = Some((a, b, f, l));
            async move { Ok::<_, async_graphql::Error>(Connection::<String, i32, EmptyFields, EmptyFields>::new(false, false)) } }).now_or_never().unwrap();
        let neg = n("first").map(|x| x < 0).unwrap_or(false) || n("last").map(|x| x < 0).unwrap_or(false);
        let exp = if neg { None } else { Some((s("after"), s("before"), n("first").map(|x| x as usize), n("last").map(|x| x as usize))) };
        let holds = match &exp { None => r.is_err() && got.is_none(), Some(e) => r.is_ok() && got.as_ref() == Some(e) };
        return Outcome { holds, observed: format!("ok={} args={:?}", r.is_ok(), got), expected: format!("{:?}", exp) };
    }
    let called = AtomicUsize::new(0);
    let mut got: Option<(Option<usize>, Option<usize>, Option<usize>, Option<usize>)> = None;
    let r = query_with::<usize, _, _, _, _>(s("after"), s("before"), n("first"), n("last"), |a, b, f, l| { called.fetch_add(1, Ordering::SeqCst); got = Some((a, b, f, l));
        async move { Ok::<_, async_graphql::Error>(Connection::<usize, i32, EmptyFields, EmptyFields>::new(false, false)) } }).now_or_never().unwrap();
    let dec = |x: Option<String>| -> Result<Option<usize>, ()> { match x { None => Ok(None), Some(t) => t.parse::<usize>().map(Some).map_err(|_| ()) } };
    let neg = n("first").map(|x| x < 0).unwrap_or(false) || n("last").map(|x| x < 0).unwrap_or(false);
    let exp: Option<(Option<usize>, Option<usize>, Option<usize>, Option<usize>)> = if neg { None } else { match (dec(s("after")), dec(s("before"))) {
        (Ok(a), Ok(b)) => Some((a, b, n("first").map(|x| x as usize), n("last").map(|x| x as usize))), _ => None } };
    let calls = called.load(Ordering::SeqCst);
    let holds = match &exp { None => r.is_err() && calls == 0, Some(e) => r.is_ok() && calls == 1 && got.as_ref() == Some(e) };
    Outcome { holds, observed: format!("ok={} calls={} args={:?}", r.is_ok(), calls, got), expected: format!("{:?}", exp) }
}

pub fn inputs(_seed: u64) -> impl Iterator<Item = Value> {
    let mut v = vec![json!({"kind": "roundtrip", "seed": _seed})];
    for a in [json!(null), json!(""), json!("x"), json!(" ")] { for b in [json!(null), json!(""), json!("y")] { for f in [json!(null), json!(0), json!(3), json!(-2)] {
        v.push(json!({"kind": "query_str", "after": a, "before": b, "first": f, "last": null}));
        v.push(json!({"kind": "query_str", "after": a, "before": b, "first": null, "last": f})); } } }
    let curs = [json!(null), json!("0"), json!("17"), json!("x"), json!("-1"), json!(""), json!("18446744073709551616")];
    let nums = [json!(null), json!(0), json!(1), json!(10), json!(-1), json!(i32::MIN), json!(i32::MAX)];
    for a in &curs { for f in &nums { v.push(json!({"kind": "query", "after": a, "before": null, "first": f, "last": null})); } }
    for b in &curs { for l in &nums { v.push(json!({"kind": "query", "after": null, "before": b, "first": null, "last": l})); } }
    v.push(json!({"kind": "query", "after": "1", "before": "9", "first": 2, "last": 3}));
    v.push(json!({"kind": "query", "after": "1", "before": "z", "first": 2, "last": -3}));
    v.into_iter()
}
