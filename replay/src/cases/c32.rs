//! C32: cursor round trips and pagination argument checks through the public connection API.
use crate::Outcome;
use async_graphql::connection::{query_with, Connection, CursorType, EmptyFields, OpaqueCursor};
use futures_util::FutureExt;
use serde_json::{json, Value};
use std::sync::atomic::{AtomicUsize, Ordering};

fn rt<T: CursorType + PartialEq + std::fmt::Debug + Clone>(x: T) -> Option<String> where T::Error: std::fmt::Debug {
    let e = x.encode_cursor();
    match T::decode_cursor(&e) { Ok(y) if y == x => None, other => Some(format!("{:?} -> {:?} -> {:?}", x, e, other)) }
}

/// args {"kind": "roundtrip"} | {"kind": "query", "after": s|null, "before": s|null, "first": n|null, "last": n|null}
pub fn connection(args: &Value) -> Outcome {
    if args["kind"] == "roundtrip" {
        let mut bad = Vec::new();
        for x in [0usize, 1, 42, usize::MAX] { if let Some(b) = rt(x) { bad.push(b); } }
        for x in [0i32, -1, i32::MIN, i32::MAX] { if let Some(b) = rt(x) { bad.push(b); } }
        for x in [0i64, i64::MIN, i64::MAX] { if let Some(b) = rt(x) { bad.push(b); } }
        for x in ["", "a", "\u{1F600} x", "a:b/c="] { if let Some(b) = rt(x.to_string()) { bad.push(b); } }
        for x in [0.0f64, -1.5, 1e300, f64::MIN_POSITIVE] { if let Some(b) = rt(x) { bad.push(b); } }
        for x in [(1i32, "k".to_string()), (-5, "\u{e9}\"".to_string())] {
            let c = OpaqueCursor(x.clone()); let e = c.encode_cursor();
            match OpaqueCursor::<(i32, String)>::decode_cursor(&e) { Ok(y) if y.0 == x => {}, other => bad.push(format!("opaque {:?} -> {} -> {:?}", x, e, other.map(|o| o.0).map_err(|e| e.to_string()))) }
        }
        return Outcome { holds: bad.is_empty(), observed: if bad.is_empty() { "all cursors round-trip".into() } else { bad.join("; ") }, expected: "decode(encode(x)) == x".into() };
    }
    let s = |k: &str| args[k].as_str().map(|x| x.to_string());
    let n = |k: &str| args[k].as_i64().map(|x| x as i32);
    let called = AtomicUsize::new(0);
    let mut got: Option<(Option<usize>, Option<usize>, Option<usize>, Option<usize>)> = None;
    let r = query_with::<usize, _, _, _, _>(s("after"), s("before"), n("first"), n("last"), |a, b, f, l| { called.fetch_add(1, Ordering::SeqCst); got = Some((a, b, f, l));
        async move { Ok::<_, async_graphql::Error>(Connection::<usize, i32, EmptyFields, EmptyFields>::new(false, false)) } }).now_or_never().unwrap();
    let dec = |x: Option<String>| -> Result<Option<usize>, ()> { match x { None => Ok(None), Some(t) => t.parse::<usize>().map(Some).map_err(|_| ()) } };
    let neg = n("first").map(|x| x < 0).unwrap_or(false) || n("last").map(|x| x < 0).unwrap_or(false);
    let exp: Option<(Option<usize>, Option<usize>, Option<usize>, Option<usize>)> = if neg { None } else { match (dec(s("after")), dec(s("before"))) {
        (Ok(a), Ok(b)) => Some((a, b, n("first").map(|x| x as usize), n("last").map(|x| x as usize))), _ => None } };
    let calls = called.load(Ordering::SeqCst);
    let holds = match &exp { None => r.is_err() && calls == 0, Some(e) => r.is_ok() && calls == 1 && got.as_ref() == Some(e) };
    Outcome { holds, observed: format!("ok={} calls={} args={:?}", r.is_ok(), calls, got), expected: format!("{:?}", exp) }
}

pub fn inputs(_seed: u64) -> impl Iterator<Item = Value> {
    let mut v = vec![json!({"kind": "roundtrip"})];
    let curs = [json!(null), json!("0"), json!("17"), json!("x"), json!("-1"), json!(""), json!("18446744073709551616")];
    let nums = [json!(null), json!(0), json!(1), json!(10), json!(-1), json!(i32::MIN), json!(i32::MAX)];
    for a in &curs { for f in &nums { v.push(json!({"kind": "query", "after": a, "before": null, "first": f, "last": null})); } }
    for b in &curs { for l in &nums { v.push(json!({"kind": "query", "after": null, "before": b, "first": null, "last": l})); } }
    v.push(json!({"kind": "query", "after": "1", "before": "9", "first": 2, "last": 3}));
    v.push(json!({"kind": "query", "after": "1", "before": "z", "first": 2, "last": -3}));
    v.into_iter()
}
