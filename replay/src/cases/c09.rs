//! C09: strict validation on a derive-built schema: a document the spec calls invalid must be rejected BEFORE any resolver runs;
//! a valid one must not be rejected. Hand-labelled table (bounded stand-in for the 22 rules + visitor driver).
use crate::Outcome;
use async_graphql::*;
use futures_util::FutureExt;
use serde_json::{json, Value};
use std::sync::atomic::{AtomicUsize, Ordering};

static RAN: AtomicUsize = AtomicUsize::new(0);

#[derive(InputObject)]
struct Inp { a: i32, b: Option<String> }
#[derive(SimpleObject)]
struct Pet { name: String, age: i32 }
struct Query;
#[Object]
impl Query {
    async fn value(&self) -> i32 { RAN.fetch_add(1, Ordering::SeqCst); 1 }
    async fn add(&self, a: i32, b: Option<i32>) -> i32 { RAN.fetch_add(1, Ordering::SeqCst); a + b.unwrap_or(0) }
    async fn need_str(&self, s: String) -> String { RAN.fetch_add(1, Ordering::SeqCst); s }
    async fn opt_list(&self, l: Option<Vec<i32>>) -> i32 { RAN.fetch_add(1, Ordering::SeqCst); l.map(|x| x.len() as i32).unwrap_or(-1) }
    async fn inp(&self, i: Inp) -> i32 { RAN.fetch_add(1, Ordering::SeqCst); i.a }
    async fn pet(&self) -> Pet { RAN.fetch_add(1, Ordering::SeqCst); Pet { name: "p".into(), age: 3 } }
}

/// args {"query": "...", "variables": {...}, "valid": bool}
pub fn validate(args: &Value) -> Outcome {
    let schema = Schema::new(Query, EmptyMutation, EmptySubscription);
    let mut req = Request::new(args["query"].as_str().unwrap());
    if let Some(op) = args["operation"].as_str() { req = req.operation_name(op); }
    if let Some(v) = args.get("variables") { if !v.is_null() { req = req.variables(Variables::from_json(v.clone())); } }
    RAN.store(0, Ordering::SeqCst);
    let resp = schema.execute(req).now_or_never().unwrap();
    let ran = RAN.load(Ordering::SeqCst);
    let valid = args["valid"].as_bool().unwrap();
    let rejected_before_execution = !resp.errors.is_empty() && ran == 0 && resp.errors.iter().all(|e| e.path.is_empty());
    let holds = if valid { resp.errors.is_empty() } else { rejected_before_execution };
    Outcome { holds, observed: format!("errors={:?} resolvers_run={}", resp.errors.iter().map(|e| e.message.clone()).collect::<Vec<_>>(), ran),
              expected: if valid { "accepted, no errors".into() } else { "rejected by validation, no resolver invoked".into() } }
}

pub fn inputs(_seed: u64, open: &[String]) -> impl Iterator<Item = Value> {
    let skip_var_pos = open.iter().any(|x| x == "C09-composite-drops-input-value-hooks");
    let mut v = vec![
        json!({"query": "{ value }", "valid": true}),
        json!({"query": "{ v: value add(a: 1) }", "valid": true}),
        json!({"query": "{ add(a: 1) add(a: 1) }", "valid": true}),
        json!({"query": "{ add(a: 1, b: 2) x: add(a: 2) }", "valid": true}),
        json!({"query": "{ ... { value pet { name } } }", "valid": true}),
        json!({"query": "{ ... on Query { pet { n: name age } } }", "valid": true}),
        json!({"query": "query($a: Int!) { add(a: $a) }", "variables": {"a": 2}, "valid": true}),
        json!({"query": "query($l: [Int!]) { optList(l: $l) }", "variables": {"l": [1, 2]}, "valid": true}),
        json!({"query": "{ inp(i: {a: 1, b: \"x\"}) }", "valid": true}),
        json!({"query": "{ ...F } fragment F on Query { value }", "valid": true}),
        // invalid documents
        json!({"query": "{ nope }", "valid": false}),
        json!({"query": "{ value { x } }", "valid": false}),
        json!({"query": "{ pet }", "valid": false}),
        json!({"query": "{ ... { value { x } } }", "valid": false}),
        json!({"query": "{ ... @include(if: true) { nope } }", "valid": false}),
        json!({"query": "{ ... { add } }", "valid": false}),
        json!({"query": "{ ... { add(a: \"s\") } }", "valid": false}),
        json!({"query": "{ add(a: 1) add(a: 2) }", "valid": false}),
        json!({"query": "{ add(a: 1) add(a: 1, b: 2) }", "valid": false}),
        json!({"query": "{ add(a: 1, b: 2) add(a: 1) }", "valid": false}),
        json!({"query": "{ add(a: 1, c: 3) }", "valid": false}),
        json!({"query": "{ add }", "valid": false}),
        json!({"query": "{ inp(i: {b: \"x\"}) }", "valid": false}),
        json!({"query": "{ inp(i: {a: 1, z: 2}) }", "valid": false}),
        json!({"query": "{ value @nope }", "valid": false}),
        json!({"query": "{ ...Missing }", "valid": false}),
        json!({"query": "{ value } fragment Unused on Query { value }", "valid": false}),
        json!({"query": "{ ...A } fragment A on Query { ...A }", "valid": false}),
        json!({"query": "query($a: Int) { value }", "valid": false}),
        json!({"query": "{ add(a: $undefined) }", "valid": false}),
        json!({"query": "{ value value2: value } { value }", "valid": false}),
        // values of correct type
        json!({"query": "{ inp(i: 5) }", "valid": false}),
        json!({"query": "{ inp(i: [{a: 1}]) }", "valid": false}),
        json!({"query": "{ inp(i: \"x\") }", "valid": false}),
        json!({"query": "query($i: Inp!) { inp(i: $i) }", "variables": {"i": 7}, "valid": false}),
        json!({"query": "{ add(a: 1.5) }", "valid": false}),
        json!({"query": "{ add(a: \"1\") }", "valid": false}),
        json!({"query": "{ optList(l: [1, \"x\"]) }", "valid": false}),
        json!({"query": "{ optList(l: 5) }", "valid": true}),
        json!({"query": "{ needStr(s: null) }", "valid": false}),
        json!({"query": "{ inp(i: {a: null}) }", "valid": false}),
        json!({"query": "{ add(a: 1, a: 2) }", "valid": false}),
        json!({"query": "query($a: Int!, $a: Int!) { add(a: $a) }", "variables": {"a": 1}, "valid": false}),
        json!({"query": "{ value ...F } fragment F on Pet { name }", "valid": false}),
        json!({"query": "{ pet { ... on Query { value } } }", "valid": false}),
        json!({"query": "query A { value } query A { value }", "valid": false}),
        json!({"query": "{ value @skip }", "valid": false}),
        json!({"query": "{ value @skip(if: 1) }", "valid": false}),
        json!({"query": "{ value @include(if: true) @include(if: true) }", "valid": false}),
        json!({"query": "query($a: Pet) { value }", "valid": false}),
        json!({"query": "fragment F on Int { x } { value }", "valid": false}),
        json!({"query": "mutation { value }", "valid": false}),
        json!({"query": "subscription { value }", "valid": false}),
    ];
    if !open.iter().any(|x| x == "C09-overlap-across-fragments") {
        v.push(json!({"query": "{ x: add(a: 1) ... on Query { x: add(a: 1, b: 2) } }", "valid": false}));
    }
    if !open.iter().any(|x| x == "C09-duplicate-input-object-fields") {
        v.push(json!({"query": "{ inp(i: {a: 1, a: 2}) }", "valid": false}));
    }
    if !open.iter().any(|x| x == "C09-selection-on-typename") {
        v.push(json!({"query": "{ __typename { x } }", "valid": false}));
    }
    // a null default for a non-null variable type is a default of the wrong type
    v.push(json!({"query": "query($n: Int! = null) { add(a: $n) }", "valid": false}));
    v.push(json!({"query": "query($l: [Int!]! = null) { optList(l: $l) }", "valid": false}));
    v.push(json!({"query": "query($l: [Int!] = [1, null]) { optList(l: $l) }", "valid": false}));
    v.push(json!({"query": "query($l: [Int!] = null) { optList(l: $l) }", "valid": true}));
    // several operations sharing a fragment: a variable used only through the fragment is used by EACH of them
    for op in ["A", "B"] {
        v.push(json!({"query": "query A($x: [Int!]) { ...F } query B($x: [Int!]) { ...F value } fragment F on Query { optList(l: $x) }", "operation": op, "valid": true}));
        v.push(json!({"query": "query A($x: [Int!]) { ...G } query B($x: [Int!]) { ...G } fragment G on Query { ...F } fragment F on Query { optList(l: $x) }", "operation": op, "valid": true}));
    }
    // unknown types in variable definitions, wrapped or not, with and without defaults
    for q in ["query($v: Foo) { value }", "query($v: [Foo]) { value }", "query($v: [Foo!]! = [1]) { value }", "query($v: [Foo] = [1]) { value }", "query($v: [[Foo]] = null) { value }", "query($v: Foo = 1) { value }"] {
        v.push(json!({"query": q, "valid": false}));
    }
    if !skip_var_pos {
        v.push(json!({"query": "query($i: Int) { value needStr(s: $i) }", "variables": {"i": 5}, "valid": false}));
        v.push(json!({"query": "query($i: Int) { value add(a: $i) }", "variables": {"i": 5}, "valid": false}));
    }
    v.into_iter()
}

// ------------------------------------------------------------------------------------------------------------------
// c09_subtype: registry::MetaTypeName::is_subtype vs the spec's AreTypesCompatible(variableType, locationType)
fn compatible(var: &str, loc: &str) -> bool {
    // spec (All Variable Usages Are Allowed): loc non-null => var non-null and inner compatible; var non-null => strip; both lists => items; else same name
    if let Some(l) = loc.strip_suffix('!') { return match var.strip_suffix('!') { Some(v) => compatible(v, l), None => false }; }
    if let Some(v) = var.strip_suffix('!') { return compatible(v, loc); }
    match (loc.strip_prefix('[').and_then(|x| x.strip_suffix(']')), var.strip_prefix('[').and_then(|x| x.strip_suffix(']'))) {
        (Some(l), Some(v)) => compatible(v, l),
        (None, None) => loc == var,
        _ => false,
    }
}
/// args {"position": "[A]", "variable": "[A]!"}
pub fn subtype(args: &Value) -> Outcome {
    use async_graphql::registry::MetaTypeName;
    let (p, v) = (args["position"].as_str().unwrap(), args["variable"].as_str().unwrap());
    let got = MetaTypeName::create(p).is_subtype(&MetaTypeName::create(v));
    let exp = compatible(v, p);
    Outcome { holds: got == exp, observed: format!("create({:?}).is_subtype(create({:?})) == {}", p, v, got), expected: format!("AreTypesCompatible(variable {}, position {}) == {}", v, p, exp) }
}
pub fn subtype_inputs(_seed: u64, open: &[String]) -> impl Iterator<Item = Value> {
    let skip = open.iter().any(|x| x == "C09-nonnull-list-variable-in-list-position");
    let mut ts: Vec<String> = vec!["A".into(), "B".into()];
    for _ in 0..3 { let mut next = ts.clone(); for t in &ts { if !t.ends_with('!') { next.push(format!("{}!", t)); } next.push(format!("[{}]", t)); } next.sort(); next.dedup(); ts = next.into_iter().filter(|t| t.len() <= 7).collect(); }
    let mut out = Vec::new();
    for a in &ts { for b in &ts {
        // region of the open finding: the variable type has a non-null LIST (`]!`) at a level where the position's list is nullable
        if skip && b.contains("]!") && compatible(b, a) && a != b { continue; }
        out.push(json!({"position": a, "variable": b})); } }
    out.into_iter()
}

/// C12: hostile but parseable documents through Schema::execute: any answer, never a panic (a panic is reported by the harness as a failed run)
pub fn hostile(args: &Value) -> Outcome {
    if let Some(n) = args["limits"].as_u64() {
        // every configured limit switched on: the pre-execution checks must themselves survive hostile documents (cyclic fragments ...)
        let schema = Schema::build(Query, EmptyMutation, EmptySubscription).limit_directives(n as usize).limit_depth(n as usize + 5).limit_complexity(100 * n as usize).limit_recursive_depth(16 + n as usize).finish();
        let resp = schema.execute(args["query"].as_str().unwrap()).now_or_never().unwrap();
        return Outcome { holds: true, observed: format!("errors={:?}", resp.errors.iter().map(|e| e.message.clone()).collect::<Vec<_>>()), expected: "an answer (data or errors), no panic / stack overflow".into() };
    }
    let o = validate(&json!({"query": args["query"], "variables": args["variables"], "valid": false}));
    Outcome { holds: true, observed: o.observed, expected: "an answer (data or errors), no panic".into() }
}
pub fn hostile_inputs(_seed: u64) -> impl Iterator<Item = Value> {
    vec![
        json!({"query": "query($v: [Foo] = [1]) { value }"}), json!({"query": "query($v: [Foo!]! = [[1]]) { value }"}), json!({"query": "query($v: [[Foo]] = [[1], 2]) { add(a: 1) }"}),
        json!({"query": "query($v: Foo = {a: 1}) { value }"}), json!({"query": "query($v: [Int] = [1, \"x\", [2]]) { optList(l: $v) }"}), json!({"query": "query($v: Inp = {a: {b: 1}}) { inp(i: $v) }"}),
        json!({"query": "query($v: [Inp!] = [{a: 1}, 5, null]) { value }"}), json!({"query": "{ inp(i: {a: 1, b: {c: [[[]]]}}) }"}), json!({"query": "{ add(a: 99999999999999999999) }"}), json!({"query": "{ add(a: 1e400) }"}),
        json!({"query": "query($a: Int!) { add(a: $a) }", "variables": {"a": {"x": [1, {"y": null}]}}}), json!({"query": "query($a: Int!) { add(a: $a) }", "variables": {"a": 1e308}}), json!({"query": "query($i: Inp!) { inp(i: $i) }", "variables": {"i": [[{"a": 1}]]}}),
        json!({"query": "{ value @skip(if: [true]) }"}), json!({"query": "{ value @include(if: $nope) }"}), json!({"query": "{ ...A } fragment A on Query { ...B } fragment B on Query { ...A value }"}),
        json!({"query": "query A { value } query B { value }"}),
        json!({"limits": 3, "query": "fragment A on Query { value ...A } { ...A }"}),
        json!({"limits": 3, "query": "{ ...A } fragment A on Query { ...B } fragment B on Query { ...C } fragment C on Query { ...A value @skip(if: false) }"}),
        json!({"limits": 1, "query": "{ pet { ...P } } fragment P on Pet { name ... on Pet { ...P } }"}),
        json!({"limits": 2, "query": "{ value @skip(if: false) @include(if: true) @skip(if: false) }"}), json!({"query": "{ __type(name: 5) { name } }"}), json!({"query": "{ __type(name: \"Nope\") { fields { name } } __schema { types { name } } }"}),
    ].into_iter()
}
