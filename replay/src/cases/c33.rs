//! C33: TypeRef::is_subtype vs. the spec's IsValidImplementationFieldType (named types identical).
use crate::{rng::Rng, Outcome};
use async_graphql::{dynamic::TypeRef, verif_hooks};
use serde_json::{json, Value};

fn parse(s: &str) -> TypeRef {
    if let Some(inner) = s.strip_suffix('!') { return TypeRef::NonNull(Box::new(parse(inner))); }
    if let Some(inner) = s.strip_prefix('[').and_then(|x| x.strip_suffix(']')) { return TypeRef::List(Box::new(parse(inner))); }
    TypeRef::named(s)
}
/// field = implementing type's field type, implemented = interface's
fn valid(field: &TypeRef, implemented: &TypeRef) -> bool {
    match field {
        TypeRef::NonNull(f) => match implemented { TypeRef::NonNull(i) => valid(f, i), _ => valid(f, implemented) },
        TypeRef::List(f) => match implemented { TypeRef::List(i) => valid(f, i), _ => false },
        TypeRef::Named(f) => match implemented { TypeRef::Named(i) => f == i, _ => false },
    }
}
/// args {"implemented": "[A]!", "field": "[A!]!"}
pub fn subtype(args: &Value) -> Outcome {
    let imp = parse(args["implemented"].as_str().unwrap());
    let fld = parse(args["field"].as_str().unwrap());
    let got = verif_hooks::typeref_is_subtype(&imp, &fld);
    let exp = valid(&fld, &imp);
    Outcome { holds: got == exp, observed: format!("({}).is_subtype({}) == {}", imp, fld, got), expected: format!("{}", exp) }
}
pub fn inputs(seed: u64) -> impl Iterator<Item = Value> {
    let mut ts: Vec<String> = vec!["A".into(), "B".into()];
    for _ in 0..3 {
        let mut next = ts.clone();
        for t in &ts { if !t.ends_with('!') { next.push(format!("{}!", t)); } next.push(format!("[{}]", t)); }
        next.sort(); next.dedup();
        ts = next.into_iter().filter(|t| t.len() <= 7).collect();
    }
    let mut out = Vec::new();
    let mut r = Rng(seed);
    for a in &ts { for b in &ts { if r.below(4) != 0 || a == b || a.len() + b.len() < 8 { out.push(json!({"implemented": a, "field": b})); } } }
    out.into_iter()
}

// ------------------------------------------------------------------------------------------------------------------
// c33_build: dynamic schemas written in a tiny SDL-like DSL, built with the real builder; hand-labelled valid / invalid
use async_graphql::dynamic::*;

fn tref(s: &str) -> TypeRef { parse(s.trim()) }
/// "T" or "T = 1" (integer default)
fn arg(name: &str, ty: &str) -> InputValue {
    match ty.split_once('=') { Some((t, d)) => InputValue::new(name.to_string(), tref(t)).default_value(async_graphql::Value::from(d.trim().parse::<i32>().unwrap())), None => InputValue::new(name.to_string(), tref(ty)) }
}
/// "kind Name [implements A & B] { f(arg: T): T, ... }" | "union U = A | B" | "enum E { X, Y }" | "scalar S"
fn build(defs: &[&str], query: &str) -> Result<Schema, SchemaError> {
    let mut b = Schema::build(query, None, None);
    for d in defs {
        let d = d.trim();
        let (head, body) = match d.find('{') { Some(i) => (&d[..i], d[i + 1..].trim_end_matches('}').trim()), None => (d, "") };
        let mut hw = head.split_whitespace();
        let kind = hw.next().unwrap(); let name = hw.next().unwrap();
        let rest: Vec<&str> = hw.collect();
        let fields: Vec<(String, Vec<(String, String)>, String)> = (if kind == "enum" || kind == "union" || kind == "scalar" { "" } else { body }).split(';').map(|f| f.trim()).filter(|f| !f.is_empty()).map(|f| {
            // name(arg: T, ..): T
            let (lhs, ty) = f.rsplit_once(':').unwrap();
            let (lhs, ty) = if lhs.contains('(') && !lhs.contains(')') { let i = f.rfind("):").unwrap(); (&f[..i + 1], &f[i + 2..]) } else { (lhs, ty) };
            let (fname, args) = match lhs.find('(') { Some(i) => (&lhs[..i], lhs[i + 1..].trim_end_matches(')').split(',').filter(|a| !a.trim().is_empty()).map(|a| { let (n, t) = a.split_once(':').unwrap(); (n.trim().to_string(), t.trim().to_string()) }).collect()), None => (lhs, vec![]) };
            (fname.trim().to_string(), args, ty.trim().to_string()) }).collect();
        match kind {
            "type" => { let mut o = Object::new(name);
                for r in rest.iter().filter(|x| **x != "implements" && **x != "&") { o = o.implement(*r); }
                for (f, args, ty) in &fields { let mut fd = Field::new(f.clone(), tref(ty), |_| FieldFuture::new(async { Ok(None::<async_graphql::Value>) }));
                    for (an, at) in args { fd = fd.argument(arg(an, at)); } o = o.field(fd); }
                b = b.register(o); }
            "interface" => { let mut o = Interface::new(name);
                for r in rest.iter().filter(|x| **x != "implements" && **x != "&") { o = o.implement(*r); }
                for (f, args, ty) in &fields { let mut fd = InterfaceField::new(f.clone(), tref(ty));
                    for (an, at) in args { fd = fd.argument(arg(an, at)); } o = o.field(fd); }
                b = b.register(o); }
            "input" => { let mut o = InputObject::new(name); for (f, _, ty) in &fields { o = o.field(InputValue::new(f.clone(), tref(ty))); } b = b.register(o); }
            "union" => { let mut u = Union::new(name); for m in d.split_once('=').unwrap().1.split('|') { u = u.possible_type(m.trim()); } b = b.register(u); }
            "enum" => { let mut e = Enum::new(name); for i in body.split(',').map(|x| x.trim()).filter(|x| !x.is_empty()) { e = e.item(i); } b = b.register(e); }
            "scalar" => { b = b.register(Scalar::new(name)); }
            _ => panic!("bad def {}", d),
        }
    }
    b.finish()
}

/// args {"defs": ["type Query { a: Int }", ...], "query": "Query", "valid": bool}
pub fn build_case(args: &Value) -> Outcome {
    let defs: Vec<&str> = args["defs"].as_array().unwrap().iter().map(|x| x.as_str().unwrap()).collect();
    let r = build(&defs, args["query"].as_str().unwrap_or("Query"));
    let exp = args["valid"].as_bool().unwrap();
    let mut holds = r.is_ok() == exp;
    let mut obs = match &r { Ok(_) => "builds".to_string(), Err(e) => format!("rejected: {}", e) };
    if let (Ok(s), true) = (&r, exp) {
        // every schema that builds can be exported and introspected without panicking
        let sdl = s.sdl();
        let resp = futures_util::FutureExt::now_or_never(s.execute("{ __schema { types { name kind fields { name type { name kind ofType { name } } } possibleTypes { name } inputFields { name } } } }")).unwrap();
        if !resp.errors.is_empty() || sdl.is_empty() { holds = false; obs = format!("builds but introspection/export failed: {:?}", resp.errors); }
    }
    Outcome { holds, observed: obs, expected: if exp { "builds (valid type system)".into() } else { "rejected (invalid type system)".into() } }
}

pub fn build_inputs(_seed: u64, open: &[String]) -> impl Iterator<Item = Value> {
    let has = |id: &str| open.iter().any(|x| x == id);
    let q = "type Query { a(x: A): Int }";
    let ok = |defs: Vec<&str>| json!({"defs": defs, "valid": true});
    let bad = |defs: Vec<&str>| json!({"defs": defs, "valid": false});
    let mut v = vec![
        ok(vec!["type Query { a: Int }"]),
        bad(vec!["type Q2 { a: Int }"]),                                              // root type missing
        bad(vec!["input Query { a: Int }"]),                                          // root type not an object
        bad(vec!["type Query { a: Missing }"]),                                       // unknown field type
        bad(vec!["type Query { a: In }", "input In { x: Int }"]),                     // field type must be an output type
        bad(vec!["type Query { a(x: Out): Int }", "type Out { x: Int }"]),            // argument type must be an input type
        ok(vec!["type Query { a(x: In, e: E): E }", "input In { x: [Int!]!; e: E }", "enum E { X, Y }"]),
        // input object cycles of required fields
        ok(vec![q, "input A { b: B }", "input B { a: A! }"]),
        ok(vec![q, "input A { b: [B!]! }", "input B { a: A! }"]),
        bad(vec![q, "input A { a: A! }"]),
        bad(vec![q, "input A { b: B! }", "input B { a: A! }"]),
        bad(vec![q, "input A { leaf: Leaf!; b: B! }", "input B { a: A! }", "input Leaf { n: Int }"]),
        bad(vec![q, "input C { leaf: Leaf!; b: B! }", "input B { leaf: Leaf!; a: A! }", "input Leaf { n: Int }", "input A { x: String; leaf: Leaf!; c: C! }"]),
        ok(vec![q, "input A { leaf: Leaf!; b: B! }", "input B { a: A }", "input Leaf { n: Int }"]),
        bad(vec![q, "input A { l1: Leaf!; l2: Leaf!; b: B! }", "input B { l: Leaf!; c: C! }", "input C { l: Leaf!; a: A! }", "input Leaf { n: Int }"]),
        // unions
        ok(vec!["type Query { u: U }", "union U = P | R", "type P { x: Int }", "type R { y: Int }"]),
        bad(vec!["type Query { u: U }", "union U = P | Node", "type P implements Node { id: ID! }", "interface Node { id: ID! }"]),
        bad(vec!["type Query { u: U }", "union U = P | S", "type P { x: Int }", "scalar S"]),
        bad(vec!["type Query { u: U }", "union U = P | E", "type P { x: Int }", "enum E { X }"]),
        bad(vec!["type Query { u: U }", "union U = P | V", "union V = P", "type P { x: Int }"]),
        bad(vec!["type Query { u: U }", "union U = P | In", "type P { x: Int }", "input In { x: Int }"]),
        // interface implementations
        ok(vec!["type Query { n: Node }", "interface Node { id: ID!; f(a: Int): [Int] }", "type P implements Node { id: ID!; f(a: Int): [Int!]; extra: Int }"]),
        bad(vec!["type Query { n: Node }", "interface Node { id: ID! }", "type P implements Node { x: Int }"]),                       // missing field
        bad(vec!["type Query { n: Node }", "interface Node { id: ID! }", "type P implements Node { id: ID }"]),                      // nullable where non-null required
        bad(vec!["type Query { n: Node }", "interface Node { id: ID! }", "type P implements Node { id: Int! }"]),                    // different named type
        bad(vec!["type Query { n: Node }", "interface Node { f(a: Int): Int }", "type P implements Node { f(a: String): Int }"]),   // argument type differs
        ok(vec!["type Query { n: Node }", "interface Node { f: Int }", "type P implements Node { f(extra: Int): Int }"]),
        bad(vec!["type Query { n: Int }", "type P implements Nope { x: Int }"]),                                                     // unknown interface
        bad(vec!["type Query { n: Int }", "type P implements Q2 { x: Int }", "type Q2 { x: Int }"]),                                 // implements a non-interface
        bad(vec!["type Query { n: Node }", "interface Node { f(a: Int!): Int }", "type P implements Node { f: Int }"]),              // missing required argument
        // every mentioned type exists (fields, arguments, interface fields, input fields, union members, implemented interfaces)
        bad(vec!["type Query { a(x: Missing): Int }"]),
        bad(vec!["type Query { n: Node }", "interface Node { f: Missing }", "type P implements Node { f: Int }"]),
        bad(vec!["type Query { n: Node }", "interface Node { f(a: Missing): Int }", "type P implements Node { f(a: Int): Int }"]),
        bad(vec!["type Query { a(x: In): Int }", "input In { f: Missing }"]),
        bad(vec!["type Query { u: U }", "union U = P | Missing", "type P { x: Int }"]),
        bad(vec!["type Query { n: Node }", "interface Node { children(filter: Missing): [Node!] }", "type Folder implements Node { children: [Node!] }"]),       // unknown argument type on an interface field nobody repeats
        bad(vec!["type Query { s: Shape }", "interface Shape { area(scale: Int! = 1): Int }", "type Square implements Shape { area: Int }"]),                    // a required interface argument stays required when it has a default
        ok(vec!["type Query { s: Shape }", "interface Shape { area(scale: Int! = 1): Int }", "type Square implements Shape { area(scale: Int! = 2): Int }"]),
        // type kinds in positions: fields need output types, arguments and input fields need input types -- on objects AND interfaces
        bad(vec!["type Query { n: Node }", "interface Node { f: In }", "type P implements Node { f: In }", "input In { x: Int }"]),
        bad(vec!["type Query { n: Node }", "interface Node { f(a: P): Int }", "type P implements Node { f(a: P): Int }"]),
        bad(vec!["type Query { a(x: In): Int }", "input In { f: P }", "type P { x: Int }"]),
        bad(vec!["type Query { a(x: In): Int }", "input In { f: U }", "union U = P", "type P { x: Int }"]),
        bad(vec!["type Query { a(x: [[Out!]!]): Int }", "type Out { x: Int }"]),
        bad(vec!["type Query { a: [In!]! }", "input In { x: Int }"]),
        ok(vec!["type Query { a(x: [[E!]!], y: S): [[S]] }", "enum E { X }", "scalar S"]),
        // reserved names
        bad(vec!["type Query { __a: Int }"]),
        bad(vec!["type Query { a(__x: Int): Int }"]),
        bad(vec!["type Query { n: Node }", "interface Node { __f: Int }", "type P implements Node { __f: Int }"]),
        bad(vec!["type Query { a(x: In): Int }", "input In { __f: Int }"]),
        // an object may implement several interfaces, interfaces may implement interfaces
        ok(vec!["type Query { n: Named }", "interface Node { id: ID! }", "interface Named implements Node { id: ID!; name: String }", "type P implements Node & Named { id: ID!; name: String }"]),
        bad(vec!["type Query { n: Named }", "interface Node { id: ID! }", "interface Named implements Node { name: String }", "type P implements Node & Named { id: ID!; name: String }"]),
        ok(vec!["type Query { n: Node }", "interface Node { l: [[Int]] }", "type P implements Node { l: [[Int!]!]! }"]),
        bad(vec!["type Query { n: Node }", "interface Node { l: [Int!] }", "type P implements Node { l: [Int] }"]),
        bad(vec!["type Query { n: Node }", "interface Node { l: [Int] }", "type P implements Node { l: Int }"]),
    ];
    if !has("C33-implementation-arguments-not-checked") {
        v.push(bad(vec!["type Query { n: Node }", "interface Node { f(a: Int): Int }", "type P implements Node { f: Int }"]));              // every interface argument must be present
        v.push(bad(vec!["type Query { n: Node }", "interface Node { f: Int }", "type P implements Node { f(extra: Int!): Int }"]));         // additional arguments must not be required
        v.push(bad(vec!["type Query { n: Node }", "interface Node { f(a: Int): Int }", "type P implements Node { f(a: Int!): Int }"]));     // argument types are invariant
    }
    v.into_iter()
}
