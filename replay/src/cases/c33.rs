//! C33: TypeRef::is_subtype vs. the spec's IsValidImplementationFieldType (named types identical).
use crate::{rng::Rng, Outcome};
use async_graphql::{dynamic::TypeRef, verif_hooks};
use serde_json::{json, Value};

fn parse(s: &str) -> TypeRef {
    if let Some(inner) = s.strip_suffix('!') { return TypeRef::NonNull(Box::new(parse(inner))); }
    if let Some(inner) = s.strip_prefix('[').and_then(|x| x.strip_suffix(']')) { return TypeRef::List(Box::new(parse(inner))); }
    TypeRef::named(s)
}
/// field = implementing type's field type, implemented = interface's
fn valid(field: &TypeRef, implemented: &TypeRef) -> bool {
    match field {
        TypeRef::NonNull(f) => match implemented { TypeRef::NonNull(i) => valid(f, i), _ => valid(f, implemented) },
        TypeRef::List(f) => match implemented { TypeRef::List(i) => valid(f, i), _ => false },
        TypeRef::Named(f) => match implemented { TypeRef::Named(i) => f == i, _ => false },
    }
}
/// args {"implemented": "[A]!", "field": "[A!]!"}
pub fn subtype(args: &Value) -> Outcome {
    let imp = parse(args["implemented"].as_str().unwrap());
    let fld = parse(args["field"].as_str().unwrap());
    let got = verif_hooks::typeref_is_subtype(&imp, &fld);
    let exp = valid(&fld, &imp);
    Outcome { holds: got == exp, observed: format!("({}).is_subtype({}) == {}", imp, fld, got), expected: format!("{}", exp) }
}
pub fn inputs(seed: u64) -> impl Iterator<Item = Value> {
    let mut ts: Vec<String> = vec!["A".into(), "B".into()];
    for _ in 0..3 {
        let mut next = ts.clone();
        for t in &ts { if !t.ends_with('!') { next.push(format!("{}!", t)); } next.push(format!("[{}]", t)); }
        next.sort(); next.dedup();
        ts = next.into_iter().filter(|t| t.len() <= 7).collect();
    }
    let mut out = Vec::new();
    let mut r = Rng(seed);
    for a in &ts { for b in &ts { if r.below(4) != 0 || a == b || a.len() + b.len() < 8 { out.push(json!({"implemented": a, "field": b})); } } }
    out.into_iter()
}
