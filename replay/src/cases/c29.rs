//! C29: DataLoader cache operations on single-threaded histories vs. a reference cache model (bounded stand-in).
use crate::{rng::Rng, Outcome};
use async_graphql::dataloader::{DataLoader, HashMapCache, Loader, LruCache, NoCache};
use async_graphql::runtime::{TokioSpawner, TokioTimer};
use serde_json::{json, Value};
use std::collections::HashMap;
use std::sync::{atomic::{AtomicUsize, Ordering}, Arc};

struct L { calls: Arc<AtomicUsize> }
fn f(k: i32) -> Option<i64> { if k >= 0 { Some(k as i64 * 10) } else { None } }
impl Loader<i32> for L {
    type Value = i64; type Error = ();
    async fn load(&self, keys: &[i32]) -> Result<HashMap<i32, i64>, ()> { self.calls.fetch_add(keys.len(), Ordering::SeqCst); Ok(keys.iter().filter_map(|k| f(*k).map(|v| (*k, v))).collect()) }
}
impl Loader<String> for L {
    type Value = i64; type Error = ();
    async fn load(&self, keys: &[String]) -> Result<HashMap<String, i64>, ()> { self.calls.fetch_add(keys.len(), Ordering::SeqCst); Ok(keys.iter().map(|k| (k.clone(), k.len() as i64)).collect()) }
}

/// exact reference model of the documented cache (i32 keys): `entries` most recently used FIRST; cap = None: unbounded map
struct Model { entries: Vec<(i32, i64)>, cap: Option<usize>, caching: bool }
impl Model {
    fn get(&mut self, k: i32) -> Option<i64> { let p = self.entries.iter().position(|e| e.0 == k)?; let e = self.entries.remove(p); if self.cap.is_some() { self.entries.insert(0, e); } else { self.entries.insert(p, e); } Some(e.1) }
    fn put(&mut self, k: i32, v: i64) { if !self.caching { return; }
        if let Some(p) = self.entries.iter().position(|e| e.0 == k) { self.entries.remove(p); } else if let Some(c) = self.cap { if self.entries.len() >= c { self.entries.pop(); } }
        self.entries.insert(0, (k, v)); }
    fn map(&self) -> HashMap<i32, i64> { self.entries.iter().cloned().collect() }
}

async fn run_ops<C: async_graphql::dataloader::CacheFactory>(dl: DataLoader<L, C>, calls: Arc<AtomicUsize>, ops: &[Value], caching: bool, cap: Option<usize>, bad: &mut Vec<String>) {
    let mut m = Model { entries: Vec::new(), cap, caching };
    let (mut all_on, mut ty_on) = (true, true);
    for (i, op) in ops.iter().enumerate() {
        let k = op["k"].as_i64().unwrap_or(0) as i32;
        match op["op"].as_str().unwrap() {
            "load" => {
                let before = calls.load(Ordering::SeqCst);
                let r = dl.load_one(k).await.unwrap();
                let after = calls.load(Ordering::SeqCst);
                // a load returns the cached value exactly when caching is enabled (both flags) and the cache holds the key; the loader's value otherwise
                let use_cache = caching && all_on && ty_on;
                let hit = if use_cache { m.get(k) } else { None };
                let exp = match hit { Some(v) => Some(v), None => f(k) };
                if r != exp { bad.push(format!("op#{} load({}) = {:?}, expected {:?}", i, k, r, exp)); }
                if hit.is_some() && after != before { bad.push(format!("op#{} load({}) hit the loader although the value is cached", i, k)); }
                if hit.is_none() && after == before { bad.push(format!("op#{} load({}) did not ask the loader although the key is not served from the cache", i, k)); }
                if hit.is_none() && use_cache { if let Some(v) = f(k) { m.put(k, v); } }
            }
            "load_many" => {
                // several keys at once (duplicates allowed): every key is answered from the cache or the loader, exactly as single loads would
                let ks: Vec<i32> = op["ks"].as_array().unwrap().iter().map(|x| x.as_i64().unwrap() as i32).collect();
                let use_cache = caching && all_on && ty_on;
                let r = dl.load_many(ks.clone()).await.unwrap();
                let mut exp: HashMap<i32, i64> = HashMap::new();
                let mut uniq = ks.clone(); uniq.sort(); uniq.dedup();
                let mut misses = Vec::new();
                for k in ks.iter() { if exp.contains_key(k) || misses.contains(k) { continue; } let hit = if use_cache { m.get(*k) } else { None }; match hit { Some(v) => { exp.insert(*k, v); } None => { misses.push(*k); } } }
                for k in &misses { if let Some(v) = f(*k) { exp.insert(*k, v); if use_cache { m.put(*k, v); } } }
                if r != exp { bad.push(format!("op#{} load_many({:?}) = {:?}, expected {:?}", i, ks, sorted(&r), sorted(&exp))); }
                let _ = uniq;
            }
            "feed_many" => { let kv: Vec<(i32, i64)> = op["kv"].as_array().unwrap().iter().map(|p| (p[0].as_i64().unwrap() as i32, p[1].as_i64().unwrap())).collect();
                dl.feed_many(kv.clone()).await; for (k, v) in kv { m.put(k, v); } }
            "load_s" => { let s = format!("s{}", k); let r = dl.load_one(s.clone()).await.unwrap(); if r != Some(s.len() as i64) { bad.push(format!("op#{} load_s = {:?}", i, r)); } }
            "feed" => { let v = op["v"].as_i64().unwrap(); dl.feed_one(k, v).await; m.put(k, v); }
            "clear" => { dl.clear::<i32>(); m.entries.clear(); }
            "clear_one" => { dl.clear_one(&k); m.entries.retain(|e| e.0 != k); }
            "enable" => { let b = op["b"].as_bool().unwrap(); dl.enable_cache::<i32>(b).await; ty_on = b; }
            "enable_s" => { let b = op["b"].as_bool().unwrap(); dl.enable_cache::<String>(b).await; }
            "enable_all" => { let b = op["b"].as_bool().unwrap(); dl.enable_all_cache(b); all_on = b; }
            _ => {}
        }
        // after EVERY operation the cache content is exactly the model's
        let c = dl.get_cached_values::<i32>().await;
        if c != m.map() { bad.push(format!("op#{} {}: cache holds {:?}, the documented cache would hold {:?}", i, op, sorted(&c), sorted(&m.map()))); break; }
    }
}
fn sorted(m: &HashMap<i32, i64>) -> Vec<(i32, i64)> { let mut v: Vec<_> = m.iter().map(|(a, b)| (*a, *b)).collect(); v.sort(); v }

/// args {"cache": "hash"|"lru"|"none", "ops": [{"op": "load", "k": 1}, ...]}
pub fn loader(args: &Value) -> Outcome {
    let ops = args["ops"].as_array().unwrap().clone();
    let kind = args["cache"].as_str().unwrap().to_string();
    let rt = tokio::runtime::Builder::new_current_thread().enable_time().build().unwrap();
    let mut bad = Vec::new();
    rt.block_on(async {
        let calls = Arc::new(AtomicUsize::new(0));
        let l = L { calls: calls.clone() };
        let d = std::time::Duration::from_millis(0);
        match kind.as_str() {
            "hash" => run_ops(DataLoader::with_cache(l, TokioSpawner::current(), TokioTimer::default(), HashMapCache::default()).delay(d), calls, &ops, true, None, &mut bad).await,
            "lru" => run_ops(DataLoader::with_cache(l, TokioSpawner::current(), TokioTimer::default(), LruCache::new(64)).delay(d), calls, &ops, true, Some(64), &mut bad).await,
            "lru1" => run_ops(DataLoader::with_cache(l, TokioSpawner::current(), TokioTimer::default(), LruCache::new(1)).delay(d), calls, &ops, true, Some(1), &mut bad).await,
            "lru2" => run_ops(DataLoader::with_cache(l, TokioSpawner::current(), TokioTimer::default(), LruCache::new(2)).delay(d), calls, &ops, true, Some(2), &mut bad).await,
            "lru3" => run_ops(DataLoader::with_cache(l, TokioSpawner::current(), TokioTimer::default(), LruCache::new(3)).delay(d), calls, &ops, true, Some(3), &mut bad).await,
            _ => run_ops(DataLoader::with_cache(l, TokioSpawner::current(), TokioTimer::default(), NoCache).delay(d), calls, &ops, false, None, &mut bad).await,
        }
    });
    Outcome { holds: bad.is_empty(), observed: if bad.is_empty() { "history consistent with the reference cache".into() } else { bad.join("; ") }, expected: "no panic; loads return loader or fed values; clear empties; cached values were stored".into() }
}

pub fn inputs(seed: u64) -> impl Iterator<Item = Value> {
    let mut out = Vec::new();
    // every operation as the FIRST operation on a fresh loader (empty state), for each cache kind
    for c in ["hash", "lru", "lru2", "none"] {
        for op in [json!({"op":"load","k":1}), json!({"op":"load","k":-1}), json!({"op":"feed","k":1,"v":7}), json!({"op":"clear"}), json!({"op":"clear_one","k":1}), json!({"op":"enable","b":false}),
                   json!({"op":"enable","b":true}), json!({"op":"enable_s","b":false}), json!({"op":"enable_all","b":false}), json!({"op":"cached"})] {
            out.push(json!({"cache": c, "ops": [op.clone(), {"op":"load","k":1}, {"op":"cached"}]}));
        }
    }
    let mut r = Rng(seed);
    // recency: a re-fed / re-loaded key must survive the next eviction; flags survive clear
    for c in ["lru2", "lru3"] {
        out.push(json!({"cache": c, "ops": [{"op":"feed","k":1,"v":10},{"op":"feed","k":2,"v":20},{"op":"feed","k":1,"v":11},{"op":"feed","k":3,"v":30},{"op":"feed","k":4,"v":40}]}));
        out.push(json!({"cache": c, "ops": [{"op":"load","k":1},{"op":"load","k":2},{"op":"load","k":1},{"op":"load","k":3},{"op":"load","k":4},{"op":"load","k":1}]}));
    }
    for c in ["hash", "lru", "none"] {
        out.push(json!({"cache": c, "ops": [{"op":"feed","k":1,"v":77},{"op":"load_many","ks":[1,2,1,-1]},{"op":"load_many","ks":[2,3]},{"op":"clear_one","k":2},{"op":"load_many","ks":[1,2,3]},{"op":"load_s","k":2},{"op":"enable_s","b":false},{"op":"load_many","ks":[1]}]}));
        out.push(json!({"cache": c, "ops": [{"op":"feed_many","kv":[[1,5],[1,6],[2,7]]},{"op":"load_many","ks":[1,2]},{"op":"enable_all","b":false},{"op":"load_many","ks":[1,2,3]},{"op":"enable","b":false},{"op":"enable_all","b":true},{"op":"load_many","ks":[1,4]},{"op":"enable","b":true},{"op":"load_many","ks":[4,1]}]}));
    }
    for c in ["hash", "lru2"] {
        out.push(json!({"cache": c, "ops": [{"op":"enable","b":false},{"op":"clear"},{"op":"feed","k":2,"v":70},{"op":"load","k":2},{"op":"load","k":1}]}));
        out.push(json!({"cache": c, "ops": [{"op":"enable_all","b":false},{"op":"clear_one","k":2},{"op":"feed","k":2,"v":70},{"op":"load","k":2},{"op":"enable_all","b":true},{"op":"load","k":2}]}));
    }
    for _ in 0..160 {
        let c = *r.pick(&["hash", "lru", "lru1", "lru2", "lru3", "lru2", "none"]);
        let n = 2 + r.below(10);
        let ops: Vec<Value> = (0..n).map(|_| { let k = r.below(6) as i64 - 1; match r.below(12) {
            // (small LRU capacities: the order in which one batch's values enter the cache is unspecified, so batches are only used where no eviction can depend on it)
            10 => if c.starts_with("lru") && c != "lru" { json!({"op":"load","k":k}) } else { let ks: Vec<i64> = (0..(1 + r.below(4))).map(|_| r.below(6) as i64 - 1).collect(); json!({"op":"load_many","ks":ks}) },
            11 => { let kv: Vec<(i64, i64)> = (0..(1 + r.below(3))).map(|_| (r.below(6) as i64 - 1, 2000 + r.below(5) as i64)).collect(); json!({"op":"feed_many","kv":kv}) },
            0 | 1 | 2 => json!({"op":"load","k":k}), 3 => json!({"op":"load_s","k":k}), 4 => json!({"op":"feed","k":k,"v": 1000 + r.below(5) as i64}), 5 => json!({"op":"clear"}),
            6 => json!({"op":"clear_one","k":k}), 7 => json!({"op":"enable","b": r.below(2)==0}), 8 => json!({"op":"enable_all","b": r.below(2)==0}), _ => json!({"op":"cached"}) } }).collect();
        out.push(json!({"cache": c, "ops": ops}));
    }
    out.into_iter()
}
