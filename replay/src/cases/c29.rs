//! C29: DataLoader cache operations on single-threaded histories vs. a reference cache model (bounded stand-in).
use crate::{rng::Rng, Outcome};
use async_graphql::dataloader::{DataLoader, HashMapCache, Loader, LruCache, NoCache};
use async_graphql::runtime::{TokioSpawner, TokioTimer};
use serde_json::{json, Value};
use std::collections::HashMap;
use std::sync::{atomic::{AtomicUsize, Ordering}, Arc};

struct L { calls: Arc<AtomicUsize> }
fn f(k: i32) -> Option<i64> { if k >= 0 { Some(k as i64 * 10) } else { None } }
impl Loader<i32> for L {
    type Value = i64; type Error = ();
    async fn load(&self, keys: &[i32]) -> Result<HashMap<i32, i64>, ()> { self.calls.fetch_add(keys.len(), Ordering::SeqCst); Ok(keys.iter().filter_map(|k| f(*k).map(|v| (*k, v))).collect()) }
}
impl Loader<String> for L {
    type Value = i64; type Error = ();
    async fn load(&self, keys: &[String]) -> Result<HashMap<String, i64>, ()> { self.calls.fetch_add(keys.len(), Ordering::SeqCst); Ok(keys.iter().map(|k| (k.clone(), k.len() as i64)).collect()) }
}

async fn run_ops<C: async_graphql::dataloader::CacheFactory>(dl: DataLoader<L, C>, calls: Arc<AtomicUsize>, ops: &[Value], caching: bool, bad: &mut Vec<String>) {
    // reference model (i32 keys): values fed and not cleared since; both enable flags
    let mut fed: HashMap<i32, i64> = HashMap::new();
    let mut seen: HashMap<i32, i64> = HashMap::new();   // what the cache may legitimately hold
    let (mut all_on, mut ty_on) = (true, true);
    for (i, op) in ops.iter().enumerate() {
        let k = op["k"].as_i64().unwrap_or(0) as i32;
        match op["op"].as_str().unwrap() {
            "load" => {
                let before = calls.load(Ordering::SeqCst);
                let r = dl.load_one(k).await.unwrap();
                let after = calls.load(Ordering::SeqCst);
                let ok = r == f(k) || (fed.contains_key(&k) && r == fed.get(&k).copied());
                if !ok { bad.push(format!("op#{} load({}) = {:?}", i, k, r)); }
                if fed.get(&k).is_none() && r != f(k) { bad.push(format!("op#{} load({}) = {:?} but nothing was fed", i, k, r)); }
                if caching && all_on && ty_on && seen.contains_key(&k) && after != before { bad.push(format!("op#{} load({}) hit the loader although the value is cached", i, k)); }
                if caching && all_on && ty_on { if let Some(v) = r { seen.insert(k, v); } }
            }
            "load_s" => { let s = format!("s{}", k); let r = dl.load_one(s.clone()).await.unwrap(); if r != Some(s.len() as i64) { bad.push(format!("op#{} load_s = {:?}", i, r)); } }
            "feed" => { let v = op["v"].as_i64().unwrap(); dl.feed_one(k, v).await; if caching { fed.insert(k, v); seen.insert(k, v); } }
            "clear" => { dl.clear::<i32>(); fed.clear(); seen.clear();
                         let c = dl.get_cached_values::<i32>().await; if !c.is_empty() { bad.push(format!("op#{} cache not empty after clear: {:?}", i, c)); } }
            "clear_one" => { dl.clear_one(&k); fed.remove(&k); seen.remove(&k);
                         let c = dl.get_cached_values::<i32>().await; if c.contains_key(&k) { bad.push(format!("op#{} key {} still cached after clear_one", i, k)); } }
            "enable" => { let b = op["b"].as_bool().unwrap(); dl.enable_cache::<i32>(b).await; ty_on = b; }
            "enable_s" => { let b = op["b"].as_bool().unwrap(); dl.enable_cache::<String>(b).await; }
            "enable_all" => { let b = op["b"].as_bool().unwrap(); dl.enable_all_cache(b); all_on = b; }
            "cached" => { let c = dl.get_cached_values::<i32>().await;
                          if !caching && !c.is_empty() { bad.push(format!("op#{} NoCache holds {:?}", i, c)); }
                          if caching { for (kk, vv) in &fed { if c.get(kk) != Some(vv) { bad.push(format!("op#{} fed ({},{}) is not in the cache", i, kk, vv)); } } }
                          for (kk, vv) in &c { if seen.get(kk) != Some(vv) { bad.push(format!("op#{} cached ({},{}) was never stored / was cleared", i, kk, vv)); } } }
            _ => {}
        }
    }
}

/// args {"cache": "hash"|"lru"|"none", "ops": [{"op": "load", "k": 1}, ...]}
pub fn loader(args: &Value) -> Outcome {
    let ops = args["ops"].as_array().unwrap().clone();
    let kind = args["cache"].as_str().unwrap().to_string();
    let rt = tokio::runtime::Builder::new_current_thread().enable_time().build().unwrap();
    let mut bad = Vec::new();
    rt.block_on(async {
        let calls = Arc::new(AtomicUsize::new(0));
        let l = L { calls: calls.clone() };
        let d = std::time::Duration::from_millis(0);
        match kind.as_str() {
            "hash" => run_ops(DataLoader::with_cache(l, TokioSpawner::current(), TokioTimer::default(), HashMapCache::default()).delay(d), calls, &ops, true, &mut bad).await,
            "lru" => run_ops(DataLoader::with_cache(l, TokioSpawner::current(), TokioTimer::default(), LruCache::new(64)).delay(d), calls, &ops, true, &mut bad).await,
            _ => run_ops(DataLoader::with_cache(l, TokioSpawner::current(), TokioTimer::default(), NoCache).delay(d), calls, &ops, false, &mut bad).await,
        }
    });
    Outcome { holds: bad.is_empty(), observed: if bad.is_empty() { "history consistent with the reference cache".into() } else { bad.join("; ") }, expected: "no panic; loads return loader or fed values; clear empties; cached values were stored".into() }
}

pub fn inputs(seed: u64) -> impl Iterator<Item = Value> {
    let mut out = Vec::new();
    // every operation as the FIRST operation on a fresh loader (empty state), for each cache kind
    for c in ["hash", "lru", "none"] {
        for op in [json!({"op":"load","k":1}), json!({"op":"load","k":-1}), json!({"op":"feed","k":1,"v":7}), json!({"op":"clear"}), json!({"op":"clear_one","k":1}), json!({"op":"enable","b":false}),
                   json!({"op":"enable","b":true}), json!({"op":"enable_s","b":false}), json!({"op":"enable_all","b":false}), json!({"op":"cached"})] {
            out.push(json!({"cache": c, "ops": [op.clone(), {"op":"load","k":1}, {"op":"cached"}]}));
        }
    }
    let mut r = Rng(seed);
    for _ in 0..120 {
        let c = *r.pick(&["hash", "lru", "none"]);
        let n = 2 + r.below(10);
        let ops: Vec<Value> = (0..n).map(|_| { let k = r.below(6) as i64 - 1; match r.below(10) {
            0 | 1 | 2 => json!({"op":"load","k":k}), 3 => json!({"op":"load_s","k":k}), 4 => json!({"op":"feed","k":k,"v": 1000 + r.below(5) as i64}), 5 => json!({"op":"clear"}),
            6 => json!({"op":"clear_one","k":k}), 7 => json!({"op":"enable","b": r.below(2)==0}), 8 => json!({"op":"enable_all","b": r.below(2)==0}), _ => json!({"op":"cached"}) } }).collect();
        out.push(json!({"cache": c, "ops": ops}));
    }
    out.into_iter()
}
