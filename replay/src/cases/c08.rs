//! C08: validators on concrete values. Exact-arithmetic oracle in i128 / exact int-vs-f64 comparison.
use crate::{rng::Rng, Outcome};
use async_graphql::validators::{chars_max_length, chars_min_length, max_items, max_length, maximum, min_items, min_length, minimum, multiple_of};
use serde_json::{json, Value};

const P63: f64 = 9223372036854775808.0;
const P64: f64 = 18446744073709551616.0;
fn floor_i128(n: f64) -> i128 { let t = n as i128; if (t as f64) > n { t - 1 } else { t } }
fn ceil_i128(n: f64) -> i128 { let t = n as i128; if (t as f64) < n { t + 1 } else { t } }
fn int_le_f64(v: i128, n: f64) -> bool { if n != n { false } else if n >= P64 { true } else if n < -P63 { false } else { v <= floor_i128(n) } }
fn int_ge_f64(v: i128, n: f64) -> bool { if n != n { false } else if n >= P64 { false } else if n < -P63 { true } else { v >= ceil_i128(n) } }
fn f64_le_int(v: f64, n: i128) -> bool { if v != v { false } else if v >= P64 { false } else if v < -P63 { true } else { ceil_i128(v) <= n } }
fn f64_ge_int(v: f64, n: i128) -> bool { if v != v { false } else if v >= P64 { true } else if v < -P63 { false } else { floor_i128(v) >= n } }

#[derive(Clone, Copy, Debug)]
enum Num { I(i128), F(f64) }

fn parse_num(v: &Value, ty: &str) -> Num {
    if ty == "f32" || ty == "f64" {
        if let Some(b) = v.get("bits").and_then(|b| b.as_u64()) {
            return if ty == "f32" { Num::F(f32::from_bits(b as u32) as f64) } else { Num::F(f64::from_bits(b)) };
        }
        return Num::F(v.as_str().map(|s| s.parse().unwrap()).or(v.as_f64()).unwrap());
    }
    Num::I(v.as_str().map(|s| s.parse::<i128>().unwrap()).or(v.as_i64().map(|x| x as i128)).unwrap())
}

fn expected(f: &str, v: Num, n: Num) -> bool {
    match (f, v, n) {
        ("maximum", Num::I(v), Num::I(n)) => v <= n,
        ("maximum", Num::I(v), Num::F(n)) => int_le_f64(v, n),
        ("maximum", Num::F(v), Num::I(n)) => f64_le_int(v, n),
        ("maximum", Num::F(v), Num::F(n)) => v <= n,
        ("minimum", Num::I(v), Num::I(n)) => v >= n,
        ("minimum", Num::I(v), Num::F(n)) => int_ge_f64(v, n),
        ("minimum", Num::F(v), Num::I(n)) => f64_ge_int(v, n),
        ("minimum", Num::F(v), Num::F(n)) => v >= n,
        ("multiple_of", Num::I(v), Num::I(n)) => v != 0 && n != 0 && v % n == 0,
        _ => panic!("no exact oracle for this instantiation"),
    }
}

macro_rules! call {
    ($f:ident, $T:ty, $N:ty, $v:expr, $n:expr) => {{
        let v: $T = match $v { Num::I(x) => x as $T, Num::F(x) => x as $T };
        let n: $N = match $n { Num::I(x) => x as $N, Num::F(x) => x as $N };
        $f(&v, n).is_ok()
    }};
}
macro_rules! by_t {
    ($f:ident, $t:expr, $N:ty, $v:expr, $n:expr) => {
        match $t {
            "i8" => call!($f, i8, $N, $v, $n), "i16" => call!($f, i16, $N, $v, $n), "i32" => call!($f, i32, $N, $v, $n),
            "i64" => call!($f, i64, $N, $v, $n), "isize" => call!($f, isize, $N, $v, $n),
            "u8" => call!($f, u8, $N, $v, $n), "u16" => call!($f, u16, $N, $v, $n), "u32" => call!($f, u32, $N, $v, $n),
            "u64" => call!($f, u64, $N, $v, $n), "usize" => call!($f, usize, $N, $v, $n),
            "f32" => call!($f, f32, $N, $v, $n), "f64" => call!($f, f64, $N, $v, $n),
            _ => panic!("type"),
        }
    };
}

/// args: {"fn":"maximum","T":"u64","N":"i64","v":"18446744073709551615","n":"100"}  (floats: {"bits":..} or decimal string)
pub fn num(args: &Value) -> Outcome {
    let f = args["fn"].as_str().unwrap();
    let t = args["T"].as_str().unwrap();
    let nt = args["N"].as_str().unwrap();
    let v = parse_num(&args["v"], t);
    let n = parse_num(&args["n"], nt);
    let got = match (f, nt) {
        ("maximum", "i64") => by_t!(maximum, t, i64, v, n),
        ("maximum", "f64") => by_t!(maximum, t, f64, v, n),
        ("minimum", "i64") => by_t!(minimum, t, i64, v, n),
        ("minimum", "f64") => by_t!(minimum, t, f64, v, n),
        ("multiple_of", "i64") => by_t!(multiple_of, t, i64, v, n),
        ("multiple_of", "f64") => by_t!(multiple_of, t, f64, v, n),
        _ => panic!("fn"),
    };
    let exp = expected(f, v, n);
    Outcome { holds: got == exp, observed: format!("{}::<{},{}>({:?}, {:?}).is_ok() == {}", f, t, nt, v, n, got), expected: format!("is_ok() == {} (exact arithmetic)", exp) }
}

fn int_range(t: &str) -> (i128, i128) {
    match t { "i8" => (i8::MIN as i128, i8::MAX as i128), "i16" => (i16::MIN as i128, i16::MAX as i128), "i32" => (i32::MIN as i128, i32::MAX as i128),
        "i64" | "isize" => (i64::MIN as i128, i64::MAX as i128), "u8" => (0, u8::MAX as i128), "u16" => (0, u16::MAX as i128), "u32" => (0, u32::MAX as i128),
        _ => (0, u64::MAX as i128) }
}

/// boundary enumeration + random for one function (all integer T, N = i64)
pub fn num_inputs(f: &'static str, seed: u64) -> impl Iterator<Item = Value> {
    let mut out = Vec::new();
    let ns: Vec<i128> = vec![i64::MIN as i128, -100, -3, -2, 2, 3, 7, 100, 255, 256, 65535, i32::MAX as i128, i64::MAX as i128 - 1, i64::MAX as i128, 0, 1, -1];
    let mut r = Rng(seed);
    for t in ["i8", "i16", "i32", "i64", "isize", "u8", "u16", "u32", "u64", "usize"] {
        let (lo, hi) = int_range(t);
        let mut vs = vec![lo, lo + 1, -1, 0, 1, 2, 99, 100, 101, hi - 1, hi, i64::MAX as i128, i64::MAX as i128 + 1];
        for _ in 0..40 { vs.push(lo + (r.next() as i128).rem_euclid(hi - lo + 1)); }
        for &v in &vs { if v < lo || v > hi { continue; }
            for &n in &ns {
                if f == "multiple_of" && (n == 0 || n == -1) { continue; }
                out.push(json!({"fn": f, "T": t, "N": "i64", "v": v.to_string(), "n": n.to_string()}));
            }
            for k in [-1i128, 0, 1] { let n = v + k; if n >= i64::MIN as i128 && n <= i64::MAX as i128 && !(f == "multiple_of" && (n == 0 || n == -1)) {
                out.push(json!({"fn": f, "T": t, "N": "i64", "v": v.to_string(), "n": n.to_string()})); } }
        }
    }
    out.into_iter()
}

/// args: {"fn":"max_items"|..., "value": "string" | [..], "len": n}
pub fn len(args: &Value) -> Outcome {
    let f = args["fn"].as_str().unwrap();
    let n = args["len"].as_u64().unwrap() as usize;
    let (got, exp) = match f {
        "max_items" | "min_items" => {
            let v: Vec<i32> = args["value"].as_array().unwrap().iter().map(|x| x.as_i64().unwrap() as i32).collect();
            if f == "max_items" { (max_items(&v, n).is_ok(), v.len() <= n) } else { (min_items(&v, n).is_ok(), v.len() >= n) }
        }
        _ => {
            let s = args["value"].as_str().unwrap().to_string();
            match f {
                "max_length" => (max_length(&s, n).is_ok(), s.len() <= n),
                "min_length" => (min_length(&s, n).is_ok(), s.len() >= n),
                "chars_max_length" => (chars_max_length(&s, n).is_ok(), s.chars().count() <= n),
                "chars_min_length" => (chars_min_length(&s, n).is_ok(), s.chars().count() >= n),
                _ => panic!("fn"),
            }
        }
    };
    Outcome { holds: got == exp, observed: format!("{}(.., {}).is_ok() == {}", f, n, got), expected: format!("{}", exp) }
}

pub fn len_inputs(_seed: u64) -> impl Iterator<Item = Value> {
    let mut out = Vec::new();
    let strs = ["", "a", "ab", "abc", "abcd", "你好", "你好啊", "é", "a\u{1F600}b"];
    for f in ["max_length", "min_length", "chars_max_length", "chars_min_length"] {
        for s in strs { for n in 0..8usize { out.push(json!({"fn": f, "value": s, "len": n})); } }
    }
    for f in ["max_items", "min_items"] {
        for k in 0..6usize { for n in 0..7usize { out.push(json!({"fn": f, "value": (0..k).collect::<Vec<_>>(), "len": n})); } }
    }
    out.into_iter()
}

// ------------------------------------------------------------------------------------------------------------------
// c08_derive: validators as the derive macros wire them (list mode, nullable elements, several regex patterns in one process)
mod derive_case {
    use async_graphql::*;
    use std::sync::atomic::{AtomicUsize, Ordering};
    pub static RAN: AtomicUsize = AtomicUsize::new(0);
    pub struct Query;
    #[Object]
    impl Query {
        async fn nums(&self, #[graphql(validator(list, maximum = 10))] n: Vec<Option<i32>>) -> i32 { RAN.fetch_add(1, Ordering::SeqCst); n.len() as i32 }
        async fn mins(&self, #[graphql(validator(list, minimum = 3))] n: Option<Vec<i32>>) -> i32 { RAN.fetch_add(1, Ordering::SeqCst); n.map(|x| x.len() as i32).unwrap_or(-1) }
        async fn words(&self, #[graphql(validator(list, max_length = 3))] w: Vec<Option<String>>) -> i32 { RAN.fetch_add(1, Ordering::SeqCst); w.len() as i32 }
        async fn digits(&self, #[graphql(validator(regex = "^[0-9]+$"))] s: String) -> i32 { RAN.fetch_add(1, Ordering::SeqCst); s.len() as i32 }
        async fn hex(&self, #[graphql(validator(list, regex = "^0x[0-9a-f]+$"))] s: Vec<String>) -> i32 { RAN.fetch_add(1, Ordering::SeqCst); s.len() as i32 }
        async fn word(&self, #[graphql(validator(regex = "^[a-z]+$"))] s: String) -> i32 { RAN.fetch_add(1, Ordering::SeqCst); s.len() as i32 }
        async fn items(&self, #[graphql(validator(min_items = 1, max_items = 3))] l: Vec<i32>) -> i32 { RAN.fetch_add(1, Ordering::SeqCst); l.len() as i32 }
        async fn both(&self, #[graphql(validator(minimum = 2, maximum = 5, multiple_of = 2))] v: i32) -> i32 { RAN.fetch_add(1, Ordering::SeqCst); v }
        async fn chars(&self, #[graphql(validator(chars_min_length = 2, chars_max_length = 3))] s: String) -> i32 { RAN.fetch_add(1, Ordering::SeqCst); s.len() as i32 }
    }
}
/// args {"queries": [[query, ok]...]}: all queries run against ONE schema in ONE process, in order
pub fn derive(args: &Value) -> Outcome {
    use async_graphql::*;
    use futures_util::FutureExt;
    let schema = Schema::new(derive_case::Query, EmptyMutation, EmptySubscription);
    let mut bad = Vec::new();
    for q in args["queries"].as_array().unwrap() {
        let (text, ok) = (q[0].as_str().unwrap(), q[1].as_bool().unwrap());
        derive_case::RAN.store(0, std::sync::atomic::Ordering::SeqCst);
        let resp = schema.execute(text).now_or_never().unwrap();
        let ran = derive_case::RAN.load(std::sync::atomic::Ordering::SeqCst);
        if ok && !(resp.errors.is_empty() && ran == 1) { bad.push(format!("{}: valid value rejected ({:?})", text, resp.errors.iter().map(|e| e.message.clone()).collect::<Vec<_>>())); }
        if !ok && !( !resp.errors.is_empty() && ran == 0) { bad.push(format!("{}: value violating its validator reached the resolver (errors {:?}, resolver ran {})", text, resp.errors.len(), ran)); }
    }
    Outcome { holds: bad.is_empty(), observed: if bad.is_empty() { "every query accepted / rejected as its validators prescribe".into() } else { bad.join("; ") }, expected: "resolver reached iff every validator's predicate holds".into() }
}
pub fn derive_inputs(seed: u64) -> impl Iterator<Item = Value> {
    let all: Vec<(&str, bool)> = vec![
        ("{ nums(n: [1, 10]) }", true), ("{ nums(n: [1, 11]) }", false), ("{ nums(n: [11, 1]) }", false), ("{ nums(n: [1, null, 11]) }", false), ("{ nums(n: [null, null, 12, 1]) }", false), ("{ nums(n: [1, null, 10]) }", true), ("{ nums(n: []) }", true),
        ("{ mins(n: [3, 4]) }", true), ("{ mins(n: [3, 2]) }", false), ("{ mins(n: null) }", true), ("{ mins }", true),
        ("{ words(w: [\"abc\", null, \"ab\"]) }", true), ("{ words(w: [\"abc\", null, \"abcd\"]) }", false), ("{ words(w: [null, \"abcd\"]) }", false),
        ("{ digits(s: \"123\") }", true), ("{ digits(s: \"12a\") }", false), ("{ hex(s: [\"0xff\", \"0x10\"]) }", true), ("{ hex(s: [\"0xff\", \"12\"]) }", false), ("{ word(s: \"abc\") }", true), ("{ word(s: \"123\") }", false),
        ("{ digits(s: \"0xff\") }", false), ("{ hex(s: [\"123\"]) }", false), ("{ word(s: \"0xff\") }", false),
        ("{ items(l: [1]) }", true), ("{ items(l: []) }", false), ("{ items(l: [1, 2, 3]) }", true), ("{ items(l: [1, 2, 3, 4]) }", false),
        ("{ both(v: 2) }", true), ("{ both(v: 4) }", true), ("{ both(v: 3) }", false), ("{ both(v: 6) }", false), ("{ both(v: 0) }", false), ("{ both(v: 1) }", false),
        ("{ chars(s: \"\u{e9}\u{e9}\") }", true), ("{ chars(s: \"\u{1F600}\") }", false), ("{ chars(s: \"abcd\") }", false), ("{ chars(s: \"abc\") }", true),
    ];
    // the same table in several orders (the first regex exercised must not decide the others)
    let mut out = Vec::new();
    let mut r = crate::rng::Rng(seed);
    for k in 0..4 {
        let mut v: Vec<Value> = all.iter().map(|(q, ok)| json!([q, ok])).collect();
        if k == 1 { v.reverse(); }
        if k >= 2 { for i in (1..v.len()).rev() { let j = r.below((i + 1) as u64) as usize; v.swap(i, j); } }
        out.push(json!({"queries": v}));
    }
    out.into_iter()
}
