//! C20: response cache policy of a derive-built schema vs. an independent fold over the selected types / fields.
use crate::Outcome;
use async_graphql::*;
use futures_util::FutureExt;
use serde_json::{json, Value};

struct Item;
#[Object(cache_control(max_age = 5, private))]
impl Item { async fn v(&self) -> i32 { 1 } }

#[derive(Interface)]
#[graphql(field(name = "v", ty = "i32"))]
enum Node { Item(Item) }

struct Plain;
#[Object(cache_control(max_age = 40))]
impl Plain {
    async fn x(&self) -> i32 { 1 }
    #[graphql(cache_control(max_age = 20))]
    async fn short(&self) -> i32 { 1 }
}

#[derive(SimpleObject)]
#[graphql(concrete(name = "IntBox", params(i32)), concrete(name = "StrBox", params(String)))]
#[graphql(cache_control(max_age = 30, private))]
struct GenBox<T: OutputType> { value: T }
#[derive(SimpleObject)]
#[graphql(cache_control(max_age = 15))]
struct PlainBox { value: i32 }

struct Query;
#[Object(cache_control(max_age = 60))]
impl Query {
    async fn int_box(&self) -> GenBox<i32> { GenBox { value: 1 } }
    async fn str_box(&self) -> GenBox<String> { GenBox { value: "s".into() } }
    async fn plain_box(&self) -> PlainBox { PlainBox { value: 1 } }
    async fn fail(&self) -> Option<Result<i32>> { Some(Err("boom".into())) }
    async fn plain(&self) -> Plain { Plain }
    async fn item(&self) -> Item { Item }
    async fn node(&self) -> Node { Node::Item(Item) }
    #[graphql(cache_control(max_age = 30))]
    async fn slow(&self) -> i32 { 1 }
    #[graphql(cache_control(private))]
    async fn secret(&self) -> i32 { 1 }
    #[graphql(cache_control(no_cache))]
    async fn live(&self) -> i32 { 1 }
    async fn free(&self) -> i32 { 1 }
}

/// args {"query": "...", "public": bool, "max_age": n}  (expected policy written out by hand from the property statement)
pub fn policy(args: &Value) -> Outcome {
    let schema = Schema::new(Query, EmptyMutation, EmptySubscription);
    if let Some(batch) = args["batch"].as_array() {
        // the policy of a batch is the merge over ALL its responses, partial (data + errors) ones included
        let reqs: Vec<Request> = batch.iter().map(|q| Request::new(q.as_str().unwrap())).collect();
        let resp = schema.execute_batch(BatchRequest::Batch(reqs)).now_or_never().expect("no pending I/O");
        let cc = resp.cache_control();
        let exp = (args["public"].as_bool().unwrap(), args["max_age"].as_i64().unwrap() as i32);
        return Outcome { holds: (cc.public, cc.max_age) == exp, observed: format!("batch cache_control {:?}", (cc.public, cc.max_age)), expected: format!("{:?}", exp) };
    }
    let q = args["query"].as_str().unwrap();
    let resp = schema.execute(q).now_or_never().expect("no pending I/O");
    let got = (resp.cache_control.public, resp.cache_control.max_age);
    let exp = (args["public"].as_bool().unwrap(), args["max_age"].as_i64().unwrap() as i32);
    Outcome { holds: (resp.errors.is_empty() || args["allow_errors"] == true) && got == exp, observed: format!("cache_control {:?} errors {:?}", got, resp.errors.len()), expected: format!("{:?}", exp) }
}

pub fn inputs(_seed: u64) -> impl Iterator<Item = Value> {
    let v = vec![
        json!({"query": "{ free }", "public": true, "max_age": 60}),
        json!({"query": "{ slow }", "public": true, "max_age": 30}),
        json!({"query": "{ s: slow }", "public": true, "max_age": 30}),
        json!({"query": "{ free: slow }", "public": true, "max_age": 30}),
        json!({"query": "{ slow: free }", "public": true, "max_age": 60}),
        json!({"query": "{ secret }", "public": false, "max_age": 60}),
        json!({"query": "{ mine: secret }", "public": false, "max_age": 60}),
        json!({"query": "{ live }", "public": true, "max_age": -1}),
        json!({"query": "{ l: live secret }", "public": false, "max_age": -1}),
        json!({"query": "{ live secret }", "public": false, "max_age": -1}),
        json!({"query": "{ secret live }", "public": false, "max_age": -1}),
        json!({"query": "{ plain { x } }", "public": true, "max_age": 40}),
        json!({"query": "{ plain { short } }", "public": true, "max_age": 20}),
        json!({"query": "{ plain { y: short } slow }", "public": true, "max_age": 20}),
        json!({"query": "{ item { v } }", "public": false, "max_age": 5}),
        json!({"query": "{ ... on Query { item { v } } }", "public": false, "max_age": 5}),
        json!({"query": "{ ...F } fragment F on Query { slow plain { x } }", "public": true, "max_age": 30}),
        // object-level hints of every kind of object type, incl. generic SimpleObjects instantiated with concrete(...)
        json!({"query": "{ intBox { value } }", "public": false, "max_age": 30}),
        json!({"query": "{ strBox { value } free }", "public": false, "max_age": 30}),
        json!({"query": "{ plainBox { value } }", "public": true, "max_age": 15}),
        json!({"query": "{ plainBox { value } intBox { value } }", "public": false, "max_age": 15}),
        // a partial response (data + a captured field error) still carries the policy of its data
        json!({"query": "{ secret fail }", "public": false, "max_age": 60, "allow_errors": true}),
        // batches
        json!({"batch": ["{ free }", "{ secret }"], "public": false, "max_age": 60}),
        json!({"batch": ["{ slow }", "{ live }", "{ free }"], "public": true, "max_age": -1}),
        json!({"batch": ["{ free }", "{ secret fail }"], "public": false, "max_age": 60}),
        json!({"batch": ["{ item { v } fail }", "{ slow }"], "public": false, "max_age": 5}),
        json!({"batch": ["{ nope }", "{ slow }"], "public": true, "max_age": 30}),
    ];
    v.into_iter()
}
