//! C04: mutation root fields run one at a time, in document order; a merged key resolves once (observed through an event log).
use crate::Outcome;
use async_graphql::*;
use serde_json::{json, Value};
use std::future::Future;
use std::pin::Pin;
use std::sync::Mutex;
use std::task::{Context as TaskCx, Poll};

static LOG: Mutex<Vec<String>> = Mutex::new(Vec::new());
struct YieldOnce(bool);
impl Future for YieldOnce { type Output = (); fn poll(mut self: Pin<&mut Self>, cx: &mut TaskCx<'_>) -> Poll<()> { if self.0 { Poll::Ready(()) } else { self.0 = true; cx.waker().wake_by_ref(); Poll::Pending } } }
async fn step(name: &str) -> i32 { LOG.lock().unwrap().push(format!("start {}", name)); YieldOnce(false).await; YieldOnce(false).await; LOG.lock().unwrap().push(format!("end {}", name)); 1 }

struct Sub1;
#[Object]
impl Sub1 { async fn x(&self) -> i32 { step("x").await } async fn y(&self) -> i32 { step("y").await } }
struct Query;
#[Object]
impl Query { async fn q1(&self) -> i32 { step("q1").await } async fn q2(&self) -> i32 { step("q2").await } }
struct Mutation;
#[Object]
impl Mutation {
    async fn a(&self) -> i32 { step("a").await }
    async fn b(&self) -> i32 { step("b").await }
    async fn c(&self) -> Sub1 { step("c").await; Sub1 }
    async fn fail(&self) -> Result<i32> { step("fail").await; Err("boom".into()) }
}

fn block_on<F: Future>(f: F) -> F::Output {
    let w = futures_util::task::noop_waker(); let mut cx = TaskCx::from_waker(&w);
    let mut f = Box::pin(f);
    loop { if let Poll::Ready(v) = f.as_mut().poll(&mut cx) { return v; } }
}

fn dyn_schema() -> async_graphql::dynamic::Schema {
    use async_graphql::dynamic::*;
    let f = |name: &'static str| Field::new(name, TypeRef::named_nn(TypeRef::INT), move |_| FieldFuture::new(async move { Ok(Some(async_graphql::Value::from(step(name).await))) }));
    let sub = Object::new("Sub1").field(f("x")).field(f("y"));
    let q = Object::new("Query").field(f("q1"));
    let m = Object::new("Mutation").field(f("a")).field(f("b"))
        .field(Field::new("c", TypeRef::named_nn("Sub1"), |_| FieldFuture::new(async { step("c").await; Ok(Some(FieldValue::owned_any(0u8))) })));
    Schema::build("Query", Some("Mutation"), None).register(sub).register(q).register(m).finish().unwrap()
}
/// args {"query": "mutation { a b }", "serial": ["a","b"]}: the listed root fields must run strictly one after another, in that order
pub fn serial(args: &Value) -> Outcome {
    LOG.lock().unwrap().clear();
    let resp = if args["schema"] == "dynamic" { let s = dyn_schema(); block_on(s.execute(args["query"].as_str().unwrap())) }
               else { let schema = Schema::new(Query, Mutation, EmptySubscription); block_on(schema.execute(args["query"].as_str().unwrap())) };
    if let Some(exp) = args["data"].as_str() {
        // the sub-selections of root fields sharing a response key are merged, on the SERIAL path too
        let data = serde_json::to_string(&resp.data).unwrap();
        return Outcome { holds: data == exp, observed: format!("data {}", data), expected: format!("data {}", exp) };
    }
    let log = LOG.lock().unwrap().clone();
    let order: Vec<String> = args["serial"].as_array().unwrap().iter().map(|x| x.as_str().unwrap().to_string()).collect();
    // expected subsequence for the root fields: start f1, end f1, start f2, end f2, ...
    let roots: Vec<String> = log.iter().filter(|e| order.iter().any(|o| e.ends_with(&format!(" {}", o)))).cloned().collect();
    let exp: Vec<String> = order.iter().flat_map(|o| vec![format!("start {}", o), format!("end {}", o)]).collect();
    let mut counts_ok = true;
    for o in &order { if log.iter().filter(|e| **e == format!("start {}", o)).count() != 1 { counts_ok = false; } }
    Outcome { holds: roots == exp && counts_ok, observed: format!("{:?}", log), expected: format!("root-field events {:?}, each resolver started once", exp) }
}

pub fn inputs(_seed: u64, open: &[String]) -> impl Iterator<Item = Value> {
    let mut v = vec![
        json!({"query": "mutation { a b }", "serial": ["a", "b"]}),
        json!({"query": "mutation { b a }", "serial": ["b", "a"]}),
        json!({"query": "mutation { x: a y: b z: a }", "serial": []}),
        json!({"query": "mutation { a c { x y } b }", "serial": ["a", "c", "b"]}),
        json!({"query": "mutation { a ... on Mutation { b } }", "serial": ["a", "b"]}),
        json!({"query": "mutation { a fail b }", "serial": ["a", "fail"]}),
        // one top-level SELECTION is not one root FIELD
        json!({"query": "mutation { ...F } fragment F on Mutation { a b }", "serial": ["a", "b"]}),
        json!({"query": "mutation { ... on Mutation { b a } }", "serial": ["b", "a"]}),
        json!({"query": "mutation { ... { a c { x y } b } }", "serial": ["a", "c", "b"]}),
        json!({"query": "mutation M { ...F ...G } fragment F on Mutation { a } fragment G on Mutation { b }", "serial": ["a", "b"]}),
        json!({"query": "mutation { b }", "serial": ["b"]}),
        // dynamic schemas: the mutation root is serial as well
        json!({"schema": "dynamic", "query": "mutation { a b }", "serial": ["a", "b"]}),
        json!({"schema": "dynamic", "query": "mutation { b a }", "serial": ["b", "a"]}),
        json!({"schema": "dynamic", "query": "mutation { a c { x y } b }", "serial": ["a", "c", "b"]}),
        json!({"schema": "dynamic", "query": "mutation { ...F } fragment F on Mutation { b a }", "serial": ["b", "a"]}),
        // merged keys on the serial path keep every sub-selection
        json!({"query": "mutation { c { x } c { y } }", "data": "{\"c\":{\"x\":1,\"y\":1}}"}),
        json!({"query": "mutation { k: c { x } ... on Mutation { k: c { y } } a }", "data": "{\"k\":{\"x\":1,\"y\":1},\"a\":1}"}),
        json!({"schema": "dynamic", "query": "mutation { c { x } c { y } }", "data": "{\"c\":{\"x\":1,\"y\":1}}"}),
    ];
    if !open.iter().any(|x| x == "C04-merged-key-resolves-per-occurrence") {
        v.push(json!({"query": "mutation { a a }", "serial": ["a"]}));
    }
    v.into_iter()
}
