//! C14: positions reported by the real parser vs. an independent line/column oracle.
//! Documents use unique field names, so a field's byte offset is found by text search.
use crate::{rng::Rng, Outcome};
use async_graphql_parser::{parse_query, types::*};
use serde_json::{json, Value};

/// 1-based (line, column) of byte offset `off`: "\n", "\r\n", lone "\r" each end a line; columns count scalar values
fn oracle(doc: &str, off: usize) -> (usize, usize) {
    let cs: Vec<char> = doc[..off].chars().collect();
    let (mut line, mut col) = (1, 1);
    let mut i = 0;
    while i < cs.len() {
        match cs[i] {
            '\r' => { line += 1; col = 1; if i + 1 < cs.len() && cs[i + 1] == '\n' { i += 1; } }
            '\n' => { line += 1; col = 1; }
            _ => col += 1,
        }
        i += 1;
    }
    (line, col)
}

fn walk(doc: &str, set: &SelectionSet, bad: &mut Vec<String>, n: &mut usize) {
    for item in &set.items {
        match &item.node {
            Selection::Field(f) => {
                let name = f.node.alias.as_ref().map(|a| a.node.as_str()).unwrap_or(f.node.name.node.as_str());   // a field starts at its alias
                if let Some(off) = doc.find(name) {
                    if doc.matches(name).count() == 1 {
                        *n += 1;
                        let exp = oracle(doc, off);
                        let got = (f.pos.line, f.pos.column);
                        if got != exp { bad.push(format!("field `{}` at byte {}: reported {}:{}, text says {}:{}", name, off, got.0, got.1, exp.0, exp.1)); }
                    }
                }
                walk(doc, &f.node.selection_set.node, bad, n);
            }
            Selection::InlineFragment(fr) => walk(doc, &fr.node.selection_set.node, bad, n),
            Selection::FragmentSpread(_) => {}
        }
    }
}

/// args: {"doc": "..."}
pub fn pos(args: &Value) -> Outcome {
    let doc = args["doc"].as_str().unwrap();
    if args["kind"] == "error" {
        // a syntax error is reported at the offending token: the document has exactly one `!` where none may stand
        let off = doc.find('!').unwrap();
        let exp = oracle(doc, off);
        return match parse_query(doc) {
            Ok(_) => Outcome { holds: false, observed: "parsed".into(), expected: "syntax error".into() },
            Err(async_graphql_parser::Error::Syntax { start, .. }) => Outcome { holds: (start.line, start.column) == exp, observed: format!("syntax error reported at {}:{}", start.line, start.column), expected: format!("{}:{}", exp.0, exp.1) },
            Err(e) => Outcome { holds: false, observed: format!("{}", e), expected: "syntax error".into() },
        };
    }
    match parse_query(doc) {
        Err(e) => Outcome { holds: true, observed: format!("parse error (not a position claim): {}", e), expected: "n/a".into() },
        Ok(d) => {
            let mut bad = Vec::new();
            let mut n = 0;
            for (_, op) in d.operations.iter() { walk(doc, &op.node.selection_set.node, &mut bad, &mut n); }
            Outcome { holds: bad.is_empty(), observed: if bad.is_empty() { format!("{} field positions agree", n) } else { bad.join("; ") }, expected: "every field position == line/column of its first character".into() }
        }
    }
}

pub fn pos_inputs(seed: u64, open: &[String]) -> impl Iterator<Item = Value> {
    let skip_cr_errors = open.iter().any(|x| x == "C14-syntax-error-after-lone-cr");
    let seps = ["\n", "\r\n", "\r", " ", "\t", ",", "\u{feff}", "# c\u{e9}\n", "# x\r", "\r\r", "\n\r", "\r\n\r\n", " \u{e9}# \u{1F600}\r\n"];
    let mut out = Vec::new();
    // ignored tokens BEFORE the first brace (a byte order mark as the very first character included)
    for a in seps { out.push(json!({"doc": format!("{}{{ f0 f1 }}", a)})); for b in seps { out.push(json!({"doc": format!("{}{}query Q {{{}f0 }}", a, b, a)})); } }
    // syntax errors: reported at the offending character
    for a in seps { for b in seps {
        if a.contains('\u{e9}') && !a.starts_with('#') || b.contains('\u{e9}') && !b.starts_with('#') { continue; }     // not an ignored token
        if skip_cr_errors && (a.replace("\r\n", "").contains('\r') || b.replace("\r\n", "").contains('\r')) { continue; }
        out.push(json!({"kind": "error", "doc": format!("{}{{{}f0! }}", a, b)}));
    } }
    // systematic: every separator before a field, pairs of separators
    for a in seps { out.push(json!({"doc": format!("{{{}f0 }}", a)})); }
    for a in ["\u{1F600}", "\u{10000}", "\u{FFFF}", "\u{800}", "\u{7FF}", "\u{80}"] { out.push(json!({"doc": format!("{{ f0(x: \"{}\") f1 }}", a)})); }
    for a in seps { for b in seps { out.push(json!({"doc": format!("{{{}f0{}f1 {{ {}f2 }} }}", a, b, a)})); } }
    let mut r = Rng(seed);
    for _ in 0..400 {
        let mut d = String::from("{");
        let k = 1 + r.below(5);
        for i in 0..k {
            for _ in 0..(1 + r.below(3)) { d.push_str(*r.pick(&seps)); }
            if r.below(4) == 0 { d.push_str(&format!("a{}: ", i)); }
            d.push_str(&format!("f{}", i));
            if r.below(3) == 0 { d.push_str(&format!("(x: \"s\u{e9}{}\")", *r.pick(&[" ", "\\n", "\\r", "\u{1F600}", "\u{10FFFF}\u{FFFF}"]))); }
        }
        d.push_str(*r.pick(&seps)); d.push('}');
        out.push(json!({"doc": d}));
    }
    out.into_iter()
}
