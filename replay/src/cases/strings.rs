//! C15 / C17: string printers vs. the crate's own parser as decoding oracle.
use crate::{rng::Rng, Outcome};
use async_graphql_parser::{parse_query, types::*};
use async_graphql_value::{ConstValue, Value as GqlValue};
use serde_json::{json, Value};

/// parse `{ f(a: <literal>) }` with the real parser and return the string value of `a`
fn parse_string_literal(lit: &str) -> Result<String, String> {
    let doc = format!("{{ f(a: {}) }}", lit);
    let d = parse_query(&doc).map_err(|e| format!("literal does not parse: {}", e))?;
    for (_, op) in d.operations.iter() {
        for item in &op.node.selection_set.node.items {
            if let Selection::Field(f) = &item.node {
                if let Some((_, v)) = f.node.arguments.first() {
                    return match &v.node { GqlValue::String(s) => Ok(s.clone()), other => Err(format!("parsed as non-string {:?}", other)) };
                }
            }
        }
    }
    Err("no argument found".into())
}

fn check(printed: String, s: &str) -> Outcome {
    match parse_string_literal(&printed) {
        Ok(back) => Outcome { holds: back == s, observed: format!("printed {:?}, which reads back as {:?}", printed, back), expected: format!("reads back as {:?}", s) },
        Err(e) => Outcome { holds: false, observed: format!("printed {:?}: {}", printed, e), expected: format!("a string literal that reads back as {:?}", s) },
    }
}

/// args {"s": "..."}: Display for ConstValue::String
pub fn quoted(args: &Value) -> Outcome {
    let s = args["s"].as_str().unwrap();
    check(ConstValue::String(s.to_string()).to_string(), s)
}

/// args {"s": "..."}: export_sdl::escape_string, wrapped in quotes as write_description / @deprecated(reason:) do
pub fn escape(args: &Value) -> Outcome {
    let s = args["s"].as_str().unwrap();
    check(format!("\"{}\"", async_graphql::verif_hooks::escape_string(s)), s)
}

pub fn string_inputs(seed: u64) -> impl Iterator<Item = Value> {
    let mut out = Vec::new();
    let specials: Vec<char> = vec!['"', '\\', '/', '\n', '\r', '\t', '\u{8}', '\u{c}', '\u{0}', '\u{1}', '\u{1b}', '\u{1f}', '\u{7f}', '\u{80}', '\u{9f}', '\u{a0}', 'a', 'u', '0', ' ', '\u{e9}', '\u{2028}', '\u{feff}', '\u{1F600}', '#', '{', '}'];
    for &c in &specials { out.push(json!({"s": c.to_string()})); out.push(json!({"s": format!("a{}b", c)})); }
    for &c in &specials { for &d in &specials { out.push(json!({"s": format!("{}{}", c, d)})); } }
    for c in 0u32..=0xa0 { if let Some(ch) = char::from_u32(c) { out.push(json!({"s": format!("x{}y", ch)})); } }
    let mut r = Rng(seed);
    for _ in 0..300 {
        let n = 1 + r.below(6);
        let s: String = (0..n).map(|_| *r.pick(&specials)).collect();
        out.push(json!({"s": s}));
    }
    out.into_iter()
}
