//! C15 / C17: string printers vs. the crate's own parser as decoding oracle.
use crate::{rng::Rng, Outcome};
use async_graphql_parser::{parse_query, types::*};
use async_graphql_value::{ConstValue, Value as GqlValue};
use serde_json::{json, Value};

/// parse `{ f(a: <literal>) }` with the real parser and return the string value of `a`
fn parse_string_literal(lit: &str) -> Result<String, String> {
    let doc = format!("{{ f(a: {}) }}", lit);
    let d = parse_query(&doc).map_err(|e| format!("literal does not parse: {}", e))?;
    for (_, op) in d.operations.iter() {
        for item in &op.node.selection_set.node.items {
            if let Selection::Field(f) = &item.node {
                if let Some((_, v)) = f.node.arguments.first() {
                    return match &v.node { GqlValue::String(s) => Ok(s.clone()), other => Err(format!("parsed as non-string {:?}", other)) };
                }
            }
        }
    }
    Err("no argument found".into())
}

fn check(printed: String, s: &str) -> Outcome {
    match parse_string_literal(&printed) {
        Ok(back) => Outcome { holds: back == s, observed: format!("printed {:?}, which reads back as {:?}", printed, back), expected: format!("reads back as {:?}", s) },
        Err(e) => Outcome { holds: false, observed: format!("printed {:?}: {}", printed, e), expected: format!("a string literal that reads back as {:?}", s) },
    }
}

/// args {"s": "..."}: Display for ConstValue::String
pub fn quoted(args: &Value) -> Outcome {
    let s = args["s"].as_str().unwrap();
    check(ConstValue::String(s.to_string()).to_string(), s)
}

/// args {"s": "..."}: export_sdl::escape_string, wrapped in quotes as write_description / @deprecated(reason:) do
pub fn escape(args: &Value) -> Outcome {
    let s = args["s"].as_str().unwrap();
    check(format!("\"{}\"", async_graphql::verif_hooks::escape_string(s)), s)
}

pub fn string_inputs(seed: u64) -> impl Iterator<Item = Value> {
    let mut out = Vec::new();
    let specials: Vec<char> = vec!['"', '\\', '/', '\n', '\r', '\t', '\u{8}', '\u{c}', '\u{0}', '\u{1}', '\u{1b}', '\u{1f}', '\u{7f}', '\u{80}', '\u{9f}', '\u{a0}', 'a', 'u', '0', ' ', '\u{e9}', '\u{2028}', '\u{feff}', '\u{1F600}', '#', '{', '}'];
    for &c in &specials { out.push(json!({"s": c.to_string()})); out.push(json!({"s": format!("a{}b", c)})); }
    for &c in &specials { for &d in &specials { out.push(json!({"s": format!("{}{}", c, d)})); } }
    for c in 0u32..=0xa0 { if let Some(ch) = char::from_u32(c) { out.push(json!({"s": format!("x{}y", ch)})); } }
    let mut r = Rng(seed);
    for _ in 0..300 {
        let n = 1 + r.below(6);
        let s: String = (0..n).map(|_| *r.pick(&specials)).collect();
        out.push(json!({"s": s}));
    }
    out.into_iter()
}

// ---------------------------------------------------------------- C15: whole values: print -> parse, and JSON round trip
fn build(v: &Value) -> ConstValue {
    match v {
        Value::Null => ConstValue::Null,
        Value::Bool(b) => ConstValue::Boolean(*b),
        Value::Number(n) => ConstValue::Number(n.clone()),
        Value::String(s) => if let Some(e) = s.strip_prefix("enum:") { ConstValue::Enum(async_graphql_value::Name::new(e)) } else if let Some(u) = s.strip_prefix("u64:") { ConstValue::Number(u.parse::<u64>().unwrap().into()) } else { ConstValue::String(s.clone()) },
        // ["obj!", [k, v], ...]: an object with the keys in THIS order (serde_json maps are sorted, so order-sensitive rows use this form)
        Value::Array(a) if a.first() == Some(&Value::String("obj!".into())) => ConstValue::Object(a[1..].iter().map(|p| (async_graphql_value::Name::new(p[0].as_str().unwrap()), build(&p[1]))).collect()),
        Value::Array(a) => ConstValue::List(a.iter().map(build).collect()),
        Value::Object(o) => ConstValue::Object(o.iter().map(|(k, v)| (async_graphql_value::Name::new(k), build(v))).collect()),
    }
}
/// args {"v": <json>}  ("enum:X" strings become enum values, "u64:N" unsigned numbers)
pub fn value_roundtrip(args: &Value) -> Outcome {
    let v = build(&args["v"]);
    let mut bad = Vec::new();
    // 1. Display prints a GraphQL literal that the crate's parser reads back as the same value
    let printed = v.to_string();
    match parse_query(&format!("{{ f(a: {}) }}", printed)) {
        Err(e) => bad.push(format!("printed {:?} does not parse: {}", printed, e)),
        Ok(d) => { let mut got = None;
            for (_, op) in d.operations.iter() { for item in &op.node.selection_set.node.items { if let Selection::Field(f) = &item.node { if let Some((_, a)) = f.node.arguments.first() { got = a.node.clone().into_const(); } } } }
            if got.as_ref() != Some(&v) { bad.push(format!("printed {:?} reads back as {:?}", printed, got)); } }
    }
    // 2. JSON: to text and back, and through serde_json::Value
    let has_enum = printed.contains(|c: char| c.is_ascii_uppercase()) && args["v"].to_string().contains("enum:");
    if !has_enum {   // enums are written to JSON as strings: not injective by design
        let text = serde_json::to_string(&v).unwrap();
        match serde_json::from_str::<ConstValue>(&text) { Ok(b) if b == v => {}, other => bad.push(format!("JSON text {:?} reads back as {:?}", text, other.map_err(|e| e.to_string()))) }
        match v.clone().into_json().map(ConstValue::from_json) { Ok(Ok(b)) if b == v => {}, other => bad.push(format!("into_json/from_json gives {:?}", other.map(|x| x.map_err(|e| e.to_string())).map_err(|e| e.to_string()))) }
    }
    // 3. object keys keep their order in both renderings (IndexMap equality ignores order, so look at the text)
    fn keys_in_order(v: &ConstValue, out: &mut Vec<String>) { match v { ConstValue::Object(o) => { for (k, x) in o { out.push(k.to_string()); keys_in_order(x, out); } } ConstValue::List(l) => { for x in l { keys_in_order(x, out); } } _ => {} } }
    let mut ks = Vec::new(); keys_in_order(&v, &mut ks);
    if !ks.is_empty() {
        for (what, text) in [("GraphQL text", printed.clone()), ("JSON text", serde_json::to_string(&v).unwrap())] {
            let mut from = 0usize; for k in &ks { match text[from..].find(k.as_str()) { Some(p) => from += p + k.len(), None => { bad.push(format!("{} {:?} does not list the keys in insertion order {:?}", what, text, ks)); break; } } }
        }
    }
    // 4. the two value types convert into each other without loss; Variables keep their entries
    let as_value: async_graphql_value::Value = v.clone().into_value();
    if as_value.clone().into_const() != Some(v.clone()) { bad.push(format!("into_value / into_const gives {:?}", as_value.into_const())); }
    if let ConstValue::Object(o) = &v {
        let vars = async_graphql_value::Variables::from_value(v.clone());
        let back = ConstValue::Object(vars.iter().map(|(k, x)| (k.clone(), x.clone())).collect());
        if back != v || vars.len() != o.len() { bad.push(format!("Variables::from_value loses entries: {:?}", back)); }
    }
    // 5. exact text of simple values
    if let Some(exp) = args["text"].as_str() { if printed != exp { bad.push(format!("printed {:?}, the GraphQL literal is {:?}", printed, exp)); } }
    Outcome { holds: bad.is_empty(), observed: if bad.is_empty() { format!("{} round-trips", printed) } else { bad.join("; ") }, expected: "print->parse and JSON round trips preserve the value".into() }
}
pub fn value_inputs(seed: u64, open: &[String]) -> impl Iterator<Item = Value> {
    let leaves = vec![json!(null), json!(true), json!(false), json!(0), json!(-1), json!(i64::MAX), json!(i64::MIN), json!("u64:9223372036854775808"), json!("u64:18446744073709551615"), json!(1.5), json!(-0.25), json!(1e300), json!(1e-7),
                      json!(""), json!("a\"b\\c"), json!("line\nfeed\rcr\ttab"), json!("\u{0}\u{1b}\u{7f}\u{9f}"), json!("\u{e9}\u{1F600}"), json!("enum:RED"), json!("enum:a_b1")];
    let mut out: Vec<Value> = leaves.iter().map(|l| json!({"v": l})).collect();
    for (v, t) in [(json!(null), "null"), (json!(true), "true"), (json!(false), "false"), (json!(0), "0"), (json!(-12), "-12"), (json!(1.5), "1.5"), (json!("enum:RED"), "RED"), (json!("a"), "\"a\""), (json!([]), "[]"), (json!({}), "{}"),
                   (json!([1, 2]), "[1, 2]"), (json!([[1], []]), "[[1], []]"), (json!({"a": 1}), "{a: 1}"), (json!(["obj!", ["b", 1], ["a", [true, null]]]), "{b: 1, a: [true, null]}"), (json!(["obj!", ["z", {"y": {"x": "enum:E"}}], ["a", {}]]), "{z: {y: {x: E}}, a: {}}")] {
        out.push(json!({"v": v, "text": t}));
    }
    for v in [json!(1e21), json!(-0.0), json!(1e-320), json!(123456789.125), json!([[], [[]]]), json!({"k": [], "j": {}}), json!(["obj!", ["b", 2], ["a", 1], ["c", ["obj!", ["z", 1], ["y", 2]]]]), json!(["enum:tru", "enum:nul", "enum:_", "enum:fals3"])] { out.push(json!({"v": v})); }
    if !open.iter().any(|x| x == "C15-enum-names-with-keyword-prefix") { out.push(json!({"v": ["enum:true1", "enum:nullx", "enum:falsey"]})); }
    let mut r = Rng(seed);
    for _ in 0..60 {
        let pick = |r: &mut Rng| leaves[r.below(leaves.len() as u64) as usize].clone();
        let v = match r.below(4) { 0 => json!([pick(&mut r), pick(&mut r)]), 1 => json!({"k": pick(&mut r), "k2": [pick(&mut r)]}), 2 => json!([[pick(&mut r)], {"x": pick(&mut r)}]), _ => json!({"a": {"b": {"c": pick(&mut r)}}, "l": []}) };
        out.push(json!({"v": v}));
    }
    out.into_iter()
}
