//! C15 / C17: string printers vs. the crate's own parser as decoding oracle.
use crate::{rng::Rng, Outcome};
use async_graphql_parser::{parse_query, types::*};
use async_graphql_value::{ConstValue, Value as GqlValue};
use serde_json::{json, Value};

/// parse `{ f(a: <literal>) }` with the real parser and return the string value of `a`
fn parse_string_literal(lit: &str) -> Result<String, String> {
    let doc = format!("{{ f(a: {}) }}", lit);
    let d = parse_query(&doc).map_err(|e| format!("literal does not parse: {}", e))?;
    for (_, op) in d.operations.iter() {
        for item in &op.node.selection_set.node.items {
            if let Selection::Field(f) = &item.node {
                if let Some((_, v)) = f.node.arguments.first() {
                    return match &v.node { GqlValue::String(s) => Ok(s.clone()), other => Err(format!("parsed as non-string {:?}", other)) };
                }
            }
        }
    }
    Err("no argument found".into())
}

fn check(printed: String, s: &str) -> Outcome {
    match parse_string_literal(&printed) {
        Ok(back) => Outcome { holds: back == s, observed: format!("printed {:?}, which reads back as {:?}", printed, back), expected: format!("reads back as {:?}", s) },
        Err(e) => Outcome { holds: false, observed: format!("printed {:?}: {}", printed, e), expected: format!("a string literal that reads back as {:?}", s) },
    }
}

/// args {"s": "..."}: Display for ConstValue::String
pub fn quoted(args: &Value) -> Outcome {
    let s = args["s"].as_str().unwrap();
    check(ConstValue::String(s.to_string()).to_string(), s)
}

/// args {"s": "..."}: export_sdl::escape_string, wrapped in quotes as write_description / @deprecated(reason:) do
pub fn escape(args: &Value) -> Outcome {
    let s = args["s"].as_str().unwrap();
    check(format!("\"{}\"", async_graphql::verif_hooks::escape_string(s)), s)
}

pub fn string_inputs(seed: u64) -> impl Iterator<Item = Value> {
    let mut out = Vec::new();
    let specials: Vec<char> = vec!['"', '\\', '/', '\n', '\r', '\t', '\u{8}', '\u{c}', '\u{0}', '\u{1}', '\u{1b}', '\u{1f}', '\u{7f}', '\u{80}', '\u{9f}', '\u{a0}', 'a', 'u', '0', ' ', '\u{e9}', '\u{2028}', '\u{feff}', '\u{1F600}', '#', '{', '}'];
    for &c in &specials { out.push(json!({"s": c.to_string()})); out.push(json!({"s": format!("a{}b", c)})); }
    for &c in &specials { for &d in &specials { out.push(json!({"s": format!("{}{}", c, d)})); } }
    for c in 0u32..=0xa0 { if let Some(ch) = char::from_u32(c) { out.push(json!({"s": format!("x{}y", ch)})); } }
    let mut r = Rng(seed);
    for _ in 0..300 {
        let n = 1 + r.below(6);
        let s: String = (0..n).map(|_| *r.pick(&specials)).collect();
        out.push(json!({"s": s}));
    }
    out.into_iter()
}

// ---------------------------------------------------------------- C15: whole values: print -> parse, and JSON round trip
fn build(v: &Value) -> ConstValue {
    match v {
        Value::Null => ConstValue::Null,
        Value::Bool(b) => ConstValue::Boolean(*b),
        Value::Number(n) => ConstValue::Number(n.clone()),
        Value::String(s) => if let Some(e) = s.strip_prefix("enum:") { ConstValue::Enum(async_graphql_value::Name::new(e)) } else if let Some(u) = s.strip_prefix("u64:") { ConstValue::Number(u.parse::<u64>().unwrap().into()) } else { ConstValue::String(s.clone()) },
        Value::Array(a) => ConstValue::List(a.iter().map(build).collect()),
        Value::Object(o) => ConstValue::Object(o.iter().map(|(k, v)| (async_graphql_value::Name::new(k), build(v))).collect()),
    }
}
/// args {"v": <json>}  ("enum:X" strings become enum values, "u64:N" unsigned numbers)
pub fn value_roundtrip(args: &Value) -> Outcome {
    let v = build(&args["v"]);
    let mut bad = Vec::new();
    // 1. Display prints a GraphQL literal that the crate's parser reads back as the same value
    let printed = v.to_string();
    match parse_query(&format!("{{ f(a: {}) }}", printed)) {
        Err(e) => bad.push(format!("printed {:?} does not parse: {}", printed, e)),
        Ok(d) => { let mut got = None;
            for (_, op) in d.operations.iter() { for item in &op.node.selection_set.node.items { if let Selection::Field(f) = &item.node { if let Some((_, a)) = f.node.arguments.first() { got = a.node.clone().into_const(); } } } }
            if got.as_ref() != Some(&v) { bad.push(format!("printed {:?} reads back as {:?}", printed, got)); } }
    }
    // 2. JSON: to text and back, and through serde_json::Value
    let has_enum = printed.contains(|c: char| c.is_ascii_uppercase()) && args["v"].to_string().contains("enum:");
    if !has_enum {   // enums are written to JSON as strings: not injective by design
        let text = serde_json::to_string(&v).unwrap();
        match serde_json::from_str::<ConstValue>(&text) { Ok(b) if b == v => {}, other => bad.push(format!("JSON text {:?} reads back as {:?}", text, other.map_err(|e| e.to_string()))) }
        match v.clone().into_json().map(ConstValue::from_json) { Ok(Ok(b)) if b == v => {}, other => bad.push(format!("into_json/from_json gives {:?}", other.map(|x| x.map_err(|e| e.to_string())).map_err(|e| e.to_string()))) }
    }
    Outcome { holds: bad.is_empty(), observed: if bad.is_empty() { format!("{} round-trips", printed) } else { bad.join("; ") }, expected: "print->parse and JSON round trips preserve the value".into() }
}
pub fn value_inputs(seed: u64) -> impl Iterator<Item = Value> {
    let leaves = vec![json!(null), json!(true), json!(false), json!(0), json!(-1), json!(i64::MAX), json!(i64::MIN), json!("u64:9223372036854775808"), json!("u64:18446744073709551615"), json!(1.5), json!(-0.25), json!(1e300), json!(1e-7),
                      json!(""), json!("a\"b\\c"), json!("line\nfeed\rcr\ttab"), json!("\u{0}\u{1b}\u{7f}\u{9f}"), json!("\u{e9}\u{1F600}"), json!("enum:RED"), json!("enum:a_b1")];
    let mut out: Vec<Value> = leaves.iter().map(|l| json!({"v": l})).collect();
    let mut r = Rng(seed);
    for _ in 0..60 {
        let pick = |r: &mut Rng| leaves[r.below(leaves.len() as u64) as usize].clone();
        let v = match r.below(4) { 0 => json!([pick(&mut r), pick(&mut r)]), 1 => json!({"k": pick(&mut r), "k2": [pick(&mut r)]}), 2 => json!([[pick(&mut r)], {"x": pick(&mut r)}]), _ => json!({"a": {"b": {"c": pick(&mut r)}}, "l": []}) };
        out.push(json!({"v": v}));
    }
    out.into_iter()
}
