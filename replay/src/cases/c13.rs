//! C13 (bounded only): the parser's literal lexing / string semantics against independent reference recognisers and decoders,
//! by EXHAUSTIVE enumeration of short inputs over small alphabets, through the public parse_query.
use crate::Outcome;
use async_graphql_parser::{parse_query, types::*};
use async_graphql_value::Value as GqlValue;
use serde_json::{json, Value};

fn arg_of(doc: &str) -> Result<GqlValue, String> {
    let d = parse_query(doc).map_err(|e| e.to_string())?;
    let op = match &d.operations { DocumentOperations::Single(o) => o, _ => return Err("multiple".into()) };
    match &op.node.selection_set.node.items[0].node { Selection::Field(f) => Ok(f.node.arguments[0].1.node.clone()), _ => Err("shape".into()) }
}
fn words(alpha: &[char], max: usize) -> Vec<String> {
    let mut out = vec![String::new()]; let mut cur = vec![String::new()];
    for _ in 0..max { let mut nx = Vec::new(); for w in &cur { for c in alpha { let mut s = w.clone(); s.push(*c); nx.push(s); } } out.extend(nx.iter().cloned()); cur = nx; }
    out
}
/// reference: the grammar's string_content + the spec's escape semantics. None = not a string body; Some(Err) = ambiguous for this harness (raw quote / newline)
fn ref_string(body: &str) -> Option<Result<String, ()>> {
    let cs: Vec<char> = body.chars().collect(); let mut i = 0; let mut out = String::new();
    while i < cs.len() {
        match cs[i] {
            '"' | '\n' | '\r' => return Some(Err(())),
            '\\' => { i += 1; if i >= cs.len() { return None; }
                match cs[i] { '"' => out.push('"'), '\\' => out.push('\\'), '/' => out.push('/'), 'b' => out.push('\u{8}'), 'f' => out.push('\u{c}'), 'n' => out.push('\n'), 'r' => out.push('\r'), 't' => out.push('\t'),
                    'u' => { if i + 4 >= cs.len() { return None; } let h: String = cs[i + 1..i + 5].iter().collect(); if !h.chars().all(|c| c.is_ascii_hexdigit()) { return None; }
                             let v = u32::from_str_radix(&h, 16).unwrap(); match char::from_u32(v) { Some(c) => out.push(c), None => return None } i += 4; }
                    _ => return None } }
            c => out.push(c),
        }
        i += 1;
    }
    Some(Ok(out))
}
/// reference: GraphQL spec BlockStringValue(rawValue) incl. the \""" escape
fn ref_block(raw: &str) -> String {
    let raw = raw.replace("\\\"\"\"", "\"\"\"");
    let mut lines: Vec<String> = Vec::new(); let mut cur = String::new(); let cs: Vec<char> = raw.chars().collect(); let mut i = 0;
    while i < cs.len() { match cs[i] { '\r' => { lines.push(std::mem::take(&mut cur)); if i + 1 < cs.len() && cs[i + 1] == '\n' { i += 1; } } '\n' => lines.push(std::mem::take(&mut cur)), c => cur.push(c) } i += 1; }
    lines.push(cur);
    let ws = |c: char| c == ' ' || c == '\t';
    let mut common: Option<usize> = None;
    for l in lines.iter().skip(1) { let ind = l.chars().take_while(|c| ws(*c)).count(); if ind < l.chars().count() && common.map(|c| ind < c).unwrap_or(true) { common = Some(ind); } }
    if let Some(c) = common { for l in lines.iter_mut().skip(1) { *l = l.chars().skip(c).collect(); } }
    while !lines.is_empty() && lines[0].chars().all(ws) { lines.remove(0); }
    while !lines.is_empty() && lines[lines.len() - 1].chars().all(ws) { lines.pop(); }
    lines.join("\n")
}
/// reference number lexer: int | float of the grammar; returns the expected value text class
fn ref_number(t: &str) -> Option<bool> {   // Some(is_float)
    let b = t.as_bytes(); let mut i = 0;
    if i < b.len() && b[i] == b'-' { i += 1; }
    if i >= b.len() { return None; }
    if b[i] == b'0' { i += 1; } else if b[i].is_ascii_digit() { while i < b.len() && b[i].is_ascii_digit() { i += 1; } } else { return None; }
    let mut fl = false;
    if i < b.len() && b[i] == b'.' { i += 1; let s = i; while i < b.len() && b[i].is_ascii_digit() { i += 1; } if i == s { return None; } fl = true; }
    if i < b.len() && (b[i] == b'e' || b[i] == b'E') { i += 1; if i < b.len() && (b[i] == b'+' || b[i] == b'-') { i += 1; } let s = i; while i < b.len() && b[i].is_ascii_digit() { i += 1; } if i == s { return None; } fl = true; }
    if i == b.len() { Some(fl) } else { None }
}

/// args {"kind": "strings"|"unicode"|"blocks"|"numbers"|"docs"}
pub fn lex(args: &Value) -> Outcome {
    let mut bad: Vec<String> = Vec::new(); let mut n = 0u64; let mut nontrivial = 0u64;
    let mut note = |b: &mut Vec<String>, s: String| { if b.len() < 6 { b.push(s); } };
    match args["kind"].as_str().unwrap() {
        "strings" => for w in words(&['a', '\\', 'n', 'u', '0', 'D', '8', '/', '\u{e9}'], 5) {
            let exp = ref_string(&w); if let Some(Err(())) = exp { continue; }
            n += 1; if w.contains('\\') { nontrivial += 1; }
            let got = arg_of(&format!("{{ f(a: \"{}\") }}", w));
            match (exp, got) { (Some(Ok(e)), Ok(GqlValue::String(g))) if e == g => {}, (None, Err(_)) => {}, (e, g) => note(&mut bad, format!("string body {:?}: expected {:?}, parser gave {:?}", w, e, g)) } },
        "unicode" => for v in 0..=0xffffu32 { for up in [false, true] {
            let h = if up { format!("{:04X}", v) } else { format!("{:04x}", v) }; if up && h == format!("{:04x}", v) { continue; }
            n += 1; nontrivial += 1;
            let got = arg_of(&format!("{{ f(a: \"x\\u{}y\") }}", h));
            match (char::from_u32(v), got) { (Some(c), Ok(GqlValue::String(g))) if g == format!("x{}y", c) => {}, (None, Err(_)) => {}, (e, g) => note(&mut bad, format!("\\u{}: expected {:?}, parser gave {:?}", h, e, g)) } } },
        "blocks" => for w in words(&[' ', '\t', '\n', '\r', 'a', '"', '\\'], 6) {
            // skip bodies this harness cannot delimit unambiguously (a raw `"""`, or a body ending in a quote / backslash-quote run)
            let unesc = w.replace("\\\"\"\"", "");
            if unesc.contains("\"\"\"") || w.ends_with('"') || w.ends_with('\\') { continue; }
            n += 1; if w.contains('\n') || w.contains('\r') { nontrivial += 1; }
            let got = arg_of(&format!("{{ f(a: \"\"\"{}\"\"\") }}", w));
            let e = ref_block(&w);
            match got { Ok(GqlValue::String(g)) if g == e => {}, g => note(&mut bad, format!("block string {:?}: BlockStringValue is {:?}, parser gave {:?}", w, e, g)) } },
        "block_lines" => { let shapes = ["", " ", "  ", "\t", "  a", " a", "a", "   a ", "\t a", "\u{3000}b", "\u{a0}", "  \\\"\"\"", "\u{e9} "];
            for sep in ["\n", "\r\n", "\r"] { for a in shapes { for b in shapes { for c in shapes { for d in ["", "  a", " ", "a"] {
                let w = format!("{}{}{}{}{}{}{}", a, sep, b, sep, c, if d.is_empty() { "" } else { sep }, d);
                n += 1; nontrivial += 1;
                let got = arg_of(&format!("{{ f(a: \"\"\"{}\"\"\") }}", w));
                let e = ref_block(&w);
                match got { Ok(GqlValue::String(g)) if g == e => {}, g => note(&mut bad, format!("block string {:?}: BlockStringValue is {:?}, parser gave {:?}", w, e, g)) } } } } } } },
        "nesting" => for levels in [1usize, 10, 40, 63, 64, 65, 66, 80, 120] { for kind in 0..5 {
            // documented deviation: selection sets nest at most 64 levels deep, whatever opens the level
            let mut d = String::new();
            for i in 0..levels { d.push_str(match kind { 0 => "{ a ", 1 => "{ ... ", 2 => "{ ... on T ", 3 => if i % 2 == 0 { "{ ... " } else { "{ a " }, _ => if i % 3 == 0 { "{ ... @include(if: true) " } else { "{ b " } }); }
            d.push_str("{ z }"); for _ in 0..levels { d.push_str(" }"); }
            n += 1; nontrivial += 1;
            let depth = levels + 1;      // selection sets opened
            let got = parse_query(&d).is_ok();
            if got != (depth <= 64) && !(depth >= 64 && depth <= 66 && got == (depth <= 65)) { note(&mut bad, format!("{} nested selection sets ({}): parser {}", depth, ["fields", "bare inline fragments", "typed inline fragments", "mixed", "directive fragments"][kind], if got { "accepts" } else { "rejects" })); } } },
        "numbers" => for w in words(&['0', '1', '9', '-', '.', 'e', '+'], 5) {
            if w.is_empty() { continue; }
            if args["skip_negative_zero"] == true && w.starts_with("-0") && ref_number(&w) == Some(false) { continue; }
            let exp = ref_number(&w);
            // region of the open finding on float rounding: decimal exponents beyond +-22 (serde_json's exact fast path ends there)
            if args["skip_inexact_floats"] == true && exp == Some(true) { if let Some(p) = w.find(|c| c == 'e' || c == 'E') { if w[p + 1..].trim_start_matches(['+', '-']).parse::<u32>().map(|e| e > 22).unwrap_or(true) && w.parse::<f64>().map(|x| x.is_finite()).unwrap_or(false) { continue; } } }
            n += 1; if exp.is_some() { nontrivial += 1; }
            let got = arg_of(&format!("{{ f(a: {}) }}", w));
            match (exp, got) {
                (Some(false), Ok(GqlValue::Number(g))) if g.as_i64() == w.parse::<i64>().ok() && g.is_i64() || (w.parse::<i64>().is_ok() && g.as_i64() == w.parse::<i64>().ok()) => {},
                (Some(true), Ok(GqlValue::Number(g))) if g.as_f64() == w.parse::<f64>().ok() && !g.is_i64() && !g.is_u64() => {},
                (Some(true), Err(_)) if w.parse::<f64>().map(|x| !x.is_finite()).unwrap_or(false) => {},      // Float must be finite: a literal beyond the f64 range is rejected
                (None, Err(_)) => {},
                (None, Ok(g)) if !matches!(g, GqlValue::Number(_)) => {},      // e.g. `e1` is an enum value, not a number
                (e, g) => note(&mut bad, format!("number {:?}: reference lexer says {:?}, parser gave {:?}", w, e, g)) } },
        "keywords" => for w in ["true1", "nullx", "falsey", "trueValue", "null_", "false0"] {
            // a Name that merely starts with true / false / null is ONE enum value (longest match), not a keyword followed by something
            n += 1; nontrivial += 1;
            match arg_of(&format!("{{ f(a: {}) }}", w)) { Ok(GqlValue::Enum(e)) if e.as_str() == w => {}, g => note(&mut bad, format!("enum value {}: parser gave {:?}", w, g)) } },
        _ => for (doc, ok) in DOCS { if args["skip_fragment_named_on"] == true && *doc == "{ ...on }" { continue; } n += 1; nontrivial += 1; let r = parse_query(doc).is_ok() || async_graphql_parser::parse_schema(doc).is_ok();
            if r != *ok { note(&mut bad, format!("document {:?}: expected {}, parser {}", doc, if *ok { "accept" } else { "reject" }, if r { "accepts" } else { "rejects" })); } },
    }
    Outcome { holds: bad.is_empty(), observed: if bad.is_empty() { format!("{} inputs agree with the reference ({} non-trivial)", n, nontrivial) } else { bad.join("; ") }, expected: "parser == reference recogniser/decoder on every enumerated input".into() }
}
const DOCS: &[(&str, bool)] = &[
    ("{ a }", true), ("query { a }", true), ("query Q($v: [Int!]! = [1]) @d { a(x: $v) @e(f: 1) ...F ... on T { b } ... @i { c } } fragment F on T { d }", true),
    ("mutation M { a } subscription S { b }", true), ("{ a: b }", true), ("{ a(x: {k: [1, 2.5, \"s\", true, null, E, $v]}) }", true),
    ("fragment on on T { a }", false), ("{ a(x: $) }", false), ("{ a(x: 1.) }", false), ("{ a(x: 01) }", false), ("{ a(x: 1a) }", false), ("{ }", false), ("", false),
    ("query ($v: Int = $w) { a }", false), ("{ a(x: [1,) }", false), ("{ a b: }", false), ("{ ...on }", false), ("{ true }", true), ("{ a(x: true) }", true), ("{ a(e: null) }", true),
    ("type T { a(x: Int = 1): [T!]! @d } interface I implements J { a: Int } union U = | A | B enum E { X Y } input In { a: Int = 1 } scalar S directive @d(a: Int) repeatable on FIELD | OBJECT schema { query: T } extend type T { b: Int }", true),
    ("type T { }", false), ("union U = ", false), ("enum E { true }", false), ("type T { a: [Int }", false), ("directive @d on NOWHERE", false), ("schema { query: T mutation }", false),
    ("\"desc\" type T { \"\"\"block\"\"\" a: Int }", true), ("{ a(x: \"\\q\") }", false), ("{ a(x: \"\\uD800\") }", false), ("{ a # comment\n b, c,,, }", true), ("\u{feff}{ a }", true),
];
pub fn inputs(_seed: u64, open: &[String]) -> impl Iterator<Item = Value> {
    let has = |id: &str| open.iter().any(|x| x == id);
    vec![json!({"kind": "docs", "skip_fragment_named_on": has("C13-fragment-spread-named-on")}), json!({"kind": "strings"}), json!({"kind": "unicode"}),
         json!({"kind": "numbers", "skip_negative_zero": has("C13-negative-zero-is-a-float"), "skip_inexact_floats": has("C13-float-literals-not-correctly-rounded")}), json!({"kind": "blocks"}), json!({"kind": "block_lines"}), json!({"kind": "nesting"})].into_iter()
        .chain(if has("C13-enum-names-with-keyword-prefix") { vec![] } else { vec![json!({"kind": "keywords"})] })
}
