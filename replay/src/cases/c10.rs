//! C10: recursion-depth and directive-count walkers vs. an independent measure on the parsed document.
use crate::{rng::Rng, Outcome};
use async_graphql::verif_hooks;
use async_graphql_parser::{parse_query, types::*};
use serde_json::{json, Value};

/// deepest nesting level reached from `ss` (at level `cur`), fragments inlined; None = unbounded (cycle), capped
fn depth(doc: &ExecutableDocument, ss: &SelectionSet, cur: usize, cap: usize) -> usize {
    if cur > cap { return cur; }
    let mut m = cur;
    for it in &ss.items {
        let child = match &it.node {
            Selection::Field(f) => if f.node.selection_set.node.items.is_empty() { None } else { Some(&f.node.selection_set.node) },
            Selection::FragmentSpread(s) => doc.fragments.get(&s.node.fragment_name.node).map(|f| &f.node.selection_set.node),
            Selection::InlineFragment(i) => Some(&i.node.selection_set.node),
        };
        if let Some(c) = child { m = m.max(depth(doc, c, cur + 1, cap)); }
    }
    m
}

fn max_dirs(doc: &ExecutableDocument, ss: &SelectionSet, fuel: usize) -> usize {
    if fuel == 0 { return 0; }
    let mut m = 0;
    for it in &ss.items {
        match &it.node {
            Selection::Field(f) => { m = m.max(f.node.directives.len()).max(max_dirs(doc, &f.node.selection_set.node, fuel - 1)); }
            Selection::FragmentSpread(s) => if let Some(f) = doc.fragments.get(&s.node.fragment_name.node) { m = m.max(max_dirs(doc, &f.node.selection_set.node, fuel - 1)); },
            Selection::InlineFragment(i) => { m = m.max(max_dirs(doc, &i.node.selection_set.node, fuel - 1)); }
        }
    }
    m
}

/// args {"doc": "...", "limit": n}
pub fn depth_case(args: &Value) -> Outcome {
    let q = args["doc"].as_str().unwrap();
    let limit = args["limit"].as_u64().unwrap() as usize;
    let doc = match parse_query(q) { Ok(d) => d, Err(e) => return Outcome { holds: true, observed: format!("parse error {}", e), expected: "n/a".into() } };
    let got = verif_hooks::check_recursive_depth(&doc, limit).is_err();
    let d = doc.operations.iter().map(|(_, op)| depth(&doc, &op.node.selection_set.node, 0, limit + 2)).max().unwrap_or(0);
    let exp = d > limit;
    Outcome { holds: got == exp, observed: format!("rejected={} (nesting {} vs limit {})", got, d, limit), expected: format!("rejected={}", exp) }
}

pub fn directives_case(args: &Value) -> Outcome {
    let q = args["doc"].as_str().unwrap();
    let limit = args["limit"].as_u64().unwrap() as usize;
    let doc = match parse_query(q) { Ok(d) => d, Err(e) => return Outcome { holds: true, observed: format!("parse error {}", e), expected: "n/a".into() } };
    if verif_hooks::check_recursive_depth(&doc, 32).is_err() { return Outcome { holds: true, observed: "too deep / cyclic: not in the walker's domain".into(), expected: "n/a".into() }; }
    let got = verif_hooks::check_max_directives(&doc, limit).is_err();
    let m = doc.operations.iter().map(|(_, op)| max_dirs(&doc, &op.node.selection_set.node, 40)).max().unwrap_or(0);
    let exp = m > limit;
    Outcome { holds: got == exp, observed: format!("rejected={} (max directives on a reachable field {} vs limit {})", got, m, limit), expected: format!("rejected={}", exp) }
}

fn gen_set(r: &mut Rng, depth: usize, frags: usize, out: &mut String) {
    out.push('{');
    let n = 1 + r.below(3);
    for i in 0..n {
        out.push(' ');
        match r.below(if depth == 0 { 1 } else { 4 }) {
            0 => { out.push_str(&format!("f{}", i)); for k in 0..r.below(4) { out.push_str(&format!(" @d{}", k)); } }
            1 => { out.push_str(&format!("g{}", i)); for k in 0..r.below(3) { out.push_str(&format!(" @e{}", k)); } out.push(' '); gen_set(r, depth - 1, frags, out); }
            2 => { out.push_str("... on T "); gen_set(r, depth - 1, frags, out); }
            _ => { if frags > 0 { out.push_str(&format!("...F{}", r.below(frags as u64))); } else { out.push('x'); } }
        }
    }
    out.push_str(" }");
}

pub fn doc_inputs(seed: u64) -> impl Iterator<Item = Value> {
    let mut out = Vec::new();
    let mut r = Rng(seed);
    let fixed = [
        "{ a }", "{ a { b } }", "{ a { b { c } } }", "{ ... { a } }", "{ ...F } fragment F on T { a { b } }", "{ a { ...F } } fragment F on T { b { c } }",
        "{ ...F } fragment F on T { ...G } fragment G on T { x @a @b @c }", "{ a @a @b }", "{ ... on T { a @a @b @c } }", "{ a { b @a @b } c @x }",
        "{ ...A } fragment A on T { ...B } fragment B on T { ...A }", "query Q { a } query R { b { c { d } } }",
    ];
    for d in fixed { for l in 0..5u64 { out.push(json!({"doc": d, "limit": l})); } }
    for _ in 0..150 {
        let frags = r.below(3) as usize;
        let mut d = String::new();
        let dd = 1 + r.below(4) as usize;
        gen_set(&mut r, dd, frags, &mut d);
        for i in 0..frags { d.push_str(&format!(" fragment F{} on T ", i)); let dd = r.below(3) as usize; gen_set(&mut r, dd, 0, &mut d); }
        for l in 0..5u64 { out.push(json!({"doc": d, "limit": l})); }
    }
    out.into_iter()
}
