//! C06: the value a resolver receives for each argument vs. the spec's CoerceArgumentValues (hand-written expectations).
use crate::Outcome;
use async_graphql::{dynamic, *};
use futures_util::FutureExt;
use serde_json::{json, Value};

#[derive(InputObject)]
struct In { a: Option<i32>, #[graphql(default = 5)] b: i32, m: MaybeUndefined<i32> }
struct Query;
#[Object]
impl Query {
    async fn echo(&self, #[graphql(default = 7)] n: i32) -> i32 { n }
    async fn req(&self, n: i32) -> i32 { n }
    async fn opt(&self, n: Option<i32>) -> i32 { n.unwrap_or(-1) }
    async fn optd(&self, #[graphql(default = 9)] n: Option<i32>) -> i32 { n.unwrap_or(-1) }
    async fn mu(&self, n: MaybeUndefined<i32>) -> String { match n { MaybeUndefined::Undefined => "undefined".into(), MaybeUndefined::Null => "null".into(), MaybeUndefined::Value(v) => format!("value:{}", v) } }
    async fn list(&self, l: Vec<Option<i32>>) -> String { format!("{:?}", l) }
    async fn inp(&self, i: In) -> String { format!("a={:?} b={} m={}", i.a, i.b, match i.m { MaybeUndefined::Undefined => "undefined".into(), MaybeUndefined::Null => "null".into(), MaybeUndefined::Value(v) => v.to_string() }) }
}

fn dyn_schema() -> dynamic::Schema {
    use dynamic::*;
    let q = Object::new("Query").field(
        Field::new("echo", TypeRef::named_nn(TypeRef::STRING), |ctx| FieldFuture::new(async move {
            let a = ctx.args.get("a");
            Ok(Some(async_graphql::Value::from(match a { None => "absent".to_string(), Some(v) => if v.is_null() { "null".to_string() } else { v.i64().map(|x| x.to_string()).unwrap_or("?".into()) } })))
        })).argument(InputValue::new("a", TypeRef::named(TypeRef::INT)).default_value(async_graphql::Value::from(5))),
    ).field(
        Field::new("plain", TypeRef::named_nn(TypeRef::STRING), |ctx| FieldFuture::new(async move {
            let a = ctx.args.get("a");
            Ok(Some(async_graphql::Value::from(match a { None => "absent".to_string(), Some(v) => if v.is_null() { "null".to_string() } else { v.i64().map(|x| x.to_string()).unwrap_or("?".into()) } })))
        })).argument(InputValue::new("a", TypeRef::named(TypeRef::INT))),
    );
    Schema::build("Query", None, None).register(q).finish().unwrap()
}

/// args {"schema": "static"|"dynamic", "query": "...", "variables": {...}, "data": expected | null (= an error is expected, no data)}
pub fn args(a: &Value) -> Outcome {
    let mut req = Request::new(a["query"].as_str().unwrap());
    if let Some(v) = a.get("variables") { if !v.is_null() { req = req.variables(Variables::from_json(v.clone())); } }
    let resp = if a["schema"] == "dynamic" { dyn_schema().execute(req).now_or_never().unwrap() } else { Schema::new(Query, EmptyMutation, EmptySubscription).execute(req).now_or_never().unwrap() };
    let data = resp.data.clone().into_json().unwrap();
    let holds = if a["data"].is_null() { !resp.errors.is_empty() } else { resp.errors.is_empty() && data == a["data"] };
    Outcome { holds, observed: format!("data {} errors {:?}", data, resp.errors.iter().map(|e| e.message.clone()).collect::<Vec<_>>()), expected: if a["data"].is_null() { "an error".into() } else { format!("data {}", a["data"]) } }
}

pub fn inputs(_seed: u64, open: &[String]) -> impl Iterator<Item = Value> {
    let has = |id: &str| open.iter().any(|x| x == id);
    let s = "static";
    let mut v = vec![
        json!({"schema": s, "query": "{ echo }", "data": {"echo": 7}}),
        json!({"schema": s, "query": "{ echo(n: 3) }", "data": {"echo": 3}}),
        json!({"schema": s, "query": "query($n: Int) { echo(n: $n) }", "variables": {"n": 4}, "data": {"echo": 4}}),
        json!({"schema": s, "query": "query($n: Int = 8) { echo(n: $n) }", "data": {"echo": 8}}),
        json!({"schema": s, "query": "query($n: Int = 8) { echo(n: $n) }", "variables": {"n": 2}, "data": {"echo": 2}}),
        json!({"schema": s, "query": "{ echo(n: null) }", "data": null}),
        json!({"schema": s, "query": "{ req }", "data": null}),
        json!({"schema": s, "query": "{ opt }", "data": {"opt": -1}}),
        json!({"schema": s, "query": "{ opt(n: null) }", "data": {"opt": -1}}),
        json!({"schema": s, "query": "{ opt(n: 6) }", "data": {"opt": 6}}),
        json!({"schema": s, "query": "query($n: Int) { opt(n: $n) }", "data": {"opt": -1}}),
        json!({"schema": s, "query": "query($n: Int) { opt(n: $n) }", "variables": {"n": null}, "data": {"opt": -1}}),
        json!({"schema": s, "query": "query($n: Int = 7) { opt(n: $n) }", "variables": {"n": null}, "data": {"opt": -1}}),
        json!({"schema": s, "query": "query($n: Int = 7) { opt(n: $n) }", "data": {"opt": 7}}),
        json!({"schema": s, "query": "{ optd }", "data": {"optd": 9}}),
        json!({"schema": s, "query": "{ optd(n: null) }", "data": {"optd": -1}}),
        json!({"schema": s, "query": "{ mu }", "data": {"mu": "undefined"}}),
        json!({"schema": s, "query": "{ mu(n: null) }", "data": {"mu": "null"}}),
        json!({"schema": s, "query": "{ mu(n: 3) }", "data": {"mu": "value:3"}}),
        json!({"schema": s, "query": "query($n: Int) { mu(n: $n) }", "data": {"mu": "undefined"}}),
        json!({"schema": s, "query": "query($n: Int) { mu(n: $n) }", "variables": {"n": null}, "data": {"mu": "null"}}),
        json!({"schema": s, "query": "query($n: Int = 7) { mu(n: $n) }", "variables": {"n": null}, "data": {"mu": "null"}}),
        json!({"schema": s, "query": "query($n: Int = 7) { mu(n: $n) }", "data": {"mu": "value:7"}}),
        json!({"schema": s, "query": "query($x: Int) { list(l: [1, $x, null]) }", "data": {"list": "[Some(1), None, None]"}}),
        json!({"schema": s, "query": "query($x: Int) { list(l: [1, $x]) }", "variables": {"x": 2}, "data": {"list": "[Some(1), Some(2)]"}}),
        json!({"schema": s, "query": "{ inp(i: {a: 1}) }", "data": {"inp": "a=Some(1) b=5 m=undefined"}}),
        json!({"schema": s, "query": "{ inp(i: {b: 2, m: null}) }", "data": {"inp": "a=None b=2 m=null"}}),
        json!({"schema": s, "query": "query($m: Int) { inp(i: {m: $m}) }", "data": {"inp": "a=None b=5 m=undefined"}}),
        json!({"schema": s, "query": "query($m: Int) { inp(i: {m: $m}) }", "variables": {"m": null}, "data": {"inp": "a=None b=5 m=null"}}),
        json!({"schema": s, "query": "query($i: In) { inp(i: $i) }", "variables": {"i": {"a": 3}}, "data": {"inp": "a=Some(3) b=5 m=undefined"}}),
        json!({"schema": "dynamic", "query": "{ echo }", "data": {"echo": "5"}}),
        json!({"schema": "dynamic", "query": "{ echo(a: 2) }", "data": {"echo": "2"}}),
        json!({"schema": "dynamic", "query": "{ echo(a: null) }", "data": {"echo": "null"}}),
        json!({"schema": "dynamic", "query": "query($a: Int) { echo(a: $a) }", "variables": {"a": null}, "data": {"echo": "null"}}),
        json!({"schema": "dynamic", "query": "query($a: Int) { echo(a: $a) }", "variables": {"a": 3}, "data": {"echo": "3"}}),
        json!({"schema": "dynamic", "query": "query($a: Int) { echo(a: $a) }", "data": {"echo": "5"}}),                       // omitted variable: the argument default applies
        json!({"schema": "dynamic", "query": "query($a: Int = 8) { echo(a: $a) }", "data": {"echo": "8"}}),                   // variable default wins over the argument default
        json!({"schema": "dynamic", "query": "query($a: Int = 8) { echo(a: $a) }", "variables": {"a": 1}, "data": {"echo": "1"}}),
        json!({"schema": "dynamic", "query": "query($a: Int) { plain(a: $a) }", "data": {"plain": "absent"}}),                // omitted stays omitted when there is no default
        json!({"schema": "dynamic", "query": "{ plain }", "data": {"plain": "absent"}}),
        json!({"schema": "dynamic", "query": "{ plain(a: null) }", "data": {"plain": "null"}}),
    ];
    if !has("C06-default-not-applied-for-omitted-variable") {
        v.push(json!({"schema": s, "query": "query($n: Int) { echo(n: $n) }", "data": {"echo": 7}}));
        v.push(json!({"schema": s, "query": "query($n: Int) { optd(n: $n) }", "data": {"optd": 9}}));
    }
    v.into_iter()
}
