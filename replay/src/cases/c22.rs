//! C22: Lookahead and SelectionField views seen by a resolver vs. the sub-fields the document really selects (fragments inlined).
use crate::Outcome;
use async_graphql::*;
use async_graphql_parser::{parse_query, types as ast};
use futures_util::FutureExt;
use serde_json::{json, Value};
use std::sync::Mutex;

static SEEN: Mutex<Vec<String>> = Mutex::new(Vec::new());
const PATHS: &[&[&str]] = &[&["a"], &["b"], &["detail"], &["detail", "inner"], &["detail", "inner", "x"], &["detail", "inner", "y"], &["detail", "c"], &["val"], &["nope"]];

fn view(f: SelectionField<'_>) -> String {
    let args: Vec<String> = f.arguments().unwrap_or_default().into_iter().map(|(n, v)| format!("{}={}", n, v)).collect();
    let subs: Vec<String> = f.selection_set().map(view).collect();
    format!("{}({})[{}]", f.name(), args.join(","), subs.join(" "))
}

struct Inner;
#[Object]
impl Inner { async fn x(&self) -> i32 { 1 } async fn y(&self) -> i32 { 2 } }
struct Detail;
#[Object]
impl Detail { async fn c(&self) -> i32 { 1 } async fn inner(&self) -> Inner { Inner } }
struct Obj;
#[Object]
impl Obj { async fn a(&self) -> i32 { 1 } async fn b(&self) -> i32 { 2 } async fn val(&self, n: Option<i32>) -> i32 { n.unwrap_or(0) } async fn detail(&self) -> Detail { Detail } }
struct Query;
#[Object]
impl Query {
    async fn obj(&self, ctx: &Context<'_>) -> Obj {
        let la = ctx.look_ahead();
        let mut out = Vec::new();
        for p in PATHS { let mut l = la.field(p[0]); for s in &p[1..] { l = l.field(s); } out.push(format!("{}={}", p.join("."), l.exists())); }
        out.push(view(ctx.field()));
        *SEEN.lock().unwrap() = out;
        Obj
    }
}

// ---- independent oracle on the parsed document
fn collect<'a>(doc: &'a ast::ExecutableDocument, ss: &'a ast::SelectionSet, out: &mut Vec<&'a ast::Field>) {
    for it in &ss.items { match &it.node {
        ast::Selection::Field(f) => out.push(&f.node),
        ast::Selection::InlineFragment(i) => collect(doc, &i.node.selection_set.node, out),
        ast::Selection::FragmentSpread(s) => if let Some(fr) = doc.fragments.get(&s.node.fragment_name.node) { collect(doc, &fr.node.selection_set.node, out) },
    } }
}
fn exists(doc: &ast::ExecutableDocument, parents: Vec<&ast::Field>, path: &[&str]) -> bool {
    if path.is_empty() { return !parents.is_empty(); }
    let mut next = Vec::new();
    for p in parents { let mut subs = Vec::new(); collect(doc, &p.selection_set.node, &mut subs); for s in subs { if s.name.node == path[0] { next.push(s); } } }
    exists(doc, next, &path[1..])
}
/// the spec's CoerceArgumentValues on one argument value: None = omitted
fn ovalue(v: &async_graphql_value::Value, vars: &Variables, defs: &[Positioned<ast::VariableDefinition>]) -> Option<async_graphql_value::ConstValue> {
    use async_graphql_value::{ConstValue as C, Value as V};
    Some(match v {
        V::Variable(n) => { let d = defs.iter().find(|d| d.node.name.node == *n)?; match vars.get(n) { Some(x) => x.clone(), None => d.node.default_value.as_ref()?.node.clone() } }
        V::Null => C::Null, V::Number(n) => C::Number(n.clone()), V::String(s) => C::String(s.clone()), V::Boolean(b) => C::Boolean(*b), V::Binary(b) => C::Binary(b.clone()), V::Enum(e) => C::Enum(e.clone()),
        V::List(l) => C::List(l.iter().map(|x| ovalue(x, vars, defs).unwrap_or(C::Null)).collect()),
        V::Object(o) => C::Object(o.iter().filter_map(|(k, x)| ovalue(x, vars, defs).map(|y| (k.clone(), y))).collect()),
    })
}
fn oview(doc: &ast::ExecutableDocument, f: &ast::Field, vars: &Variables, defs: &[Positioned<ast::VariableDefinition>]) -> String {
    let args: Vec<String> = f.arguments.iter().filter_map(|(n, v)| ovalue(&v.node, vars, defs).map(|x| format!("{}={}", n.node, x))).collect();
    let mut subs = Vec::new(); collect(doc, &f.selection_set.node, &mut subs);
    format!("{}({})[{}]", f.name.node, args.join(","), subs.iter().map(|s| oview(doc, s, vars, defs)).collect::<Vec<_>>().join(" "))
}

/// args {"query": "...", "variables": {...}}  -- the document must select `obj` exactly once at the root
pub fn lookahead(args: &Value) -> Outcome {
    let q = args["query"].as_str().unwrap();
    let vars = args.get("variables").filter(|v| !v.is_null()).map(|v| Variables::from_json(v.clone())).unwrap_or_default();
    let resp = Schema::new(Query, EmptyMutation, EmptySubscription).execute(Request::new(q).variables(vars.clone())).now_or_never().unwrap();
    let seen = SEEN.lock().unwrap().clone();
    let doc = parse_query(q).unwrap();
    let op = doc.operations.iter().next().unwrap().1;
    let mut roots = Vec::new(); collect(&doc, &op.node.selection_set.node, &mut roots);
    let obj: Vec<&ast::Field> = roots.into_iter().filter(|f| f.name.node == "obj").collect();
    let mut exp = Vec::new();
    for p in PATHS { exp.push(format!("{}={}", p.join("."), exists(&doc, obj.clone(), p))); }
    exp.push(oview(&doc, obj[0], &vars, &op.node.variable_definitions));
    Outcome { holds: resp.errors.is_empty() && seen == exp, observed: format!("{:?} errors {:?}", seen, resp.errors.iter().map(|e| e.message.clone()).collect::<Vec<_>>()), expected: format!("{:?}", exp) }
}

pub fn inputs(_seed: u64) -> impl Iterator<Item = Value> {
    let v = vec![
        json!({"query": "{ obj { a } }"}),
        json!({"query": "{ obj { a b detail { c } } }"}),
        json!({"query": "{ obj { detail { inner { x } } detail { inner { y } } } }"}),
        json!({"query": "{ obj { detail { c } detail { inner { y } } a } }"}),
        json!({"query": "{ obj { ... on Obj { detail { inner { x } } } ...D } } fragment D on Obj { detail { inner { y } } b }"}),
        json!({"query": "{ obj { a ...BC val(n: 3) } } fragment BC on Obj { b detail { c } }"}),
        json!({"query": "query($v: Int) { obj { a ...BC val(n: $v) } } fragment BC on Obj { b }", "variables": {"v": 9}}),
        json!({"query": "{ obj { ... { a } val } }"}),
        // resolved arguments: variable defaults apply, an omitted variable leaves the argument out, explicit null stays null
        json!({"query": "query($v: Int = 4) { obj { val(n: $v) } }"}),
        json!({"query": "query($v: Int = 4) { obj { val(n: $v) } }", "variables": {"v": 8}}),
        json!({"query": "query($v: Int = 4) { obj { val(n: $v) } }", "variables": {"v": null}}),
        json!({"query": "query($v: Int) { obj { val(n: $v) a } }"}),
        json!({"query": "query($v: Int = 4, $w: Int) { obj { ...F } } fragment F on Obj { x: val(n: $v) y: val(n: $w) }", "variables": {"w": 2}}),
        json!({"query": "{ obj { ... on Obj { ... on Obj { detail { inner { x y } } } } b } }"}),
        json!({"query": "{ obj { x: a y: a ...F b } } fragment F on Obj { ...G a } fragment G on Obj { detail { c } }"}),
        json!({"query": "{ obj { ...F } } fragment F on Obj { val(n: 1) }"}),
        json!({"query": "{ obj { detail { ...I c } } } fragment I on Detail { inner { x } }"}),
    ];
    v.into_iter()
}
