#!/bin/sh
# Offline setup after a fresh restore: builds the concrete replay binary and warms the Kani build
# of the real crates. Everything is rebuilt from files on disk (/repo, cargo registry cache).
set -e
HERE=$(cd "$(dirname "$0")" && pwd)
cd "$HERE"
export CARGO_NET_OFFLINE=true
mkdir -p .cache out evidence
cp /repo/Cargo.lock replay/Cargo.lock
cp /repo/Cargo.lock kani/Cargo.lock
(cd replay && cargo build --offline -q) || { echo "replay crate build failed"; exit 1; }
python3 vx/kani.py --warm || echo "kani warm-up failed (checks will rebuild on demand)"
echo "setup done"
