"""C29 -- DataLoader cache storages behave like the documented cache (abstract map view per operation, whole map stated)."""
from vx.unit import Unit, Sub, ReSub

F = 'src/dataloader/cache.rs'

SHIMS = r'''
// ---- trusted shims (assumed contracts on dependencies), instantiated at K = V = u64 (R-inst)
pub type K = u64;
pub type V = u64;
pub struct Cow { pub v: u64 }                        // std::borrow::Cow<'_, T>: only into_owned() is used
impl Cow { pub fn into_owned(self) -> (r: u64) ensures r == self.v { self.v } }
pub trait ClonedV { fn cloned_v(self) -> (r: Option<u64>) ensures r == self.spec_cloned(); spec fn spec_cloned(&self) -> Option<u64>; }
impl ClonedV for Option<&u64> {
    open spec fn spec_cloned(&self) -> Option<u64> { match *self { Some(x) => Some(*x), None => None } }
    fn cloned_v(self) -> (r: Option<u64>) { match self { Some(x) => Some(*x), None => None } }
}
// std::collections::HashMap<K, V, S>
#[verifier::external_body]
pub struct StdHashMap { _p: u8 }
impl StdHashMap {
    pub uninterp spec fn view(&self) -> Map<K, V>;
    #[verifier::external_body] pub fn get(&self, k: &K) -> (r: Option<&V>) ensures r == (if self.view().contains_key(*k) { Some(&self.view()[*k]) } else { None }) { unimplemented!() }
    #[verifier::external_body] pub fn insert(&mut self, k: K, v: V) -> (r: Option<V>) ensures final(self).view() == old(self).view().insert(k, v) { unimplemented!() }
    #[verifier::external_body] pub fn remove(&mut self, k: &K) -> (r: Option<V>) ensures final(self).view() == old(self).view().remove(*k) { unimplemented!() }
    #[verifier::external_body] pub fn clear(&mut self) ensures final(self).view() == Map::<K, V>::empty() { unimplemented!() }
}
// lru::LruCache<K, V>: bounded map with a recency order (front = most recently used). Documented behaviour of lru 0.x, assumed.
#[verifier::external_body]
pub struct LruInner { _p: u8 }
pub open spec fn touch(order: Seq<K>, k: K) -> Seq<K> { seq![k] + order.filter(|x: K| x != k) }
impl LruInner {
    pub uninterp spec fn view(&self) -> Map<K, V>;
    pub uninterp spec fn order(&self) -> Seq<K>;      // keys, most recently used first
    pub uninterp spec fn cap(&self) -> nat;
    #[verifier::external_body] pub fn get(&mut self, k: &K) -> (r: Option<&V>)
        ensures r == (if old(self).view().contains_key(*k) { Some(&old(self).view()[*k]) } else { None }), final(self).view() == old(self).view(), final(self).cap() == old(self).cap(),
                final(self).order() == (if old(self).view().contains_key(*k) { touch(old(self).order(), *k) } else { old(self).order() }) { unimplemented!() }
    #[verifier::external_body] pub fn peek(&self, k: &K) -> (r: Option<&V>) ensures r == (if self.view().contains_key(*k) { Some(&self.view()[*k]) } else { None }) { unimplemented!() }
    #[verifier::external_body] pub fn put(&mut self, k: K, v: V) -> (r: Option<V>)
        ensures final(self).cap() == old(self).cap(), final(self).order().len() <= final(self).cap() || old(self).cap() == 0,
                final(self).order() == (if old(self).view().contains_key(k) || old(self).order().len() < old(self).cap() { touch(old(self).order(), k) } else { touch(old(self).order().drop_last(), k) }),
                final(self).view() == (if old(self).view().contains_key(k) || old(self).order().len() < old(self).cap() { old(self).view().insert(k, v) } else { old(self).view().remove(old(self).order().last()).insert(k, v) }) { unimplemented!() }
    #[verifier::external_body] pub fn pop(&mut self, k: &K) -> (r: Option<V>)
        ensures final(self).view() == old(self).view().remove(*k), final(self).order() == old(self).order().filter(|x: K| x != *k), final(self).cap() == old(self).cap() { unimplemented!() }
    #[verifier::external_body] pub fn clear(&mut self) ensures final(self).view() == Map::<K, V>::empty(), final(self).order() == Seq::<K>::empty(), final(self).cap() == old(self).cap() { unimplemented!() }
}
pub struct HashMapCacheImpl(pub StdHashMap);
pub struct LruCacheImpl(pub LruInner);
pub struct NoCacheImpl { pub _m: u8 }
'''


def cache_unit(kf):
    u = Unit('c29_cache_storages', ['C29'], 'HashMap / LRU / no-op cache storages: every operation stated on the whole abstract map')
    u.kf = kf
    u.trusted(SHIMS, 'HashMap / lru::LruCache / Cow shims (K = V = u64)')
    sig = [ReSub(r'Self::Key', 'K', count='*'), ReSub(r'Self::Value', 'V', count='*'), ReSub(r"Cow<'_, K>", 'Cow', count='*'), ReSub(r"Cow<'_, V>", 'Cow', count='*')]
    cl = [Sub('.cloned()', '.cloned_v()', count='*', rule='R-inst')]
    H = 'impl<K, V, S> CacheStorage for HashMapCacheImpl<K, V, S>'
    L = 'impl<K, V> CacheStorage for LruCacheImpl<K, V>'
    N = 'impl<K, V> CacheStorage for NoCacheImpl<K, V>'
    hv, fhv = 'old(self).0.view()', 'final(self).0.view()'
    u.extract_fn(F, [H, 'fn get'], wrap_impl='HashMapCacheImpl', label=F + '::HashMapCacheImpl::get', sig_rewrites=sig, rewrites=cl,
                 ensures=[f'r == (if {hv}.contains_key(*key) {{ Some({hv}[*key]) }} else {{ None }})', f'{fhv} == {hv}'])
    u.extract_fn(F, [H, 'fn insert'], wrap_impl='HashMapCacheImpl', label=F + '::HashMapCacheImpl::insert', sig_rewrites=sig,
                 ensures=[f'{fhv} == {hv}.insert(key.v, val.v)'])
    u.extract_fn(F, [H, 'fn remove'], wrap_impl='HashMapCacheImpl', label=F + '::HashMapCacheImpl::remove', sig_rewrites=sig,
                 ensures=[f'{fhv} == {hv}.remove(*key)'])
    u.extract_fn(F, [H, 'fn clear'], wrap_impl='HashMapCacheImpl', label=F + '::HashMapCacheImpl::clear', sig_rewrites=sig,
                 ensures=[f'{fhv} == Map::<K, V>::empty()'])
    lo, flo = 'old(self).0', 'final(self).0'
    u.extract_fn(F, [L, 'fn get'], wrap_impl='LruCacheImpl', label=F + '::LruCacheImpl::get', sig_rewrites=sig, rewrites=cl,
                 ensures=[f'r == (if {lo}.view().contains_key(*key) {{ Some({lo}.view()[*key]) }} else {{ None }})', f'{flo}.view() == {lo}.view()',
                          f'{lo}.view().contains_key(*key) ==> {flo}.order() == touch({lo}.order(), *key)   // a hit refreshes recency'])
    u.extract_fn(F, [L, 'fn insert'], wrap_impl='LruCacheImpl', label=F + '::LruCacheImpl::insert', sig_rewrites=sig,
                 ensures=[f'{flo}.view().contains_key(key.v) && {flo}.view()[key.v] == val.v',
                          f'({lo}.view().contains_key(key.v) || {lo}.order().len() < {lo}.cap()) ==> {flo}.view() == {lo}.view().insert(key.v, val.v)',
                          f'!({lo}.view().contains_key(key.v) || {lo}.order().len() < {lo}.cap()) ==> {flo}.view() == {lo}.view().remove({lo}.order().last()).insert(key.v, val.v)   // at capacity exactly the least recently used entry is evicted'])
    u.extract_fn(F, [L, 'fn remove'], wrap_impl='LruCacheImpl', label=F + '::LruCacheImpl::remove', sig_rewrites=sig,
                 ensures=[f'{flo}.view() == {lo}.view().remove(*key)'])
    u.extract_fn(F, [L, 'fn clear'], wrap_impl='LruCacheImpl', label=F + '::LruCacheImpl::clear', sig_rewrites=sig,
                 ensures=[f'{flo}.view() == Map::<K, V>::empty()'])
    u.extract_fn(F, [N, 'fn get'], wrap_impl='NoCacheImpl', label=F + '::NoCacheImpl::get', sig_rewrites=sig, ensures=['r is None'])
    u.assume('std::collections::HashMap and lru::LruCache are represented by shims with their documented map / recency semantics (assumed contracts on dependencies); K = V = u64 instantiation (R-inst), Clone of a value is the value')
    u.search_case('cache.rs', 'c29_loader')
    return u


UNITS = {'c29_cache_storages': (['C29'], cache_unit)}
SEARCH = {'c29_cache_storages': ['c29_loader']}
BOUNDED = {'C29': [dict(case='c29_loader', function='src/dataloader/mod.rs::DataLoader::{load_one, load_many, feed_one, feed_many, clear, enable_cache, enable_all_cache, get_cached_values} with HashMapCache / LruCache / NoCache',
                        bound='seeded random histories of <= 12 operations over 3 key types / 6 keys on a single-threaded executor (no interleaving), ~300 histories per run, compared with a reference cache model',
                        why='async fns over scc::HashMap, TypeId-indexed Box<dyn Any>, channels and timers: outside Verus and Kani (no async, no dyn Any reasoning)')]}
