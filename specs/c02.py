"""C02 -- execution follows the spec (dynamic schemas): the fragment type-condition test of dynamic collect_fields (E2 fragment)."""
from vx.unit import Unit, Sub, ReSub

F = 'src/dynamic/resolve.rs'

SHIMS = r'''
// field-subset shims (conformance-checked): dynamic::Object, and the unions of the schema (name -> possible types)
pub struct Object { pub name: String, pub implements: StrSet }
pub struct Unions { pub possible: StrMap<StrSet> }
'''

SPEC = r'''
// GraphQL spec, DoesFragmentTypeApply(objectType, fragmentType)
pub open spec fn type_applies(obj: Object, unions: Unions, cond: Seq<char>) -> bool {
    obj.name@ == cond || obj.implements.view().contains(cond)
    || (unions.possible.view().contains_key(cond) && unions.possible.view()[cond].view().contains(obj.name@))
}
'''


def typecond_unit(kf):
    u = Unit('c02_dynamic_type_condition', ['C02'], 'dynamic collect_fields applies a fragment exactly when the runtime object type satisfies its type condition')
    u.kf = kf
    u.prelude('registry_shim')
    u.prelude('string_eq')
    u.trusted(SHIMS, 'dynamic Object shim')
    u.shim_conformance('src/dynamic/object.rs', ['struct Object'], [('name', 'String'), ('implements', 'IndexSet<String>')])
    u.spec(SPEC, 'DoesFragmentTypeApply (dynamic)')
    carve = u.carve('C02-union-type-condition', '!(type_condition is Some && unions.possible.view().contains_key(type_condition->Some_0@))')
    u.extract_fragment(F, ['fn collect_fields'], 'let type_condition_matched = match type_condition {', 'if type_condition_matched {', name='type_condition_matched', end_exclusive=True,
                       header='fn type_condition_matched(type_condition: Option<&str>, object: &Object, unions: &Unions) -> (r: bool)',
                       footer='    type_condition_matched\n}',
                       rewrites=[Sub('type_condition == introspection_type_name', 'type_condition == object.name.as_str()', rule='R-ty')],
                       requires=carve,
                       ensures=['r == (type_condition is None || type_applies(*object, *unions, type_condition->Some_0@))'])
    u.assume('dynamic collect_fields: only the type-condition statement (E2 fragment) is under contract (`introspection_type_name` is `&object.name`, inlined); the unions of the schema are a parameter of the SPEC only')
    u.search_case('dynamic/resolve.rs', 'c02_exec')
    return u


UNITS = {'c02_dynamic_type_condition': (['C02'], typecond_unit)}
SEARCH = {'c02_dynamic_type_condition': ['c02_exec']}
BOUNDED = {'C02': [dict(case='c02_exec', function='dynamic::Schema::execute: collect_fields, resolve, resolve_value, resolve_list, create_value_object',
                        bound='14 hand-written (query, expected JSON text) pairs on a dynamic schema with objects, an interface, a union, lists, scalars and enums',
                        why='the dynamic executor is async over boxed futures; only the type-condition statement is under contract')]}
