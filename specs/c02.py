"""C02 -- execution follows the spec (dynamic schemas): the fragment type-condition test of dynamic collect_fields (E2 fragment)."""
from vx.unit import Unit, Sub, ReSub

F = 'src/dynamic/resolve.rs'

SHIMS = r'''
// field-subset shims (conformance-checked): dynamic::Object, and the unions of the schema (name -> possible types)
pub struct Object { pub name: String, pub implements: StrSet }
pub struct Unions { pub possible: StrMap<StrSet> }
'''

SPEC = r'''
// GraphQL spec, DoesFragmentTypeApply(objectType, fragmentType)
pub open spec fn type_applies(obj: Object, unions: Unions, cond: Seq<char>) -> bool {
    obj.name@ == cond || obj.implements.view().contains(cond)
    || (unions.possible.view().contains_key(cond) && unions.possible.view()[cond].view().contains(obj.name@))
}
'''


def typecond_unit(kf):
    u = Unit('c02_dynamic_type_condition', ['C02'], 'dynamic collect_fields applies a fragment exactly when the runtime object type satisfies its type condition')
    u.kf = kf
    u.prelude('registry_shim')
    u.prelude('string_eq')
    u.trusted(SHIMS, 'dynamic Object shim')
    u.shim_conformance('src/dynamic/object.rs', ['struct Object'], [('name', 'String'), ('implements', 'IndexSet<String>')])
    u.spec(SPEC, 'DoesFragmentTypeApply (dynamic)')
    carve = u.carve('C02-union-type-condition', '!(type_condition is Some && unions.possible.view().contains_key(type_condition->Some_0@))')
    u.extract_fragment(F, ['fn collect_fields'], 'let type_condition_matched = match type_condition {', 'if type_condition_matched {', name='type_condition_matched', end_exclusive=True,
                       header='fn type_condition_matched(type_condition: Option<&str>, object: &Object, unions: &Unions) -> (r: bool)',
                       footer='    type_condition_matched\n}',
                       rewrites=[Sub('type_condition == introspection_type_name', 'type_condition == object.name.as_str()', rule='R-ty')],
                       requires=carve,
                       ensures=['r == (type_condition is None || type_applies(*object, *unions, type_condition->Some_0@))'])
    u.assume('dynamic collect_fields: only the type-condition statement (E2 fragment) is under contract (`introspection_type_name` is `&object.name`, inlined); the unions of the schema are a parameter of the SPEC only')
    u.search_case('dynamic/resolve.rs', 'c02_exec')
    return u


UNITS = {'c02_dynamic_type_condition': (['C02'], typecond_unit)}
SEARCH = {'c02_dynamic_type_condition': ['c02_exec']}
BOUNDED = {'C02': [dict(case='c02_exec', function='dynamic::Schema::execute: collect_fields, resolve, resolve_value, resolve_list, create_value_object',
                        bound='14 hand-written (query, expected JSON text) pairs on a dynamic schema with objects, an interface, a union, lists, scalars and enums',
                        why='the dynamic executor is async over boxed futures; only the type-condition statement is under contract')]}


# ----------------------------------------------------------------------------------------------------------------------
# value completion: resolve / resolve_value (await-erased) -- what reaches the response conforms to the declared type
from vx.unit import AwaitErase, CallSub, ClosureMatch, MacroCall  # noqa: E402
from specs.common import value_types                                 # noqa: E402

T = 'src/dynamic/type.rs'
TR = 'src/dynamic/type_ref.rs'
FV = 'src/dynamic/field.rs'

COMPLETE_SHIMS = r'''
// ---- field-subset shims of the dynamic type descriptions (conformance-checked)
#[verifier::external_body]
pub struct ScalarValidatorFn { _p: u8 }        // Arc<dyn Fn(&Value) -> bool>: opaque, deterministic
pub struct Scalar { pub name: String, pub validator: Option<ScalarValidatorFn> }
impl Scalar {
    pub uninterp spec fn spec_validate(&self, v: Value) -> bool;
    // Scalar::validate: `match &self.validator { Some(f) => f(value), None => true }` -- the closure call is opaque
    #[verifier::external_body]
    pub fn validate(&self, value: &Value) -> (r: bool) ensures r == self.spec_validate(*value) { unimplemented!() }
}
pub struct EnumItem { pub name: String }
pub struct Enum { pub name: String, pub enum_values: StrMap<EnumItem> }
pub struct Object { pub name: String }
pub struct InputObject { pub name: String }
pub struct Interface { pub name: String }
pub struct Union { pub name: String, pub possible_types: StrSet }
pub struct Subscription { pub name: String }
pub enum MetaType { Interface { possible_types: StrSet }, Union { possible_types: StrSet }, Other { name: String } }
pub struct Registry { pub types: StrMap<MetaType> }
pub struct SchemaEnv { pub registry: Registry }
pub struct SchemaInner { pub env: SchemaEnv, pub types: StrMap<Type> }
pub struct Schema(pub SchemaInner);
impl<V> StrMap<V> {
    // IndexMap's Index<&str>: panics when the key is absent
    #[verifier::external_body]
    pub fn idx(&self, k: &str) -> (r: &V) requires self.view().contains_key(k@) ensures *r == self.view()[k@] { unimplemented!() }
}
#[verifier::external_body] pub struct AnyRef { _p: u8 }      // &'a (dyn Any + Send + Sync)
#[verifier::external_body] pub struct AnyBox { _p: u8 }      // Box<dyn Any + Send + Sync>
pub struct ServerError { pub id: u64 }
pub type ServerResult<T> = Result<T, ServerError>;
#[verifier::external_body]
pub fn verif_server_error() -> (r: ServerError) { unimplemented!() }
pub struct Context { pub _p: u8 }
impl Clone for Value { #[verifier::external_body] fn clone(&self) -> (r: Self) ensures r == *self { unimplemented!() } }
pub fn name_of(s: &String) -> (r: Name) ensures r@ == s@ { s.clone() }
// ---- callees left abstract (await-erased async fns), with the contracts their bodies are read to have
// resolve_container(schema, object, &ctx.with_selection_set(..), value, true): `Ok(Some(create_value_object(res)))` or an error
#[verifier::external_body]
pub fn resolve_object(object: &Object, value: &FieldValue) -> (r: ServerResult<Option<Value>>)
    ensures r is Ok ==> r->Ok_0 is Some && r->Ok_0->Some_0 is Object { unimplemented!() }
// resolve_list: every item is completed by `resolve(schema, ctx_item, type_ref, Some(item))`, a `None` result becoming `Null`
#[verifier::external_body]
pub fn resolve_list(schema: &Schema, ctx: &Context, type_ref: &TypeRef, values: &Vec<FieldValue>) -> (r: ServerResult<Option<Value>>)
    ensures r is Ok ==> r->Ok_0 is Some && r->Ok_0->Some_0 is List && r->Ok_0->Some_0->List_0@.len() == values@.len()
        && forall|i: int| 0 <= i < values@.len() ==> conforms(schema, *type_ref, #[trigger] r->Ok_0->Some_0->List_0@[i]) { unimplemented!() }
// values.iter().cloned().map(FieldValue::value).collect::<Vec<_>>()
#[verifier::external_body]
pub fn values_as_field_values(values: &Vec<Value>) -> (r: Vec<FieldValue>)
    ensures r@.len() == values@.len(), forall|i: int| 0 <= i < values@.len() ==> (#[trigger] r@[i]).0 == FieldValueInner::Value(values@[i]) { unimplemented!() }
'''

COMPLETE_SPEC = r'''
// every type name a TypeRef mentions is registered (established by the schema build check, C33)
pub open spec fn known(schema: &Schema, tr: TypeRef) -> bool decreases tr {
    match tr { TypeRef::Named(n) => schema.0.types.view().contains_key(n@), TypeRef::NonNull(t) => known(schema, *t), TypeRef::List(t) => known(schema, *t) }
}
// GraphQL spec, CompleteValue: what a position of named type `t` may hold besides null
pub open spec fn leaf_ok(t: Type, v: Value) -> bool {
    match t {
        Type::Scalar(s) => s.spec_validate(v),                                                   // the scalar's own check accepted it
        Type::Enum(e) => v is Enum && e.enum_values.view().contains_key(v->Enum_0@),             // a declared enum value
        Type::Object(_) => v is Object, Type::Interface(_) => v is Object, Type::Union(_) => v is Object,
        _ => false,
    }
}
pub open spec fn conforms(schema: &Schema, tr: TypeRef, v: Value) -> bool decreases tr {
    match tr {
        TypeRef::NonNull(t) => !(v is Null) && conforms(schema, *t, v),                          // a non-null position never holds null
        TypeRef::List(t) => v is Null || (v is List && forall|i: int| 0 <= i < v->List_0@.len() ==> conforms(schema, *t, #[trigger] v->List_0@[i])),
        TypeRef::Named(n) => v is Null || (schema.0.types.view().contains_key(n@) && leaf_ok(schema.0.types.view()[n@], v)),
    }
}
'''


def complete_unit(kf):
    u = Unit('c02_complete', ['C02'], 'dynamic resolve / resolve_value: a completed value conforms to the declared type; nothing for a non-null type is an error')
    u.kf = kf
    value_types(u, const_alias='Value')
    u.prelude('registry_shim')
    u.prelude('string_eq')
    u.extract_type(TR, ['enum TypeRef'], rewrites=[Sub("Cow<'static, str>", 'String', rule='R-ty')])
    u.extract_type(T, ['enum Type'])
    u.extract_type(FV, ['struct FieldValue'], rewrites=[Sub("FieldValue<'a>(pub(crate) FieldValueInner<'a>)", 'FieldValue(pub FieldValueInner)', rule='R-ty')])
    u.extract_type(FV, ['enum FieldValueInner'],
                   rewrites=[Sub("pub(crate) enum FieldValueInner<'a>", 'pub enum FieldValueInner', rule='R-ty'),
                             Sub("Cow<'static, str>", 'String', count=3, rule='R-ty'),
                             Sub("&'a (dyn Any + Send + Sync)", 'AnyRef', rule='R-ty'), Sub('Box<dyn Any + Send + Sync>', 'AnyBox', rule='R-ty'),
                             Sub("Vec<FieldValue<'a>>", 'Vec<FieldValue>', rule='R-ty'), Sub("Box<FieldValue<'a>>", 'Box<FieldValue>', rule='R-ty')])
    u.trusted(COMPLETE_SHIMS, 'dynamic type / schema / callee shims')
    u.shim_conformance('src/dynamic/scalar.rs', ['struct Scalar'], [('name', 'String'), ('validator', 'Option<ScalarValidatorFn>')])
    u.shim_conformance('src/dynamic/enum.rs', ['struct Enum'], [('name', 'String'), ('enum_values', 'IndexMap<String, EnumItem>')])
    u.shim_conformance('src/dynamic/union.rs', ['struct Union'], [('name', 'String'), ('possible_types', 'IndexSet<String>')])
    u.shim_conformance('src/dynamic/interface.rs', ['struct Interface'], [('name', 'String')])
    u.shim_conformance('src/dynamic/object.rs', ['struct Object'], [('name', 'String')])
    u.shim_conformance('src/dynamic/schema.rs', ['struct SchemaInner'], [('env', 'SchemaEnv'), ('types', 'IndexMap<String, Type>')])
    u.shim_conformance('src/registry/mod.rs', ['enum MetaType'], [('possible_types', 'IndexSet<String>')], variant='Interface')
    u.shim_conformance('src/registry/mod.rs', ['enum MetaType'], [('possible_types', 'IndexSet<String>')], variant='Union')
    u.spec(COMPLETE_SPEC, 'CompleteValue conformance')
    u.extract_fn(T, ['impl Type', 'fn as_object'], wrap_impl='Type', sig_rewrites=[ReSub(r'pub\(crate\) fn', 'fn')],
                 ensures=['match *self { Type::Object(o) => r == Some(&o), _ => r is None }'])
    u.extract_fn('src/registry/mod.rs', ['impl MetaType', 'fn possible_types'], wrap_impl='MetaType',
                 sig_rewrites=[ReSub(r'IndexSet<String>', 'StrSet')],
                 ensures=['match *self { MetaType::Interface { possible_types, .. } => r == Some(&possible_types), MetaType::Union { possible_types, .. } => r == Some(&possible_types), _ => r is None }'])
    err = CallSub('ctx.set_error_path', 'verif_server_error()', rule='R-msg', count='+')
    rc = lambda obj: Sub(f'resolve_container( schema, {obj}, &ctx.with_selection_set(&ctx.item.node.selection_set), value, true, )', f'resolve_object({obj}, value)', rule='R-await')
    u.extract_fn(F, ['fn resolve_value'],
                 sig_rewrites=[AwaitErase(), ReSub(r"&Context<'_>", '&Context'), ReSub(r"&FieldValue<'_>", '&FieldValue')],
                 rewrites=[AwaitErase(), err, rc('object'), Sub('resolve_container( schema, object_type, &ctx.with_selection_set(&ctx.item.node.selection_set), value, true, )', 'resolve_object(object_type, value)', count=2, rule='R-await'),
                           ClosureMatch('opt.ok_or_else', count=4), ClosureMatch('opt.map', count=1), ClosureMatch('opt.and_then', count=1),
                           Sub('.unwrap_or_default()', '.unwrap_or(false)', count=1, rule='R-ty'),
                           Sub('ty.as_ref()', 'ty.as_str()', count='+', rule='R-ty'),
                           Sub('Name::new(name)', 'name_of(name)', rule='R-ty')],
                 ensures=['r is Ok ==> r->Ok_0 is Some && leaf_ok(*field_type, r->Ok_0->Some_0)   // a scalar passed its check, an enum value is declared, composite types complete to objects',
                          '*field_type is InputObject ==> r is Err'])
    u.extract_fn(F, ['fn resolve'],
                 sig_rewrites=[ReSub(r"BoxFuture<'a, ServerResult<Option<Value>>>", 'ServerResult<Option<Value>>'), ReSub(r"Context<'a>", 'Context'), ReSub(r'pub\(crate\) fn', 'fn')],
                 rewrites=[AwaitErase(), Sub('.boxed()', '', rule='R-await'), err,
                           Sub('&schema.0.types[type_name.as_ref()]', 'schema.0.types.idx(type_name.as_str())', rule='R-ty'),
                           Sub('let values = values .iter() .cloned() .map(FieldValue::value) .collect::<Vec<_>>();', 'let values = values_as_field_values(values);', rule='R-payload')],
                 requires=['known(schema, *type_ref)   // every named type is registered (schema build check, C33)'],
                 ensures=['r is Ok && r->Ok_0 is Some ==> conforms(schema, *type_ref, r->Ok_0->Some_0)   // what reaches the response conforms to the declared type; in particular a non-null position never holds null',
                          'r is Ok && r->Ok_0 is None ==> !(*type_ref is NonNull)   // "nothing" is only ever reported for a nullable type',
                          'value is None ==> (if *type_ref is NonNull { r is Err } else { r == Ok::<Option<Value>, ServerError>(None) })'],
                 decreases='*type_ref')
    u.assume('R-await: resolve / resolve_value read sequentially; resolve_container (object completion) and resolve_list (per-item completion through the extension chain) are abstract callees with the contracts stated on their shims (unverified)')
    u.assume('`known`: every type name a field type mentions is registered -- established by SchemaInner::check at build time (C33), unverified call order')
    u.assume('scalar validators are opaque deterministic predicates; built-in scalars have none (open known finding C02-builtin-scalars-unchecked is about spec_validate being trivially true for them, not about this contract)')
    u.search_case('dynamic/resolve.rs', 'c02_exec')
    return u


UNITS['c02_complete'] = (['C02'], complete_unit)
SEARCH['c02_complete'] = ['c02_exec']
