"""C09 -- validation pipeline: the composite visitor VisitorCons must forward EVERY hook of trait Visitor to both members.

The method list is read from the real trait on every run; each composite method body is the real one from
`impl Visitor for VisitorCons` or -- when the impl has none -- the trait's default body (Rust's own resolution rule, E1).
Parameter types are abstracted to opaque Copy types (one per distinct type text): forwarding is about passing the same
arguments on, not about their structure."""
import re
from vx.unit import Unit, Sub, ReSub, Chunk, StripAttrs, apply_all, _clause
from vx.rustlex import locate, code_tokens, match_close, AnchorLost

VF = 'src/validation/visitor.rs'
IMPL = "impl<'a, A, B> Visitor<'a> for VisitorCons<A, B>"


def _methods(src):
    """[(name, [(param, type_text)], has_self_mut)] for every fn of trait Visitor."""
    tr = locate(src, ['trait Visitor'])
    toks = code_tokens(tr.body)
    out = []
    i = 0
    while i < len(toks):
        if toks[i].text == 'fn' and toks[i + 1].kind == 'ident':
            name = toks[i + 1].text
            j = i + 2
            while toks[j].text != '(': j += 1
            c = match_close(toks, j)
            params, cur, d = [], [], 0
            for t in toks[j + 1:c]:
                if t.text in ('(', '[', '<'): d += 1
                elif t.text in (')', ']', '>'): d -= 1
                if t.text == ',' and d == 0:
                    params.append(cur); cur = []
                else:
                    cur.append(t)
            if cur: params.append(cur)
            ps = []
            for p in params:
                txt = ''.join(x.text for x in p)
                if txt.endswith('self'):
                    continue
                k = [x.text for x in p].index(':')
                ps.append((p[0].text, ''.join(x.text for x in p[k + 1:])))
            out.append((name, ps))
            i = c
        i += 1
    return out


def _norm_ty(t):
    return re.sub(r"'[a-z_]+", '', t).replace('&mut', '&mut ').strip()


def cons_unit(kf):
    u = Unit('c09_visitor_cons', ['C09'], 'VisitorCons forwards every Visitor hook to both members, first member first, same arguments')
    u.kf = kf
    src = u._read(VF)
    skip = {'enter_input_value', 'exit_input_value'} if u.carve('C09-composite-drops-input-value-hooks', 'hooks enter_input_value / exit_input_value excluded from the forwarding contract') else set()
    methods = [(n, ps) for n, ps in _methods(src) if n != 'mode' and n not in skip]
    if len(methods) < 10:
        raise AnchorLost('trait Visitor: fewer than 10 hooks found')
    tymap = {}
    def ty(t):
        n = _norm_ty(t)
        if 'VisitorContext' in n:
            return '&mut Ctx'
        if n not in tymap:
            tymap[n] = f'Arg{len(tymap)}'
        return tymap[n]
    sigs = {}
    for n, ps in methods:
        sigs[n] = [(p.lstrip('_'), ty(t)) for p, t in ps]
    decl = ['// ---- generated from the REAL method list of trait Visitor (src/validation/visitor.rs); parameter types abstracted to opaque Copy types',
            'pub struct Ctx { pub errs: Seq<int> }']
    for n, a in sorted(tymap.items(), key=lambda x: int(x[1][3:])):
        decl.append(f'#[derive(Clone, Copy)] pub struct {a} {{ pub id: u64 }}   // {n}')
    decl.append('pub trait Visitor: Sized {')
    for n, ps in methods:
        args = [(p, t) for p, t in sigs[n] if t != '&mut Ctx']
        sp = ', '.join(f'{p}: {t}' for p, t in args)
        decl.append(f'    spec fn eff_{n}(pre: Self, ctx: Ctx{", " + sp if sp else ""}) -> (Self, Ctx);')
        ex = ', '.join(f'{p}: {t}' for p, t in sigs[n])
        call = ', '.join(p for p, t in args)
        decl.append(f'    fn {n}(&mut self, {ex})\n        ensures (*final(self), *final(ctx)) == Self::eff_{n}(*old(self), *old(ctx){", " + call if call else ""});')
    decl.append('}')
    decl.append('pub struct VisitorCons<A, B>(pub A, pub B);')
    u.trusted('\n'.join(decl), 'abstract Visitor trait (generated from the real method list)')
    # composite: spec effects = A then B; exec bodies = real text
    c = Chunk('real', VF + '::' + IMPL, meta=dict(file=VF, line=locate(src, [IMPL]).line, kind='impl', fn_name='VisitorCons', canary=False))
    c.add('impl<A: Visitor, B: Visitor> Visitor for VisitorCons<A, B> {', 'wrap')
    log = []
    missing = []
    for n, ps in methods:
        args = [(p, t) for p, t in sigs[n] if t != '&mut Ctx']
        sp = ', '.join(f'{p}: {t}' for p, t in args)
        call = ', '.join(p for p, t in args)
        c.add(f'''    open spec fn eff_{n}(pre: Self, ctx: Ctx{", " + sp if sp else ""}) -> (Self, Ctx) {{
        let (a, c1) = A::eff_{n}(pre.0, ctx{", " + call if call else ""});
        let (b, c2) = B::eff_{n}(pre.1, c1{", " + call if call else ""});
        (VisitorCons(a, b), c2)
    }}''', 'spec')
        try:
            it = locate(src, [IMPL, f'fn {n}'])
            origin = 'impl'
        except AnchorLost:
            it = locate(src, ['trait Visitor', f'fn {n}'])
            origin = 'trait default (the impl does not override it)'
            missing.append(n)
        # parameter names from the located item's own signature, types from the abstraction
        names = []
        stoks = code_tokens(it.sig)
        j = [t.text for t in stoks].index('(')
        cc = match_close(stoks, j)
        cur, d, plist = [], 0, []
        for t in stoks[j + 1:cc]:
            if t.text in ('(', '[', '<'): d += 1
            elif t.text in (')', ']', '>'): d -= 1
            if t.text == ',' and d == 0:
                plist.append(cur); cur = []
            else:
                cur.append(t)
        if cur: plist.append(cur)
        plist = [p for p in plist if not ''.join(x.text for x in p).endswith('self')]
        if len(plist) != len(sigs[n]):
            raise AnchorLost(f'{n}: parameter count differs between trait and impl')
        ex = ', '.join(f'{p[0].text}: {sigs[n][k][1]}' for k, p in enumerate(plist))
        body = apply_all(it.body, [StripAttrs()], log)
        c.add(f'    fn {n}(&mut self, {ex})   // body: {origin}, {VF}:{it.line}', 'sig')
        c.add('    ' + body, 'body')
    c.add('}', 'wrap')
    c.meta['has_contract'] = True
    c.meta['ensures_at'] = 0
    u.chunks.append(c)
    u.real_fns.append(c.label)
    u.rewrite_log.append((c.label, 'R-ty', f'{len(tymap)} parameter types abstracted to opaque Copy types; VisitorContext -> Ctx', len(tymap)))
    u.rewrite_log.append((c.label, 'E1', f'{len(methods)} hooks; bodies taken from the trait default for: {missing}', len(methods)))
    u.assume('Visitor hooks are modelled by uninterpreted effect functions on (visitor state, context); parameter types are opaque')
    u.assume('VisitorCons::mode() == self.0.mode() is not part of the forwarding contract (recorded: Fast mode is decided by the first member)')
    return u


UNITS = {'c09_visitor_cons': (['C09'], cons_unit)}
SEARCH = {'c09_visitor_cons': ['c09_validate']}
BOUNDED = {'C09': [dict(case='c09_subtype', function='src/registry/mod.rs::MetaTypeName::{create, is_subtype} (used by the variables-in-allowed-position rule)', bound='all (position, variable) pairs over type strings of <= 7 characters built from A, B, [ ], ! (about 1 000 pairs)', why='string slicing by strip_prefix / strip_suffix on &str: Verus has no byte-level str reasoning'),
                   dict(case='c09_validate', function='src/validation/rules/*.rs + visit_* driver (through Schema::execute in strict mode)',
                        bound='a hand-labelled table of 10 valid and 24 invalid documents over a 6-field derive-built schema; invalid = rejected before any resolver runs',
                        why='22 rule visitors and the visitor driver (~5 kLoC over the registry, closures, HashMaps) are outside the reach of Verus/Kani within this effort; only the composite-visitor forwarding is under contract')]}
