"""C32 -- connection pagination arguments are checked and cursors decoded before the user callback runs (query_with, await-erased)."""
from vx.unit import Unit, Sub, ReSub, CallSub, AwaitErase

F = 'src/types/connection/mod.rs'

SHIMS = r'''
// trusted shims (R-await, R-msg, R-closure): errors reduced to their origin; the user callback and the cursor codec are abstract
pub enum Error { Validation, Decode, Callback(u64) }
pub type Result<T> = core::result::Result<T, Error>;
pub fn verif_validation_error() -> (r: Error) ensures r == Error::Validation { Error::Validation }
pub trait CursorType: Sized {
    spec fn spec_decode(s: Seq<char>) -> Option<Self>;
    // R-msg: `.map_err(Error::new_with_source)` folded into the shim (a decode failure becomes Error::Decode)
    fn decode_cursor(s: &str) -> (r: Result<Self>) ensures match r { Ok(c) => Self::spec_decode(s@) == Some(c), Err(e) => Self::spec_decode(s@) is None && e == Error::Decode };
}
pub trait PageFn<Cursor, T>: Sized {
    spec fn spec_call(&self, after: Option<Cursor>, before: Option<Cursor>, first: Option<usize>, last: Option<usize>) -> Result<T>;
    // R-closure + R-await: `f(after, before, first, last).await.map_err(Into::into)`
    fn call(self, after: Option<Cursor>, before: Option<Cursor>, first: Option<usize>, last: Option<usize>) -> (r: Result<T>)
        ensures r == self.spec_call(after, before, first, last), r is Err ==> r->Err_0 is Callback;
}
global size_of usize == 8;
'''


def query_with_unit(kf):
    u = Unit('c32_query_with', ['C32'], 'query_with rejects negative first/last and undecodable cursors before calling the user function, and passes lossless values otherwise')
    u.kf = kf
    u.trusted(SHIMS, 'connection shims (await-erased)')
    u.extract_fn(F, ['fn query_with'],
                 sig_rewrites=[AwaitErase(), ReSub(r'<Cursor, T, F, R, E>', '<Cursor: CursorType, T, F: PageFn<Cursor, T>>'), ReSub(r'where[\s\S]*$', '')],
                 rewrites=[AwaitErase(), CallSub('Error::new', 'verif_validation_error()', rule='R-msg', count=2),
                           Sub('.map_err(Error::new_with_source)', '', count=2, rule='R-msg'),
                           Sub('f(after, before, first, last).map_err(Into::into)', 'f.call(after, before, first, last)', rule='R-closure')],
                 ensures=['((first is Some && first->Some_0 < 0) || (last is Some && last->Some_0 < 0)) ==> r == Err::<T, Error>(Error::Validation)   // rejected, user function not run',
                          '!((first is Some && first->Some_0 < 0) || (last is Some && last->Some_0 < 0)) && ((before is Some && Cursor::spec_decode(before->Some_0@) is None) || (after is Some && Cursor::spec_decode(after->Some_0@) is None)) ==> r == Err::<T, Error>(Error::Decode)',
                          '''!((first is Some && first->Some_0 < 0) || (last is Some && last->Some_0 < 0)) && !((before is Some && Cursor::spec_decode(before->Some_0@) is None) || (after is Some && Cursor::spec_decode(after->Some_0@) is None)) ==>
            r == f.spec_call(match after { Some(a) => Cursor::spec_decode(a@), None => None }, match before { Some(b) => Cursor::spec_decode(b@), None => None },
                             match first { Some(x) => Some(x as usize), None => None }, match last { Some(x) => Some(x as usize), None => None })''',
                          'first is Some && first->Some_0 >= 0 ==> (first->Some_0 as usize) as int == first->Some_0 as int   // the cast is lossless'])
    u.assume('R-await on the user future; the user callback and CursorType::decode_cursor are abstract; error values reduced to their origin (validation / decode / callback)')
    u.assume('cursor encode/decode round trip (cursor.rs) rests on std FromStr o Display (not under contract)')
    u.search_case('connection/mod.rs', 'c32_connection')
    return u


UNITS = {'c32_query_with': (['C32'], query_with_unit)}
SEARCH = {'c32_query_with': ['c32_connection']}
BOUNDED = {'C32': [dict(case='c32_connection', function='src/types/connection/cursor.rs CursorType impls (usize, i32, i64, String, f64, OpaqueCursor) and query_with through its real generic signature',
                        bound='20 cursor values over 6 cursor types (round trip) + 100 (after, before, first, last) combinations incl. i32::MIN/MAX and undecodable cursors',
                        why='cursor impls are one-line delegations to std Display/FromStr and base64+serde (assumed); the bounded run exercises the real generic instantiation that the await-erased kernel abstracts')]}


# ----------------------------------------------------------------------------------------------------------------------
# page info: start / end cursors are the encodings of the first / last edge cursor
from vx.unit import ClosureMatch  # noqa: E402

CT = 'src/types/connection/connection_type.rs'

PAGE_SHIMS = r'''
pub trait CursorType: Sized {
    spec fn spec_encode(&self) -> Seq<char>;
    fn encode_cursor(&self) -> (r: String) ensures r@ == self.spec_encode();
}
// field-subset shims (conformance-checked) of Edge / Connection; PageInfo is extracted verbatim
pub struct Edge<Cursor> { pub cursor: Cursor }
pub struct Connection<Cursor> { pub edges: Vec<Edge<Cursor>>, pub has_previous_page: bool, pub has_next_page: bool }
// <[T]>::first / last (std, assumed)
#[verifier::external_body]
pub fn vec_first<T>(v: &Vec<T>) -> (r: Option<&T>) ensures match r { Some(x) => v@.len() > 0 && *x == v@[0], None => v@.len() == 0 } { unimplemented!() }
#[verifier::external_body]
pub fn vec_last<T>(v: &Vec<T>) -> (r: Option<&T>) ensures match r { Some(x) => v@.len() > 0 && *x == v@[v@.len() - 1], None => v@.len() == 0 } { unimplemented!() }
'''


def page_info_unit(kf):
    u = Unit('c32_page_info', ['C32'], 'page_info: start / end cursors are the encodings of the first / last edge cursor; the two flags are copied')
    u.kf = kf
    u.trusted(PAGE_SHIMS, 'connection shims')
    u.shim_conformance(CT, ['struct Connection'], [('edges', 'Vec<Edge<Cursor, Node, EdgeFields, EdgeName>>'), ('has_previous_page', 'bool'), ('has_next_page', 'bool')])
    u.shim_conformance('src/types/connection/edge.rs', ['struct Edge'], [('cursor', 'Cursor')])
    u.extract_type('src/types/connection/page_info.rs', ['struct PageInfo'])
    for flavour in ['DisableNodesField', 'EnableNodesField']:
        impl = f'impl<Cursor, Node, ConnectionFields, EdgeFields, Name, EdgeName> Connection<Cursor, Node, ConnectionFields, EdgeFields, Name, EdgeName, {flavour}>'
        u.extract_fn(CT, [impl, 'fn page_info'], name=f'page_info_{flavour}', label=f'{CT}::impl Connection<.., {flavour}>::fn page_info',
                     sig_rewrites=[AwaitErase(), ReSub(r'fn page_info\(&self\)', 'fn page_info<Cursor: CursorType>(this: &Connection<Cursor>)')],
                     rewrites=[AwaitErase(), Sub('self.edges.first()', 'vec_first(&this.edges)', count='*', rule='R-ty'), Sub('self.edges.last()', 'vec_last(&this.edges)', count='*', rule='R-ty'),
                               ClosureMatch('opt.map', count='*'), Sub('self.', 'this.', count='+', rule='R-self')],
                     ensures=['r.has_previous_page == this.has_previous_page && r.has_next_page == this.has_next_page',
                              'match r.start_cursor { Some(c) => this.edges@.len() > 0 && c@ == this.edges@[0].cursor.spec_encode(), None => this.edges@.len() == 0 }   // the FIRST edge',
                              'match r.end_cursor { Some(c) => this.edges@.len() > 0 && c@ == this.edges@[this.edges@.len() - 1].cursor.spec_encode(), None => this.edges@.len() == 0 }   // the LAST edge'])
    u.assume('CursorType::encode_cursor is abstract (spec_encode); the cursor codecs themselves are the bounded round-trip table c32_connection')
    u.search_case('connection_type.rs', 'c32_connection')
    return u


UNITS['c32_page_info'] = (['C32'], page_info_unit)
SEARCH['c32_page_info'] = ['c32_connection']
