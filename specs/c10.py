"""C10 -- limits: recursion depth and directives-per-field walkers (src/schema.rs)."""
from vx.unit import Unit, Sub, MacroCall, ReSub, CallSub, DropNestedFn
from specs.common import value_types, ast_types

S = 'src/schema.rs'

SHIM = r'''
pub struct ServerError { pub message: String }
pub type ServerResult<T> = Result<T, ServerError>;
pub fn verif_server_error() -> ServerError { ServerError { message: verif_msg() } }
'''

DEPTH_SPEC = r'''
// Selection nesting, with fragments counted as if written inline: the selection set of an operation is at level 0;
// the selection set of a field (if it has one), of an inline fragment, or of a spread fragment is one level deeper.
// exceeds(doc, ss, cur, max): some selection set nested in `ss` (itself at level `cur`) lies at a level > max.
// Well-founded on max + 1 - cur, so cyclic fragment definitions are handled too.
pub open spec fn child_set(doc: ExecutableDocument, sel: Selection) -> Option<SelectionSet> {
    match sel {
        Selection::Field(f) => if f.node.selection_set.node.items.len() > 0 { Some(f.node.selection_set.node) } else { None },
        Selection::FragmentSpread(s) => if doc.fragments.view().contains_key(s.node.fragment_name.node@) {
                Some(doc.fragments.view()[s.node.fragment_name.node@].node.selection_set.node) } else { None },
        Selection::InlineFragment(i) => Some(i.node.selection_set.node),
    }
}
pub open spec fn exceeds(doc: ExecutableDocument, ss: SelectionSet, cur: nat, max: nat) -> bool
    decreases max + 1 - cur, ss.items.len() + 1
{
    if cur > max { true } else { any_from(doc, ss, 0, cur, max) }
}
// some selection with index >= k opens a selection set that exceeds (index recursion: Verus does not unfold recursion under `exists`)
pub open spec fn any_from(doc: ExecutableDocument, ss: SelectionSet, k: nat, cur: nat, max: nat) -> bool
    decreases max + 1 - cur, ss.items.len() - k
{
    if cur > max || k >= ss.items.len() { false }
    else {
        (child_set(doc, ss.items[k as int].node) is Some && exceeds(doc, child_set(doc, ss.items[k as int].node)->Some_0, cur + 1, max))
        || any_from(doc, ss, k + 1, cur, max)
    }
}
'''

DIR_SPEC = r'''
// sub-selection opened by a selection for the directive walker (a field's selection set is visited even when empty)
pub open spec fn sub_set(doc: ExecutableDocument, sel: Selection) -> Option<SelectionSet> {
    match sel {
        Selection::Field(f) => Some(f.node.selection_set.node),
        Selection::FragmentSpread(s) => if doc.fragments.view().contains_key(s.node.fragment_name.node@) {
                Some(doc.fragments.view()[s.node.fragment_name.node@].node.selection_set.node) } else { None },
        Selection::InlineFragment(i) => Some(i.node.selection_set.node),
    }
}
pub open spec fn own_dirs(sel: Selection) -> nat { match sel { Selection::Field(f) => f.node.directives.len() as nat, _ => 0 } }
// shallow(doc, ss, fuel): with fragments inlined, `ss` nests fewer than `fuel` levels (finite expansion; false for cyclic fragments)
pub open spec fn shallow(doc: ExecutableDocument, ss: SelectionSet, fuel: nat) -> bool decreases fuel, ss.items.len() + 1 {
    fuel > 0 && shallow_from(doc, ss, 0, fuel)
}
pub open spec fn shallow_from(doc: ExecutableDocument, ss: SelectionSet, k: nat, fuel: nat) -> bool decreases fuel, ss.items.len() - k {
    if fuel == 0 { false } else if k >= ss.items.len() { true } else {
        (sub_set(doc, ss.items[k as int].node) is Some ==> shallow(doc, sub_set(doc, ss.items[k as int].node)->Some_0, (fuel - 1) as nat))
        && shallow_from(doc, ss, k + 1, fuel)
    }
}
// too_many(doc, ss, limit, fuel): "a field reachable from ss, fragments counted as if written inline, carries more than `limit` directives"
// (exact whenever shallow(doc, ss, fuel))
pub open spec fn too_many(doc: ExecutableDocument, ss: SelectionSet, limit: nat, fuel: nat) -> bool decreases fuel, ss.items.len() + 1 {
    fuel > 0 && too_many_from(doc, ss, limit, 0, fuel)
}
pub open spec fn too_many_from(doc: ExecutableDocument, ss: SelectionSet, limit: nat, k: nat, fuel: nat) -> bool decreases fuel, ss.items.len() - k {
    if fuel == 0 || k >= ss.items.len() { false } else {
        own_dirs(ss.items[k as int].node) > limit
        || (sub_set(doc, ss.items[k as int].node) is Some && too_many(doc, sub_set(doc, ss.items[k as int].node)->Some_0, limit, (fuel - 1) as nat))
        || too_many_from(doc, ss, limit, k + 1, fuel)
    }
}
pub proof fn lemma_shallow_at(doc: ExecutableDocument, ss: SelectionSet, k: nat, j: nat, fuel: nat)
    requires shallow_from(doc, ss, k, fuel), k <= j < ss.items.len(), sub_set(doc, ss.items[j as int].node) is Some
    ensures fuel > 0, shallow(doc, sub_set(doc, ss.items[j as int].node)->Some_0, (fuel - 1) as nat)
    decreases j - k
{
    if k < j { lemma_shallow_at(doc, ss, k + 1, j, fuel); }
}
'''

ERR = [CallSub('ServerError::new', 'verif_server_error()', rule='R-msg')]


def depth_unit(kf):
    u = Unit('c10_recursive_depth', ['C10', 'C12'], 'check_recursive_depth rejects exactly the documents nested deeper than the limit')
    u.kf = kf
    value_types(u)
    ast_types(u)
    u.trusted(SHIM, 'ServerError shim')
    u.spec(DEPTH_SPEC, 'nesting depth spec')
    u.extract_fn(S, ['fn check_recursive_depth', 'fn check_selection_set'], name='rd_check_selection_set',
                 label=S + '::fn check_recursive_depth::fn check_selection_set (nested)',
                 rewrites=ERR + [Sub('check_selection_set(', 'rd_check_selection_set(', count='+', rule='R-hoist'),
                                 Sub('for selection in &selection_set.node.items', 'for selection in it: &selection_set.node.items', rule='R-iter'),],
                 requires=['current_depth <= max_depth + 1', 'max_depth < usize::MAX - 1'],
                 ensures=['r.is_err() <==> exceeds(*doc, selection_set.node, current_depth as nat, max_depth as nat)'],
                 decreases='max_depth + 1 - current_depth',
                 loops={0: dict(prop=['exceeds(*doc, selection_set.node, current_depth as nat, max_depth as nat) <==> any_from(*doc, selection_set.node, it.index@ as nat, current_depth as nat, max_depth as nat)'],
                                aux=['current_depth <= max_depth', 'max_depth < usize::MAX - 1'],
                                head='''proof {
    assert(*selection == selection_set.node.items@[it.index@ as int]);
    assert((current_depth as nat) + 1 == (current_depth + 1) as nat);
}''')},
                 attrs=['#[verifier::loop_isolation(false)]'])
    u.assume('check_recursive_depth: `max_depth < usize::MAX - 1` (configuration) so that current_depth + 1 cannot overflow')
    u.search_case('check_recursive_depth', 'c10_depth')
    return u



def directives_unit(kf):
    u = Unit('c10_max_directives', ['C10'], 'check_max_directives rejects exactly the documents with a reachable field carrying too many directives')
    u.kf = kf
    value_types(u)
    ast_types(u)
    u.trusted(SHIM, 'ServerError shim')
    u.spec(DIR_SPEC, 'directive limit spec')
    SS = 'selection_set.node'
    u.extract_fn(S, ['fn check_max_directives', 'fn check_selection_set'], name='md_check_selection_set',
                 label=S + '::fn check_max_directives::fn check_selection_set (nested)',
                 rewrites=ERR + [Sub('check_selection_set(', 'md_check_selection_set(', count='+', rule='R-hoist'),
                                 Sub('for selection in &selection_set.node.items', 'for selection in it: &selection_set.node.items', rule='R-iter'),],
                 ensures=[f'forall|fuel: nat| #[trigger] shallow(*doc, {SS}, fuel) ==> (r.is_err() <==> too_many(*doc, {SS}, limit_directives as nat, fuel))'],
                 loops={0: dict(prop=[f'forall|fuel: nat| #[trigger] shallow(*doc, {SS}, fuel) ==> (too_many(*doc, {SS}, limit_directives as nat, fuel) <==> too_many_from(*doc, {SS}, limit_directives as nat, it.index@ as nat, fuel))'],
                                aux=[],
                                head=f'''proof {{
    assert(*selection == {SS}.items@[it.index@ as int]);
    assert forall|fuel: nat| #[trigger] shallow(*doc, {SS}, fuel) && sub_set(*doc, selection.node) is Some implies
        fuel > 0 && shallow(*doc, sub_set(*doc, selection.node)->Some_0, (fuel - 1) as nat) by {{
        lemma_shallow_at(*doc, {SS}, 0, it.index@ as nat, fuel);
    }}
}}''')},
                 attrs=['#[verifier::loop_isolation(false)]', '#[verifier::exec_allows_no_decreases_clause]'])
    u.assume('check_max_directives::check_selection_set: termination NOT proved (exec_allows_no_decreases_clause): it recurses through fragment spreads and terminates only because check_recursive_depth has already rejected cyclic / too deep documents (call order in prepare_request, unverified)')
    u.search_case('check_max_directives', 'c10_directives')
    return u


UNITS = {'c10_recursive_depth': (['C10', 'C12'], depth_unit), 'c10_max_directives': (['C10'], directives_unit)}
SEARCH = {'c10_recursive_depth': ['c10_depth'], 'c10_max_directives': ['c10_directives']}


from specs.common import registry_types  # noqa: E402
from vx.unit import LetChain  # noqa: E402

VD = 'src/validation/visitors/depth.rs'
VCX = 'src/validation/visitors/complexity.rs'
VM = 'src/validation/mod.rs'

VIS_SHIM = r'''
// trusted shim: validation::visitor::VisitorContext -- type stack accessors and the error list (the stack discipline lives in the unverified driver)
pub struct VisitorContext { pub cur: Option<MetaType>, pub par: Option<MetaType>, pub errors: Vec<Pos> }
impl VisitorContext {
    pub fn parent_type(&self) -> (r: Option<&MetaType>) ensures r == (match self.par { Some(t) => Some(&t), None => None }) { self.par.as_ref() }
    pub fn report_error_at(&mut self, pos: Pos) ensures final(self).errors@ == old(self).errors@.push(pos), final(self).par == old(self).par, final(self).cur == old(self).cur { self.errors.push(pos); }
}
impl ComputeComplexityFn {
    // R-ty: calling the stored fn pointer. The context and variable definitions are dropped from the model (the rule is opaque anyway).
    #[verifier::external_body]
    pub fn call(&self, ctx: &VisitorContext, field: &Field, children: usize) -> (r: Result<usize, ServerError>)
        ensures match r { Ok(n) => self.spec_call(*field, children) == Ok::<usize, Seq<char>>(n), Err(_) => self.spec_call(*field, children) is Err }
    { unimplemented!() }
}
pub struct MetaTypeName;
impl MetaTypeName {
    pub uninterp spec fn spec_concrete_typename(s: Seq<char>) -> Seq<char>;
    #[verifier::external_body]
    pub fn concrete_typename(s: &str) -> (r: &str) ensures r@ == Self::spec_concrete_typename(s@) { unimplemented!() }
}
// `*v.last_mut().unwrap() += n` (R-ty: Vec::last_mut is not specified in vstd)
pub fn vec_add_last(v: &mut Vec<usize>, n: usize)
    requires old(v)@.len() >= 1, old(v)@.last() + n <= usize::MAX
    ensures final(v)@ == old(v)@.drop_last().push((old(v)@.last() + n) as usize)
{
    let k = v.len() - 1;
    let x = v[k];
    v.set(k, x + n);
    proof { assert(v@ =~= old(v)@.drop_last().push((old(v)@.last() + n) as usize)); }
}
pub struct DepthCalculate<'a> { pub max_depth: &'a mut usize, pub current_depth: usize }
pub struct ComplexityCalculate<'a> { pub complexity: &'a mut usize, pub complexity_stack: Vec<usize> }
'''

CX_SPEC = r'''
// the field's own complexity rule, looked up on the PARENT object type by the field's NAME (never its alias)
pub open spec fn own_rule(par: Option<MetaType>, field: Field) -> Option<ComputeComplexityFn> {
    match par {
        Some(MetaType::Object { fields, .. }) => {
            let k = MetaTypeName::spec_concrete_typename(field.name.node@);
            if fields.view().contains_key(k) { fields.view()[k].compute_complexity } else { None }
        },
        _ => None,
    }
}
'''


def visitors_unit(kf):
    u = Unit('c10_visitors', ['C10'], 'depth / complexity visitors and the limit comparison of check_rules')
    u.kf = kf
    value_types(u)
    ast_types(u)
    registry_types(u)
    u.trusted(SHIM, 'ServerError shim')
    u.trusted(VIS_SHIM, 'VisitorContext / visitor struct shims')
    u.shim_conformance(VD, ['struct DepthCalculate'], [('max_depth', "&'a mut usize"), ('current_depth', 'usize')])
    u.shim_conformance(VCX, ['struct ComplexityCalculate'], [('complexity', "&'a mut usize"), ('complexity_stack', 'Vec<usize>')])
    u.spec(CX_SPEC, 'complexity rule lookup spec')
    D = "impl<'ctx> Visitor<'ctx> for DepthCalculate<'_>"
    sig = [ReSub(r"VisitorContext<'ctx>", 'VisitorContext'), ReSub(r"VisitorContext<'_>", 'VisitorContext', count='*'), ReSub(r"&'ctx ", '&', count='*')]
    u.extract_fn(VD, [D, 'fn enter_field'], wrap_impl="<'a> DepthCalculate<'a>", name='enter_field', sig_rewrites=[ReSub(r"VisitorContext<'ctx>", 'VisitorContext'), ReSub(r"&'ctx ", '&', count='*')],
                 requires=['old(self).current_depth < usize::MAX'],
                 ensures=['final(self).current_depth == old(self).current_depth + 1',
                          '*final(self).max_depth == (if *old(self).max_depth >= final(self).current_depth { *old(self).max_depth } else { final(self).current_depth })'])
    u.extract_fn(VD, [D, 'fn exit_field'], wrap_impl="<'a> DepthCalculate<'a>", name='exit_field', sig_rewrites=[ReSub(r"VisitorContext<'ctx>", 'VisitorContext'), ReSub(r"&'ctx ", '&', count='*')],
                 requires=['old(self).current_depth > 0   // enter/exit calls are balanced (established by the unverified visit_field driver)'],
                 ensures=['final(self).current_depth == old(self).current_depth - 1', '*final(self).max_depth == *old(self).max_depth'])
    CXI = "impl<'ctx> Visitor<'ctx> for ComplexityCalculate<'ctx, '_>"
    csig = [ReSub(r"VisitorContext<'ctx>", 'VisitorContext', count='*'), ReSub(r"VisitorContext<'_>", 'VisitorContext', count='*'), ReSub(r"&'ctx ", '&', count='*')]
    u.extract_fn(VCX, [CXI, 'fn enter_field'], wrap_impl="<'a> ComplexityCalculate<'a>", label=VCX + '::enter_field', sig_rewrites=csig,
                 ensures=['final(self).complexity_stack@ == old(self).complexity_stack@.push(0)', '*final(self).complexity == *old(self).complexity'])
    u.extract_fn(VCX, [CXI, 'fn enter_document'], wrap_impl="<'a> ComplexityCalculate<'a>", label=VCX + '::enter_document', sig_rewrites=csig,
                 ensures=['final(self).complexity_stack@ == old(self).complexity_stack@.push(0)'])
    u.extract_fn(VCX, [CXI, 'fn exit_document'], wrap_impl="<'a> ComplexityCalculate<'a>", label=VCX + '::exit_document', sig_rewrites=csig,
                 requires=['old(self).complexity_stack@.len() >= 1'],
                 ensures=['*final(self).complexity == old(self).complexity_stack@.last()', 'final(self).complexity_stack@ == old(self).complexity_stack@.drop_last()'])
    u.extract_fn(VCX, [CXI, 'fn exit_field'], wrap_impl="<'a> ComplexityCalculate<'a>", label=VCX + '::exit_field', sig_rewrites=csig,
                 rewrites=[LetChain(count=1),
                           Sub('match f( ctx, self.variable_definition.unwrap_or(&[]), &field.node, children_complex, )', 'match f.call(ctx, &field.node, children_complex)', rule='R-ty'),
                           Sub('*self.complexity_stack.last_mut().unwrap() += n;', 'vec_add_last(&mut self.complexity_stack, n);', rule='R-ty'),
                           Sub('*self.complexity_stack.last_mut().unwrap() += 1 + children_complex;', 'vec_add_last(&mut self.complexity_stack, 1 + children_complex);', rule='R-ty'),
                           Sub('ctx.report_error(vec![field.pos], err.to_string())', 'ctx.report_error_at(field.pos)', rule='R-msg')],
                 requires=['old(self).complexity_stack@.len() >= 2   // balanced enter/exit (established by the unverified driver)',
                           'old(self).complexity_stack@[old(self).complexity_stack@.len() - 2] + 1 + old(self).complexity_stack@.last() <= usize::MAX   // no usize wrap of the running total (assumed; a wrap would bypass the limit)',
                           'forall|n: usize| own_rule(old(ctx).par, field.node) is Some && own_rule(old(ctx).par, field.node)->Some_0.spec_call(field.node, old(self).complexity_stack@.last()) == Ok::<usize, Seq<char>>(n) ==> old(self).complexity_stack@[old(self).complexity_stack@.len() - 2] + n <= usize::MAX'],
                 ensures=['''({
            let st = old(self).complexity_stack@; let c = st.last(); let base = st.drop_last();
            match own_rule(old(ctx).par, field.node) {
                Some(f) => match f.spec_call(field.node, c) {
                    Ok(n) => final(self).complexity_stack@ == base.drop_last().push((base.last() + n) as usize) && final(ctx).errors@ == old(ctx).errors@,
                    Err(_) => final(self).complexity_stack@ == base && final(ctx).errors@ == old(ctx).errors@.push(field.pos),
                },
                None => final(self).complexity_stack@ == base.drop_last().push((base.last() + 1 + c) as usize) && final(ctx).errors@ == old(ctx).errors@,
            } })'''])
    u.extract_fragment(VM, ['fn check_rules'], 'if let Some(limit_complexity) = limit_complexity', 'return Err(vec![ServerError::new("Query is nested too deep.", None)]); }',
                       name='check_limits',
                       header='fn check_limits(limit_complexity: Option<usize>, limit_depth: Option<usize>, complexity: usize, depth: usize) -> (r: Result<(), Vec<ServerError>>)',
                       footer='    Ok(())\n}',
                       rewrites=[LetChain(count=2), MacroCall('vec', 'verif_errs()', rule='R-msg', count=2)],
                       ensures=['r.is_err() <==> ((limit_complexity is Some && complexity > limit_complexity->Some_0) || (limit_depth is Some && depth > limit_depth->Some_0))'])
    u.trusted('#[verifier::external_body]\npub fn verif_errs() -> (r: Vec<ServerError>) { unimplemented!() }', 'error list shim')
    u.assume('visitors: enter/exit calls are balanced and made once per field with fragments inlined by the unverified visit_* driver; the running complexity total does not wrap usize (precondition)')
    u.assume('check_rules: only the limit-comparison fragment (E2) is under contract; the surrounding control flow (rule selection by ValidationMode, visit call) is not')
    u.search_case('complexity.rs', 'c10_complexity')
    return u


UNITS['c10_visitors'] = (['C10'], visitors_unit)
SEARCH['c10_visitors'] = ['c10_complexity']

BOUNDED = {'C10': [dict(case='c10_complexity', function='limit_complexity / limit_depth end to end: validation::visitors::{ComplexityCalculate, DepthCalculate} through the visit_* driver, VisitorContext::param_value, derive-generated compute_complexity closures, check_rules',
                        bound='16 documents (aliases, fragments, custom complexity expressions, variables with defaults) x {complexity, depth} x limits {m-1, m, m+1, ...} against an independent measure of the document',
                        why='the visitor driver and the derive-generated complexity closures are outside Verus; the visitor hooks and the limit comparison are under contract'),
                   dict(case='c10_depth', function='check_recursive_depth through the public API (limit_recursive_depth)', bound='generated nesting shapes incl. spread fragments and cycles, limits around the measured nesting', why='ties the proved walker to the real call site in prepare_request (async)'),
                   dict(case='c10_directives', function='check_max_directives through the public API (limit_directives)', bound='generated documents with 0-4 directives per field / fragment, limits around the maximum', why='ties the proved walker to the real call site in prepare_request (async)')]}
