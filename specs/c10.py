"""C10 -- limits: recursion depth and directives-per-field walkers (src/schema.rs)."""
from vx.unit import Unit, Sub, MacroCall, ReSub, CallSub, DropNestedFn
from specs.common import value_types, ast_types

S = 'src/schema.rs'

SHIM = r'''
pub struct ServerError { pub message: String }
pub type ServerResult<T> = Result<T, ServerError>;
pub fn verif_server_error() -> ServerError { ServerError { message: verif_msg() } }
'''

DEPTH_SPEC = r'''
// Selection nesting, with fragments counted as if written inline: the selection set of an operation is at level 0;
// the selection set of a field (if it has one), of an inline fragment, or of a spread fragment is one level deeper.
// exceeds(doc, ss, cur, max): some selection set nested in `ss` (itself at level `cur`) lies at a level > max.
// Well-founded on max + 1 - cur, so cyclic fragment definitions are handled too.
pub open spec fn child_set(doc: ExecutableDocument, sel: Selection) -> Option<SelectionSet> {
    match sel {
        Selection::Field(f) => if f.node.selection_set.node.items.len() > 0 { Some(f.node.selection_set.node) } else { None },
        Selection::FragmentSpread(s) => if doc.fragments.view().contains_key(s.node.fragment_name.node@) {
                Some(doc.fragments.view()[s.node.fragment_name.node@].node.selection_set.node) } else { None },
        Selection::InlineFragment(i) => Some(i.node.selection_set.node),
    }
}
pub open spec fn exceeds(doc: ExecutableDocument, ss: SelectionSet, cur: nat, max: nat) -> bool
    decreases max + 1 - cur, ss.items.len() + 1
{
    if cur > max { true } else { any_from(doc, ss, 0, cur, max) }
}
// some selection with index >= k opens a selection set that exceeds (index recursion: Verus does not unfold recursion under `exists`)
pub open spec fn any_from(doc: ExecutableDocument, ss: SelectionSet, k: nat, cur: nat, max: nat) -> bool
    decreases max + 1 - cur, ss.items.len() - k
{
    if cur > max || k >= ss.items.len() { false }
    else {
        (child_set(doc, ss.items[k as int].node) is Some && exceeds(doc, child_set(doc, ss.items[k as int].node)->Some_0, cur + 1, max))
        || any_from(doc, ss, k + 1, cur, max)
    }
}
'''

DIR_SPEC = r'''
// sub-selection opened by a selection for the directive walker (a field's selection set is visited even when empty)
pub open spec fn sub_set(doc: ExecutableDocument, sel: Selection) -> Option<SelectionSet> {
    match sel {
        Selection::Field(f) => Some(f.node.selection_set.node),
        Selection::FragmentSpread(s) => if doc.fragments.view().contains_key(s.node.fragment_name.node@) {
                Some(doc.fragments.view()[s.node.fragment_name.node@].node.selection_set.node) } else { None },
        Selection::InlineFragment(i) => Some(i.node.selection_set.node),
    }
}
pub open spec fn own_dirs(sel: Selection) -> nat { match sel { Selection::Field(f) => f.node.directives.len() as nat, _ => 0 } }
// shallow(doc, ss, fuel): with fragments inlined, `ss` nests fewer than `fuel` levels (finite expansion; false for cyclic fragments)
pub open spec fn shallow(doc: ExecutableDocument, ss: SelectionSet, fuel: nat) -> bool decreases fuel, ss.items.len() + 1 {
    fuel > 0 && shallow_from(doc, ss, 0, fuel)
}
pub open spec fn shallow_from(doc: ExecutableDocument, ss: SelectionSet, k: nat, fuel: nat) -> bool decreases fuel, ss.items.len() - k {
    if fuel == 0 { false } else if k >= ss.items.len() { true } else {
        (sub_set(doc, ss.items[k as int].node) is Some ==> shallow(doc, sub_set(doc, ss.items[k as int].node)->Some_0, (fuel - 1) as nat))
        && shallow_from(doc, ss, k + 1, fuel)
    }
}
// too_many(doc, ss, limit, fuel): "a field reachable from ss, fragments counted as if written inline, carries more than `limit` directives"
// (exact whenever shallow(doc, ss, fuel))
pub open spec fn too_many(doc: ExecutableDocument, ss: SelectionSet, limit: nat, fuel: nat) -> bool decreases fuel, ss.items.len() + 1 {
    fuel > 0 && too_many_from(doc, ss, limit, 0, fuel)
}
pub open spec fn too_many_from(doc: ExecutableDocument, ss: SelectionSet, limit: nat, k: nat, fuel: nat) -> bool decreases fuel, ss.items.len() - k {
    if fuel == 0 || k >= ss.items.len() { false } else {
        own_dirs(ss.items[k as int].node) > limit
        || (sub_set(doc, ss.items[k as int].node) is Some && too_many(doc, sub_set(doc, ss.items[k as int].node)->Some_0, limit, (fuel - 1) as nat))
        || too_many_from(doc, ss, limit, k + 1, fuel)
    }
}
pub proof fn lemma_shallow_at(doc: ExecutableDocument, ss: SelectionSet, k: nat, j: nat, fuel: nat)
    requires shallow_from(doc, ss, k, fuel), k <= j < ss.items.len(), sub_set(doc, ss.items[j as int].node) is Some
    ensures fuel > 0, shallow(doc, sub_set(doc, ss.items[j as int].node)->Some_0, (fuel - 1) as nat)
    decreases j - k
{
    if k < j { lemma_shallow_at(doc, ss, k + 1, j, fuel); }
}
'''

ERR = [CallSub('ServerError::new', 'verif_server_error()', rule='R-msg')]


def depth_unit(kf):
    u = Unit('c10_recursive_depth', ['C10', 'C12'], 'check_recursive_depth rejects exactly the documents nested deeper than the limit')
    u.kf = kf
    value_types(u)
    ast_types(u)
    u.trusted(SHIM, 'ServerError shim')
    u.spec(DEPTH_SPEC, 'nesting depth spec')
    u.extract_fn(S, ['fn check_recursive_depth', 'fn check_selection_set'], name='rd_check_selection_set',
                 label=S + '::fn check_recursive_depth::fn check_selection_set (nested)',
                 rewrites=ERR + [Sub('check_selection_set(', 'rd_check_selection_set(', count='+', rule='R-hoist'),
                                 Sub('for selection in &selection_set.node.items', 'for selection in it: &selection_set.node.items', rule='R-iter'),],
                 requires=['current_depth <= max_depth + 1', 'max_depth < usize::MAX - 1'],
                 ensures=['r.is_err() <==> exceeds(*doc, selection_set.node, current_depth as nat, max_depth as nat)'],
                 decreases='max_depth + 1 - current_depth',
                 loops={0: dict(prop=['exceeds(*doc, selection_set.node, current_depth as nat, max_depth as nat) <==> any_from(*doc, selection_set.node, it.index@ as nat, current_depth as nat, max_depth as nat)'],
                                aux=['current_depth <= max_depth', 'max_depth < usize::MAX - 1'],
                                head='''proof {
    assert(*selection == selection_set.node.items@[it.index@ as int]);
    assert((current_depth as nat) + 1 == (current_depth + 1) as nat);
}''')},
                 attrs=['#[verifier::loop_isolation(false)]'])
    u.assume('check_recursive_depth: `max_depth < usize::MAX - 1` (configuration) so that current_depth + 1 cannot overflow')
    u.search_case('check_recursive_depth', 'c10_depth')
    return u



def directives_unit(kf):
    u = Unit('c10_max_directives', ['C10'], 'check_max_directives rejects exactly the documents with a reachable field carrying too many directives')
    u.kf = kf
    value_types(u)
    ast_types(u)
    u.trusted(SHIM, 'ServerError shim')
    u.spec(DIR_SPEC, 'directive limit spec')
    SS = 'selection_set.node'
    u.extract_fn(S, ['fn check_max_directives', 'fn check_selection_set'], name='md_check_selection_set',
                 label=S + '::fn check_max_directives::fn check_selection_set (nested)',
                 rewrites=ERR + [Sub('check_selection_set(', 'md_check_selection_set(', count='+', rule='R-hoist'),
                                 Sub('for selection in &selection_set.node.items', 'for selection in it: &selection_set.node.items', rule='R-iter'),],
                 ensures=[f'forall|fuel: nat| #[trigger] shallow(*doc, {SS}, fuel) ==> (r.is_err() <==> too_many(*doc, {SS}, limit_directives as nat, fuel))'],
                 loops={0: dict(prop=[f'forall|fuel: nat| #[trigger] shallow(*doc, {SS}, fuel) ==> (too_many(*doc, {SS}, limit_directives as nat, fuel) <==> too_many_from(*doc, {SS}, limit_directives as nat, it.index@ as nat, fuel))'],
                                aux=[],
                                head=f'''proof {{
    assert(*selection == {SS}.items@[it.index@ as int]);
    assert forall|fuel: nat| #[trigger] shallow(*doc, {SS}, fuel) && sub_set(*doc, selection.node) is Some implies
        fuel > 0 && shallow(*doc, sub_set(*doc, selection.node)->Some_0, (fuel - 1) as nat) by {{
        lemma_shallow_at(*doc, {SS}, 0, it.index@ as nat, fuel);
    }}
}}''')},
                 attrs=['#[verifier::loop_isolation(false)]', '#[verifier::exec_allows_no_decreases_clause]'])
    u.assume('check_max_directives::check_selection_set: termination NOT proved (exec_allows_no_decreases_clause): it recurses through fragment spreads and terminates only because check_recursive_depth has already rejected cyclic / too deep documents (call order in prepare_request, unverified)')
    u.search_case('check_max_directives', 'c10_directives')
    return u


UNITS = {'c10_recursive_depth': (['C10', 'C12'], depth_unit), 'c10_max_directives': (['C10'], directives_unit)}
SEARCH = {'c10_recursive_depth': ['c10_depth'], 'c10_max_directives': ['c10_directives']}
