"""C10 -- limits: recursion depth and directives-per-field walkers (src/schema.rs)."""
from vx.unit import Unit, Sub, MacroCall, ReSub, CallSub, DropNestedFn
from specs.common import value_types, ast_types

S = 'src/schema.rs'

SHIM = r'''
pub struct ServerError { pub message: String }
pub type ServerResult<T> = Result<T, ServerError>;
pub fn verif_server_error() -> ServerError { ServerError { message: verif_msg() } }
'''

DEPTH_SPEC = r'''
// Selection nesting, with fragments counted as if written inline: the selection set of an operation is at level 0;
// the selection set of a field (if it has one), of an inline fragment, or of a spread fragment is one level deeper.
// exceeds(doc, ss, cur, max): some selection set nested in `ss` (itself at level `cur`) lies at a level > max.
// Well-founded on max + 1 - cur, so cyclic fragment definitions are handled too.
pub open spec fn child_set(doc: ExecutableDocument, sel: Selection) -> Option<SelectionSet> {
    match sel {
        Selection::Field(f) => if f.node.selection_set.node.items.len() > 0 { Some(f.node.selection_set.node) } else { None },
        Selection::FragmentSpread(s) => if doc.fragments.view().contains_key(s.node.fragment_name.node.text()) {
                Some(doc.fragments.view()[s.node.fragment_name.node.text()].node.selection_set.node) } else { None },
        Selection::InlineFragment(i) => Some(i.node.selection_set.node),
    }
}
pub open spec fn exceeds(doc: ExecutableDocument, ss: SelectionSet, cur: nat, max: nat) -> bool
    decreases max + 1 - cur, ss.items.len() + 1
{
    if cur > max { true } else { any_from(doc, ss, 0, cur, max) }
}
// some selection with index >= k opens a selection set that exceeds (index recursion: Verus does not unfold recursion under `exists`)
pub open spec fn any_from(doc: ExecutableDocument, ss: SelectionSet, k: nat, cur: nat, max: nat) -> bool
    decreases max + 1 - cur, ss.items.len() - k
{
    if cur > max || k >= ss.items.len() { false }
    else {
        (child_set(doc, ss.items[k as int].node) is Some && exceeds(doc, child_set(doc, ss.items[k as int].node)->Some_0, cur + 1, max))
        || any_from(doc, ss, k + 1, cur, max)
    }
}
'''

DIR_SPEC = r'''
// "directives per field, with fragments counted as if written inline": some field reachable from `ss`
// (through sub-selections, inline fragments and spreads, at most `fuel` levels deep) carries more than `limit` directives.
pub open spec fn too_many(doc: ExecutableDocument, ss: SelectionSet, limit: nat, fuel: nat) -> bool
    decreases fuel
{
    if fuel == 0 { false } else {
        exists|i: int| 0 <= i < ss.items.len() && #[trigger] too_many_sel(doc, ss.items[i].node, limit, (fuel - 1) as nat)
    }
}
pub open spec fn too_many_sel(doc: ExecutableDocument, sel: Selection, limit: nat, fuel: nat) -> bool
    decreases fuel, 0nat
{
    match sel {
        Selection::Field(f) => f.node.directives.len() > limit || (fuel > 0 && too_many(doc, f.node.selection_set.node, limit, fuel)),
        Selection::FragmentSpread(s) => doc.fragments.view().contains_key(s.node.fragment_name.node.text())
            && fuel > 0 && too_many(doc, doc.fragments.view()[s.node.fragment_name.node.text()].node.selection_set.node, limit, fuel),
        Selection::InlineFragment(i) => fuel > 0 && too_many(doc, i.node.selection_set.node, limit, fuel),
    }
}
'''

ERR = [CallSub('ServerError::new', 'verif_server_error()', rule='R-msg')]


def depth_unit(kf):
    u = Unit('c10_recursive_depth', ['C10', 'C12'], 'check_recursive_depth rejects exactly the documents nested deeper than the limit')
    u.kf = kf
    value_types(u)
    ast_types(u)
    u.trusted(SHIM, 'ServerError shim')
    u.spec(DEPTH_SPEC, 'nesting depth spec')
    u.extract_fn(S, ['fn check_recursive_depth', 'fn check_selection_set'], name='rd_check_selection_set',
                 label=S + '::fn check_recursive_depth::fn check_selection_set (nested)',
                 rewrites=ERR + [Sub('check_selection_set(', 'rd_check_selection_set(', count=3, rule='R-hoist'),
                                 Sub('for selection in &selection_set.node.items', 'for selection in it: &selection_set.node.items', rule='R-iter'),
                                 Sub('if let Some(fragment) = doc.fragments.get(&fragment_spread.node.fragment_name.node) {',
                                     'match doc.fragments.get(&fragment_spread.node.fragment_name.node) { None => {}, Some(fragment) => {', rule='R-iflet'),
                                 Sub(')?; } } Selection::InlineFragment', ')?; } } } Selection::InlineFragment', rule='R-iflet')],
                 requires=['current_depth <= max_depth + 1', 'max_depth < usize::MAX - 1'],
                 ensures=['r.is_err() <==> exceeds(*doc, selection_set.node, current_depth as nat, max_depth as nat)'],
                 decreases='max_depth + 1 - current_depth',
                 loops={0: dict(prop=['exceeds(*doc, selection_set.node, current_depth as nat, max_depth as nat) <==> any_from(*doc, selection_set.node, it.index@ as nat, current_depth as nat, max_depth as nat)'],
                                aux=['current_depth <= max_depth', 'max_depth < usize::MAX - 1'],
                                head='''proof {
    assert(*selection == selection_set.node.items@[it.index@ as int]);
    assert((current_depth as nat) + 1 == (current_depth + 1) as nat);
}''')},
                 attrs=['#[verifier::loop_isolation(false)]'])
    u.assume('check_recursive_depth: `max_depth < usize::MAX - 1` (configuration) so that current_depth + 1 cannot overflow')
    u.search_case('check_recursive_depth', 'c10_depth')
    return u


UNITS = {'c10_recursive_depth': (['C10', 'C12'], depth_unit)}
