"""C33 -- dynamic schema validity predicates: TypeRef::{is_subtype, is_nullable, type_name}, typeref_nonnullable_name."""
from vx.unit import Unit, Sub, MacroCall, ReSub, DropNestedFn

F = 'src/dynamic/type_ref.rs'
C = 'src/dynamic/check.rs'

SPEC = r'''
// GraphQL spec, IsValidImplementationFieldType(fieldType, implementedFieldType) restricted to what a TypeRef can
// express (named-type subtyping through `implements` is decided elsewhere; here named types must be identical):
//  1. fieldType Non-Null  -> strip it; strip implementedFieldType's Non-Null too if present; recurse
//  2. both Lists          -> recurse on the item types
//  3. otherwise           -> same named type (and implementedFieldType not Non-Null, not List vs Named)
pub open spec fn valid_impl_type(field: TypeRef, implemented: TypeRef) -> bool
    decreases field, implemented
{
    match field {
        TypeRef::NonNull(f) => match implemented {
            TypeRef::NonNull(i) => valid_impl_type(*f, *i),
            _ => valid_impl_type(*f, implemented),
        },
        TypeRef::List(f) => match implemented {
            TypeRef::List(i) => valid_impl_type(*f, *i),
            _ => false,
        },
        TypeRef::Named(f) => match implemented {
            TypeRef::Named(i) => f@ == i@,
            _ => false,
        },
    }
}
pub open spec fn spec_type_name(t: TypeRef) -> Seq<char> decreases t {
    match t { TypeRef::Named(n) => n@, TypeRef::NonNull(i) => spec_type_name(*i), TypeRef::List(i) => spec_type_name(*i) }
}
// consequences the schema checker relies on (lemmas over the spec; fail if valid_impl_type were wrong)
pub proof fn lemma_reflexive(t: TypeRef) ensures valid_impl_type(t, t) decreases t {
    match t { TypeRef::Named(n) => {}, TypeRef::NonNull(i) => lemma_reflexive(*i), TypeRef::List(i) => lemma_reflexive(*i) }
}
pub proof fn lemma_nullable_never_implements_nonnull(f: TypeRef, i: TypeRef)
    requires !(f is NonNull), i is NonNull ensures !valid_impl_type(f, i) {}
pub proof fn lemma_same_named_type(f: TypeRef, i: TypeRef)
    requires valid_impl_type(f, i) ensures spec_type_name(f) == spec_type_name(i) decreases f, i
{
    match f {
        TypeRef::NonNull(ff) => match i { TypeRef::NonNull(ii) => lemma_same_named_type(*ff, *ii), _ => lemma_same_named_type(*ff, i) },
        TypeRef::List(ff) => match i { TypeRef::List(ii) => lemma_same_named_type(*ff, *ii), _ => {} },
        TypeRef::Named(_) => {}
    }
}
'''


def typeref_unit(kf):
    u = Unit('c33_typeref', ['C33'], 'TypeRef predicates against the spec\'s IsValidImplementationFieldType')
    u.kf = kf
    u.prelude('string_eq')
    u.extract_type(F, ['enum TypeRef'], rewrites=[Sub("Cow<'static, str>", 'String', rule='R-ty')])
    u.spec(SPEC, 'type compatibility spec')
    # nested fn hoisted (E1): the recursive worker
    u.extract_fn(F, ['impl TypeRef', 'fn is_subtype', 'fn is_subtype'], name='is_subtype_rec',
                 label=F + '::impl TypeRef::fn is_subtype::fn is_subtype (nested)',
                 rewrites=[Sub('is_subtype(', 'is_subtype_rec(', count='+', rule='R-hoist')],
                 head_proof='proof { string_eq_axiom(); }',
                 ensures=['r == valid_impl_type(*sub, *cur)'], decreases='*cur, *sub')
    u.extract_fn(F, ['impl TypeRef', 'fn is_subtype'], wrap_impl='TypeRef',
                 rewrites=[DropNestedFn('is_subtype'), Sub('is_subtype(self, sub)', 'is_subtype_rec(self, sub)', rule='R-hoist')],
                 ensures=['r == valid_impl_type(*sub, *self)'])
    u.extract_fn(F, ['impl TypeRef', 'fn is_nullable'], wrap_impl='TypeRef',
                 ensures=['r == !(*self is NonNull)'])
    u.extract_fn(F, ['impl TypeRef', 'fn type_name'], wrap_impl='TypeRef',
                 rewrites=[Sub('TypeRef::Named(name) => name', 'TypeRef::Named(name) => name.as_str()', rule='R-ty')],
                 ensures=['r@ == spec_type_name(*self)'], decreases='*self')
    u.extract_fn(C, ['impl SchemaInner', 'fn check_input_object_reference', 'fn typeref_nonnullable_name'],
                 rewrites=[Sub('match inner.as_ref()', 'match &**inner', rule='R-ty'),
                           Sub('TypeRef::Named(name) => Some(name)', 'TypeRef::Named(name) => Some(name.as_str())', rule='R-ty')],
                 ensures=['match *ty { TypeRef::NonNull(inner) => match *inner { TypeRef::Named(n) => r is Some && r->Some_0@ == n@, _ => r is None }, _ => r is None }'])
    u.assume("R-ty: Cow<'static, str> is represented as String (deref-to-str and equality only)")
    u.search_case('fn is_subtype', 'c33_subtype')
    return u


UNITS = {'c33_typeref': (['C33'], typeref_unit)}
SEARCH = {'c33_typeref': ['c33_subtype']}
