"""C33 -- dynamic schema validity predicates: TypeRef::{is_subtype, is_nullable, type_name}, typeref_nonnullable_name."""
from vx.unit import Unit, Sub, MacroCall, ReSub, DropNestedFn

F = 'src/dynamic/type_ref.rs'
C = 'src/dynamic/check.rs'

SPEC = r'''
// GraphQL spec, IsValidImplementationFieldType(fieldType, implementedFieldType) restricted to what a TypeRef can
// express (named-type subtyping through `implements` is decided elsewhere; here named types must be identical):
//  1. fieldType Non-Null  -> strip it; strip implementedFieldType's Non-Null too if present; recurse
//  2. both Lists          -> recurse on the item types
//  3. otherwise           -> same named type (and implementedFieldType not Non-Null, not List vs Named)
pub open spec fn valid_impl_type(field: TypeRef, implemented: TypeRef) -> bool
    decreases field, implemented
{
    match field {
        TypeRef::NonNull(f) => match implemented {
            TypeRef::NonNull(i) => valid_impl_type(*f, *i),
            _ => valid_impl_type(*f, implemented),
        },
        TypeRef::List(f) => match implemented {
            TypeRef::List(i) => valid_impl_type(*f, *i),
            _ => false,
        },
        TypeRef::Named(f) => match implemented {
            TypeRef::Named(i) => f@ == i@,
            _ => false,
        },
    }
}
pub open spec fn spec_type_name(t: TypeRef) -> Seq<char> decreases t {
    match t { TypeRef::Named(n) => n@, TypeRef::NonNull(i) => spec_type_name(*i), TypeRef::List(i) => spec_type_name(*i) }
}
// consequences the schema checker relies on (lemmas over the spec; fail if valid_impl_type were wrong)
pub proof fn lemma_reflexive(t: TypeRef) ensures valid_impl_type(t, t) decreases t {
    match t { TypeRef::Named(n) => {}, TypeRef::NonNull(i) => lemma_reflexive(*i), TypeRef::List(i) => lemma_reflexive(*i) }
}
pub proof fn lemma_nullable_never_implements_nonnull(f: TypeRef, i: TypeRef)
    requires !(f is NonNull), i is NonNull ensures !valid_impl_type(f, i) {}
pub proof fn lemma_same_named_type(f: TypeRef, i: TypeRef)
    requires valid_impl_type(f, i) ensures spec_type_name(f) == spec_type_name(i) decreases f, i
{
    match f {
        TypeRef::NonNull(ff) => match i { TypeRef::NonNull(ii) => lemma_same_named_type(*ff, *ii), _ => lemma_same_named_type(*ff, i) },
        TypeRef::List(ff) => match i { TypeRef::List(ii) => lemma_same_named_type(*ff, *ii), _ => {} },
        TypeRef::Named(_) => {}
    }
}
'''


def typeref_unit(kf):
    u = Unit('c33_typeref', ['C33'], 'TypeRef predicates against the spec\'s IsValidImplementationFieldType')
    u.kf = kf
    u.prelude('string_eq')
    u.extract_type(F, ['enum TypeRef'], rewrites=[Sub("Cow<'static, str>", 'String', rule='R-ty')])
    u.spec(SPEC, 'type compatibility spec')
    # nested fn hoisted (E1): the recursive worker
    u.extract_fn(F, ['impl TypeRef', 'fn is_subtype', 'fn is_subtype'], name='is_subtype_rec',
                 label=F + '::impl TypeRef::fn is_subtype::fn is_subtype (nested)',
                 rewrites=[Sub('is_subtype(', 'is_subtype_rec(', count='+', rule='R-hoist')],
                 head_proof='proof { string_eq_axiom(); }',
                 ensures=['r == valid_impl_type(*sub, *cur)'], decreases='*cur, *sub')
    u.extract_fn(F, ['impl TypeRef', 'fn is_subtype'], wrap_impl='TypeRef',
                 rewrites=[DropNestedFn('is_subtype'), Sub('is_subtype(self, sub)', 'is_subtype_rec(self, sub)', rule='R-hoist')],
                 ensures=['r == valid_impl_type(*sub, *self)'])
    u.extract_fn(F, ['impl TypeRef', 'fn is_nullable'], wrap_impl='TypeRef',
                 ensures=['r == !(*self is NonNull)'])
    u.extract_fn(F, ['impl TypeRef', 'fn type_name'], wrap_impl='TypeRef',
                 rewrites=[Sub('TypeRef::Named(name) => name', 'TypeRef::Named(name) => name.as_str()', rule='R-ty')],
                 ensures=['r@ == spec_type_name(*self)'], decreases='*self')
    u.extract_fn(C, ['impl SchemaInner', 'fn check_input_object_reference', 'fn typeref_nonnullable_name'],
                 rewrites=[Sub('match inner.as_ref()', 'match &**inner', rule='R-ty'),
                           Sub('TypeRef::Named(name) => Some(name)', 'TypeRef::Named(name) => Some(name.as_str())', rule='R-ty')],
                 ensures=['match *ty { TypeRef::NonNull(inner) => match *inner { TypeRef::Named(n) => r is Some && r->Some_0@ == n@, _ => r is None }, _ => r is None }'])
    u.assume("R-ty: Cow<'static, str> is represented as String (deref-to-str and equality only)")
    u.search_case('fn is_subtype', 'c33_subtype')
    return u


UNITS = {'c33_typeref': (['C33'], typeref_unit)}
SEARCH = {'c33_typeref': ['c33_subtype']}


# ----------------------------------------------------------------------------------------------------------------------
# SchemaInner::check_unions: a schema builds only if every (registered) union member is an object type
from vx.unit import LetChain, ClosureMatch  # noqa: E402

CHECK_SHIMS = r'''
// ---- trusted shims (R-ty): IndexMap<String, V> / IndexSet<String> as their insertion-ordered entry lists; lookup returns the
// entry of that key (keys are distinct: the map's own invariant, stated as `requires` where a proof needs it)
pub struct StrEntryMap<V> { pub entries: Vec<(String, V)> }
pub open spec fn emap_index<V>(es: Seq<(String, V)>, k: Seq<char>) -> Option<int> {
    if exists|i: int| 0 <= i < es.len() && es[i].0@ == k { Some(choose|i: int| 0 <= i < es.len() && es[i].0@ == k && forall|j: int| 0 <= j < i ==> es[j].0@ != k) } else { None }
}
impl<V> StrEntryMap<V> {
    #[verifier::external_body]
    pub fn get(&self, k: &str) -> (r: Option<&V>)
        ensures match emap_index(self.entries@, k@) { Some(i) => r == Some(&self.entries@[i].1), None => r is None } { unimplemented!() }
}
pub struct StrList { pub items: Vec<String> }
pub struct Scalar { pub name: String }
pub struct Object { pub name: String }
pub struct InputObject { pub name: String }
pub struct Enum { pub name: String }
pub struct Interface { pub name: String }
pub struct Union { pub name: String, pub possible_types: StrList }
pub struct Subscription { pub name: String }
pub struct Registry { pub query_type: String, pub mutation_type: Option<String>, pub subscription_type: Option<String> }
pub struct SchemaEnv { pub registry: Registry }
pub struct SchemaInner { pub env: SchemaEnv, pub types: StrEntryMap<Type> }
pub struct SchemaError(pub String);
#[verifier::external_body]
pub fn schema_error() -> (r: SchemaError) { unimplemented!() }
'''

UNION_SPEC = r'''
pub open spec fn type_of(es: Seq<(String, Type)>, name: Seq<char>) -> Option<Type> { match emap_index(es, name) { Some(i) => Some(es[i].1), None => None } }
// GraphQL spec, Unions type validation: "The member types of a Union type must all be Object base types"
pub open spec fn bad_member(es: Seq<(String, Type)>, u: Union, j: int) -> bool {
    type_of(es, u.possible_types.items@[j]@) is Some && !(type_of(es, u.possible_types.items@[j]@)->Some_0 is Object)
}
pub open spec fn union_bad(es: Seq<(String, Type)>, i: int) -> bool {
    es[i].1 is Union && exists|j: int| 0 <= j < es[i].1->Union_0.possible_types.items@.len() && bad_member(es, es[i].1->Union_0, j)
}
pub open spec fn unions_bad(es: Seq<(String, Type)>) -> bool { exists|i: int| 0 <= i < es.len() && union_bad(es, i) }
'''


def check_unions_unit(kf):
    u = Unit('c33_check_unions', ['C33'], 'check_unions rejects exactly the schemas with a union member that is registered and not an object type')
    u.kf = kf
    u.prelude('string_eq')
    u.extract_type('src/dynamic/type.rs', ['enum Type'])
    u.trusted(CHECK_SHIMS, 'schema / map shims')
    u.shim_conformance('src/dynamic/schema.rs', ['struct SchemaInner'], [('env', 'SchemaEnv'), ('types', 'IndexMap<String, Type>')])
    u.shim_conformance('src/registry/mod.rs', ['struct Registry'], [('query_type', 'String'), ('mutation_type', 'Option<String>'), ('subscription_type', 'Option<String>')])
    u.shim_conformance('src/dynamic/union.rs', ['struct Union'], [('name', 'String'), ('possible_types', 'IndexSet<String>')])
    u.spec(UNION_SPEC, 'union member rule')
    u.extract_fn('src/dynamic/type.rs', ['impl Type', 'fn as_object'], wrap_impl='Type', sig_rewrites=[ReSub(r'pub\(crate\) fn', 'fn')],
                 ensures=['match *self { Type::Object(o) => r == Some(&o), _ => r is None }'])
    # the sibling accessors too, so that a check rewritten in terms of them is still decided (not rejected as an unknown method)
    for acc, var in [('as_interface', 'Interface'), ('as_input_object', 'InputObject')]:
        u.extract_fn('src/dynamic/type.rs', ['impl Type', f'fn {acc}'], wrap_impl='Type', sig_rewrites=[ReSub(r'pub\(crate\) fn', 'fn')],
                     ensures=[f'match *self {{ Type::{var}(o) => r == Some(&o), _ => r is None }}'])
    # GraphQL spec IsOutputType / IsInputType on named types (Upload is the crate's input-only scalar)
    u.extract_fn('src/dynamic/type.rs', ['impl Type', 'fn is_output_type'], wrap_impl='Type', sig_rewrites=[ReSub(r'pub\(crate\) fn', 'fn')],
                 ensures=['r == (*self is Scalar || *self is Object || *self is Interface || *self is Union || *self is Enum)   // every field has an OUTPUT type'])
    u.extract_fn('src/dynamic/type.rs', ['impl Type', 'fn is_input_type'], wrap_impl='Type', sig_rewrites=[ReSub(r'pub\(crate\) fn', 'fn')],
                 ensures=['r == (*self is Scalar || *self is Enum || *self is InputObject || *self is Upload)   // every argument has an INPUT type'])
    es = 'self.types.entries@'
    u.extract_fn(C, ['impl SchemaInner', 'fn check_unions'], wrap_impl='SchemaInner',
                 rewrites=[MacroCall('format', 'schema_error()', count=1), Sub('schema_error() .into()', 'schema_error()', rule='R-msg'),
                           LetChain(count=1),
                           Sub('for ty in self.types.values() {', 'for e__ in it: &self.types.entries { let ty = &e__.1;', rule='R-iter'),
                           Sub('for type_name in &union.possible_types {', 'for type_name in it2: &union.possible_types.items {', rule='R-iter')],
                 ensures=[f'r is Err <==> unions_bad({es})'],
                 loops={0: dict(prop=[f'forall|i: int| 0 <= i < it.index@ ==> !union_bad({es}, i)'], aux=[],
                                head=f'proof {{ assert(*e__ == {es}[it.index@ as int]); }}'),
                        1: dict(prop=[f'forall|j: int| 0 <= j < it2.index@ ==> !bad_member({es}, *union, j)'],
                                aux=[f'forall|i: int| 0 <= i < it.index@ ==> !union_bad({es}, i)', f'*e__ == {es}[it.index@ as int]', f'ty == &e__.1', 'Type::Union(*union) == *ty'],
                                head='proof { assert(*type_name == union.possible_types.items@[it2.index@ as int]); }')},
                 inserts=[('before', 'return Err(schema_error());', f'proof {{ assert(bad_member({es}, *union, it2.index@ as int)); assert(union_bad({es}, it.index@ as int)); }}')],
                 attrs=['#[verifier::loop_isolation(false)]'])
    # root types: "root types exist and are objects" (existence itself is check_types_exists, not under contract)
    class Matches(Sub):
        pass
    from vx.unit import MacroCall as _MC
    u.extract_fn(C, ['impl SchemaInner', 'fn check_root_types'], wrap_impl='SchemaInner',
                 rewrites=[Sub('"The query root must be an object".into()', 'schema_error()', rule='R-msg'),
                           Sub('"The mutation root must be an object".into()', 'schema_error()', rule='R-msg'),
                           Sub('"The subscription root must be a subscription object".into()', 'schema_error()', rule='R-msg'),
                           Sub('!matches!(ty, Type::Object(_))', '!(match ty { Type::Object(_) => true, _ => false })', count=2, rule='R-matches', why='matches! is its defining match'),
                           Sub('!matches!(ty, Type::Subscription(_))', '!(match ty { Type::Subscription(_) => true, _ => false })', count=1, rule='R-matches'),
                           LetChain(count=3),
                           Sub('self.types.get(&self.env.registry.query_type)', 'self.types.get(self.env.registry.query_type.as_str())', rule='R-ty'),
                           Sub('self.types.get(mutation_type)', 'self.types.get(mutation_type.as_str())', rule='R-ty'),
                           Sub('self.types.get(subscription_type)', 'self.types.get(subscription_type.as_str())', rule='R-ty')],
                 ensures=[f'''r is Err <==> (
            (type_of({es}, self.env.registry.query_type@) is Some && !(type_of({es}, self.env.registry.query_type@)->Some_0 is Object))
            || (self.env.registry.mutation_type is Some && type_of({es}, self.env.registry.mutation_type->Some_0@) is Some && !(type_of({es}, self.env.registry.mutation_type->Some_0@)->Some_0 is Object))
            || (self.env.registry.subscription_type is Some && type_of({es}, self.env.registry.subscription_type->Some_0@) is Some && !(type_of({es}, self.env.registry.subscription_type->Some_0@)->Some_0 is Subscription)))   // a registered root type of the wrong kind, and nothing else, is rejected here'''])
    u.assume('IndexMap / IndexSet represented by their entry lists (R-ty); get() returns the entry of that key (assumed contract on indexmap)')
    u.assume('members that are not registered at all are reported by another check (check_types_exists family, not under contract here)')
    u.search_case('check.rs', 'c33_build')
    return u


UNITS['c33_check_unions'] = (['C33'], check_unions_unit)
SEARCH['c33_check_unions'] = ['c33_build']

BOUNDED = {'C33': [dict(case='c33_build', function='src/dynamic/check.rs::SchemaInner::check (check_root_types, check_objects, check_interfaces, check_unions, check_input_object_reference, check_is_valid_implementation) through SchemaBuilder::finish; every schema that builds is also exported and introspected',
                        bound='~35 hand-labelled type systems (root types, output/input type positions, required input-object cycles incl. cycles behind leading leaf fields, union members of every kind, interface implementations: missing fields, nullability, list covariance, arguments)',
                        why='the IndexMap-driven check_* loops use closures, trait objects (BaseContainer) and a HashSet<&str> visited chain; only TypeRef predicates and check_unions are under contract')]}
