"""Shared extraction helpers: the real AST / value type definitions, copied from /repo on every run."""
from vx.unit import Sub, ReSub, ClosureDesugar

V = 'value/src/lib.rs'
EX = 'parser/src/types/executable.rs'
TM = 'parser/src/types/mod.rs'
PO = 'parser/src/pos.rs'

MAP_SHIMS = r'''
// ---- trusted shims (R-ty): std HashMap / indexmap IndexMap keyed by Name, viewed as a spec Map from the name's text.
#[verifier::external_body]
#[verifier::accept_recursive_types(V)]
pub struct NameMap<V> { _p: core::marker::PhantomData<V> }
impl<V> NameMap<V> {
    pub uninterp spec fn view(&self) -> Map<Seq<char>, V>;
    #[verifier::external_body]
    pub fn get(&self, k: &Name) -> (r: Option<&V>)
        ensures match r { Some(v) => self.view().contains_key(k@) && *v == self.view()[k@], None => !self.view().contains_key(k@) }
    { unimplemented!() }
    #[verifier::external_body]
    pub fn contains_key(&self, k: &Name) -> (r: bool) ensures r == self.view().contains_key(k@) { unimplemented!() }
}
// an ordered map (IndexMap): same lookup contract plus an entry sequence in insertion order
#[verifier::external_body]
#[verifier::accept_recursive_types(V)]
pub struct IndexMapN<V> { _p: core::marker::PhantomData<V> }
impl<V> IndexMapN<V> {
    pub uninterp spec fn entries(&self) -> Seq<(Name, V)>;
}
global size_of usize == 8;
'''


def value_types(u, const_alias=None, with_value=True, emap=False):
    """ConstValue (and Value) from value/src/lib.rs. const_alias='Value' renames ConstValue (inside async-graphql
    `Value` IS ConstValue); then the parser's variable-carrying Value is not extracted."""
    u.prelude('value_shims')
    u.trusted(MAP_SHIMS, 'HashMap/IndexMap keyed by Name (shim)')
    if emap:
        # transparent entry-list shim of IndexMap (structural recursion through object values becomes provable)
        u.prelude('indexmap_e')
        u.extract_type(V, ['enum ConstValue'], rewrites=[Sub('IndexMap<Name, ConstValue>', 'IndexMapE<ConstValue>', rule='R-ty')])
        if with_value:
            u.extract_type(V, ['enum Value'], rewrites=[Sub('IndexMap<Name, Value>', 'IndexMapE<Value>', rule='R-ty')])
        else:
            u.trusted('pub type Value = ConstValue;   // inside async-graphql, `Value` is `async_graphql_value::ConstValue`', 'Value alias')
        u.assume('target is 64-bit (global size_of usize == 8)')
        u.assume('indexmap::IndexMap<Name,_> represented by its insertion-ordered entry list with distinct keys (type invariant) (assumed contract on a dependency)')
        return
    if const_alias:
        u.extract_type(V, ['enum ConstValue'],
                       rewrites=[Sub('IndexMap<Name, ConstValue>', 'IndexMapN<ConstValue>', rule='R-ty'),
                                 Sub('ConstValue', const_alias, count='+', rule='R-alias')],
                       label=V + f'::enum ConstValue (as crate::{const_alias})')
    else:
        u.extract_type(V, ['enum ConstValue'], rewrites=[Sub('IndexMap<Name, ConstValue>', 'IndexMapN<ConstValue>', rule='R-ty')])
        if with_value:
            u.extract_type(V, ['enum Value'], rewrites=[Sub('IndexMap<Name, Value>', 'IndexMapN<Value>', rule='R-ty')])
        else:
            u.trusted('pub type Value = ConstValue;   // inside async-graphql, `Value` is `async_graphql_value::ConstValue`', 'Value alias')
    u.assume('target is 64-bit (global size_of usize == 8)')
    u.assume('serde_json::Number modelled as integer in i64::MIN..=u64::MAX or float; as_i64/as_u64/is_i64/is_u64/From<i64>/From<u64> per its documentation (assumed contract on a dependency)')
    u.assume('HashMap<Name,_>/IndexMap<Name,_> represented by a shim whose lookup contract is that of a map keyed by the name text (assumed contract on std/indexmap)')


def value_types_ctx(u):
    """The two value types as src/context.rs names them: `Value` = async_graphql_value::ConstValue, `InputValue` =
    async_graphql_value::Value (may contain variables). IndexMap<Name, _> is the transparent entry-list shim IndexMapE."""
    u.prelude('value_shims')
    u.prelude('indexmap_e')
    u.trusted(MAP_SHIMS, 'HashMap/BTreeMap keyed by Name (shim)')
    u.extract_type(V, ['enum Value'],
                   rewrites=[Sub('IndexMap<Name, Value>', 'IndexMapE<InputValue>', rule='R-ty'), Sub('Value', 'InputValue', count='+', rule='R-alias')],
                   label=V + '::enum Value (as crate::InputValue)')
    u.extract_type(V, ['enum ConstValue'],
                   rewrites=[Sub('IndexMap<Name, ConstValue>', 'IndexMapE<ConstValue>', rule='R-ty'), Sub('ConstValue', 'Value', count='+', rule='R-alias')],
                   label=V + '::enum ConstValue (as crate::Value)')
    u.assume('target is 64-bit (global size_of usize == 8)')
    u.assume('indexmap::IndexMap<Name,_> represented by its insertion-ordered entry list with distinct keys (type invariant) and indexmap\'s documented insert (assumed contract on a dependency)')
    u.assume('BTreeMap/HashMap<Name,_> represented by a shim whose lookup contract is that of a map keyed by the name text (assumed contract on std)')


CTX_ALIAS = [Sub('ConstValue', 'Value__C', count='*', rule='R-alias'), Sub('Value', 'InputValue', count='*', rule='R-alias'), Sub('Value__C', 'Value', count='*', rule='R-alias')]


def ast_types(u, alias=()):
    """Executable-document AST, extracted verbatim (derives and docs stripped; HashMap -> NameMap shim).
    alias: extra renames applied to every type (CTX_ALIAS when the unit uses context.rs' names for the two value types)."""
    alias = list(alias)
    _orig = u.extract_type
    def _et(file, path, rewrites=(), **kw):
        return _orig(file, path, rewrites=list(rewrites) + alias, **kw)
    u = _Proxy(u, _et)
    u.extract_type(PO, ['struct Pos'], keep_derives=['Clone', 'Copy'])
    u.extract_type(PO, ['struct Positioned'], rewrites=[Sub('<T: ?Sized>', '<T>', rule='R-ty')])
    u.extract_type(TM, ['enum OperationType'])
    u.extract_type(TM, ['struct Type'])
    u.extract_type(TM, ['enum BaseType'])
    u.extract_type(TM, ['struct Directive'])
    u.extract_type(EX, ['struct ExecutableDocument'], rewrites=[Sub('HashMap<Name, Positioned<FragmentDefinition>>', 'NameMap<Positioned<FragmentDefinition>>', rule='R-ty')])
    u.extract_type(EX, ['enum DocumentOperations'], rewrites=[Sub('HashMap<Name, Positioned<OperationDefinition>>', 'NameMap<Positioned<OperationDefinition>>', rule='R-ty')])
    for s in ['struct OperationDefinition', 'struct VariableDefinition', 'struct SelectionSet', 'enum Selection', 'struct Field',
              'struct FragmentSpread', 'struct InlineFragment', 'struct FragmentDefinition', 'struct TypeCondition']:
        u.extract_type(EX, [s])
    # real accessor, extracted and under contract (so that code switching between name and alias is decided, not rejected)
    u.extract_fn(EX, ['impl Field', 'fn response_key'], wrap_impl='Field', canary=False,
                 ensures=['*r == (match self.alias { Some(a) => a, None => self.name })'])

class _Proxy:
    """Unit proxy that routes extract_type through a wrapper (adds alias rewrites)."""
    def __init__(self, u, et): self._u, self.extract_type = u, et
    def __getattr__(self, k): return getattr(self._u, k)


R = 'src/registry/mod.rs'

REGISTRY_TYPES = r'''
// fn(&VisitorContext, &[Positioned<VariableDefinition>], &Field, usize) -> ServerResult<usize>: generated by the derive macros; opaque
#[verifier::external_body]
pub struct ComputeComplexityFn { _p: u8 }
impl ComputeComplexityFn {
    pub uninterp spec fn spec_call(&self, field: Field, children: usize) -> Result<usize, Seq<char>>;
}
pub struct MetaField { pub name: String, pub ty: String, pub cache_control: CacheControl, pub compute_complexity: Option<ComputeComplexityFn> }
pub enum MetaType {
    Scalar { name: String },
    Object { name: String, fields: StrMap<MetaField>, cache_control: CacheControl },
    Interface { name: String, fields: StrMap<MetaField>, possible_types: StrSet },
    Union { name: String, possible_types: StrSet },
    Enum { name: String },
    InputObject { name: String },
}
'''


def registry_types(u):
    """Field-subset shims of MetaType / MetaField + conformance check against the real definitions."""
    u.prelude('registry_shim')
    u.extract_type('src/registry/cache_control.rs', ['struct CacheControl'], keep_derives=['Clone', 'Copy'])
    u.trusted(REGISTRY_TYPES, 'MetaType / MetaField field-subset shims')
    u.shim_conformance(R, ['struct MetaField'], [('name', 'String'), ('ty', 'String'), ('cache_control', 'CacheControl'), ('compute_complexity', 'Option<ComputeComplexityFn>')])
    u.shim_conformance(R, ['enum MetaType'], [('name', 'String')], variant='Scalar')
    u.shim_conformance(R, ['enum MetaType'], [('name', 'String'), ('fields', 'IndexMap<String, MetaField>'), ('cache_control', 'CacheControl')], variant='Object')
    u.shim_conformance(R, ['enum MetaType'], [('name', 'String'), ('fields', 'IndexMap<String, MetaField>'), ('possible_types', 'IndexSet<String>')], variant='Interface')
    u.shim_conformance(R, ['enum MetaType'], [('name', 'String'), ('possible_types', 'IndexSet<String>')], variant='Union')
    u.shim_conformance(R, ['enum MetaType'], [('name', 'String')], variant='Enum')
    u.shim_conformance(R, ['enum MetaType'], [('name', 'String')], variant='InputObject')
    u.assume('MetaType / MetaField are field-subset shims of the real registry types (conformance-checked each run); IndexMap<String,_> / IndexSet<String> represented by lookup-only shims')
    # the two real accessors, extracted and put under contract
    u.extract_fn(R, ['impl MetaType', 'fn fields'], wrap_impl='MetaType',
                 sig_rewrites=[ReSub(r'IndexMap<String, MetaField>', 'StrMap<MetaField>')],
                 ensures=['match *self { MetaType::Object { fields, .. } => r == Some(&fields), MetaType::Interface { fields, .. } => r == Some(&fields), _ => r is None }'])
    u.extract_fn(R, ['impl MetaType', 'fn field_by_name'], wrap_impl='MetaType',
                 rewrites=[ClosureDesugar('and_then')],
                 ensures=['match *self { MetaType::Object { fields, .. } | MetaType::Interface { fields, .. } => (match r { Some(f) => fields.view().contains_key(name@) && *f == fields.view()[name@], None => !fields.view().contains_key(name@) }), _ => r is None }'])
