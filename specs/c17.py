"""C17 -- exported SDL: string escaping kernels (escape_string) decode back to the original text."""
import re
from vx.unit import Unit, Sub, MacroCall, ReSub
from vx.rustlex import code_tokens

F = 'src/registry/export_sdl.rs'


def strlit_reveals(body_text):
    """reveal_strlit for every string literal of the extracted body (generated mechanically)."""
    lits = []
    for t in code_tokens(body_text):
        if t.kind == 'str' and t.text.startswith('"') and t.text not in lits:
            lits.append(t.text)
    return lits


def escape_unit(kf):
    u = Unit('c17_escape_string', ['C17'], 'escape_string(s) is a GraphQL string body that decodes to s')
    u.kf = kf
    u.prelude('string_write')
    u.prelude('gql_string', tag='spec')
    src = u._read(F)
    from vx.rustlex import locate
    lits = strlit_reveals(locate(src, ['fn escape_string']).body)
    reveals = ' '.join(f'reveal_strlit({l});' for l in lits)
    units = ' '.join(f'assert({l}@.len() == 2);' for l in lits if l != '""')
    u.extract_fn(F, ['fn escape_string'],
                 rewrites=[Sub('for c in s.chars()', 'for c in it: s.chars()', rule='R-iter')],
                 ensures=['gql_string_decode(r@) == Some(s@)'],
                 loops={0: dict(prop=['gql_string_decode(res@) == Some(s@.take(it.index@ as int))'],
                                aux=['it.history@ =~= s@.take(it.index@ as int)', 'it.index@ <= s@.len()'],
                                head='''proof {
    assert(s@.take(it.index@ + 1).drop_last() =~= s@.take(it.index@ as int));
    assert(s@.take(it.index@ + 1).last() == c);
    assert(s@.take(it.index@ + 1) =~= s@.take(it.index@ as int).push(c));
    @REVEALS@
}
let ghost before = res@;''',
                                after='proof { assert(s@.take(s@.len() as int) =~= s@); }')},
                 inserts=[('after', 'res.write_str(ec).ok();', 'proof { assert(ec@.len() == 2); if gql_unit(ec@, c) { lemma_decode_append(before, ec@, c); } }'),
                          ('after', 'res.write_char(c).ok();', 'proof { assert(seq![c].len() == 1); assert(before.push(c) =~= before + seq![c]); if gql_unit(seq![c], c) { lemma_decode_append(before, seq![c], c); } }')],
                 )
    u.assume('String as fmt::Write appends and returns Ok (std, assumed)')
    u.search_case('fn escape_string', 'c17_escape')
    return u


UNITS = {'c17_escape_string': (['C17'], escape_unit)}
SEARCH = {'c17_escape_string': ['c17_escape']}


from vx.unit import WriteMacro, ClosureMatch  # noqa: E402

R = 'src/registry/mod.rs'

SDL_SHIMS = r'''
// field-subset shim of registry::MetaInputValue (conformance-checked); Deprecation is extracted verbatim below
pub struct MetaInputValue { pub name: String, pub ty: String, pub deprecation: Deprecation, pub default_value: Option<String> }
'''

SDL_SPEC = r'''
pub open spec fn iv_head(iv: MetaInputValue) -> Seq<char> {
    iv.name@ + ": "@ + iv.ty@ + (match iv.default_value { Some(d) => " = "@ + d@, None => Seq::<char>::empty() })
}

// what write_deprecated must append: nothing, ` @deprecated`, or ` @deprecated(reason: "<body>")` with body decoding to the reason
pub open spec fn is_deprecated_directive(out: Seq<char>, d: Deprecation) -> bool {
    match d {
        Deprecation::NoDeprecated => out.len() == 0,
        Deprecation::Deprecated { reason: None } => out == " @deprecated"@,
        Deprecation::Deprecated { reason: Some(r) } => {
            let pre = " @deprecated(reason: \""@; let post = "\")"@;
            out.len() >= pre.len() + post.len() && out.take(pre.len() as int) == pre && out.skip(out.len() - post.len()) == post
            && gql_string_decode(out.subrange(pre.len() as int, out.len() - post.len())) == Some(r@)
        }
    }
}
'''


def sdl_unit(kf):
    u = Unit('c17_input_value', ['C17'], 'write_input_value / write_deprecated emit name, type, default and the deprecation directive')
    u.kf = kf
    u.prelude('string_write')
    u.prelude('sdl_sink')
    u.prelude('gql_string', tag='spec')
    u.extract_type(R, ['enum Deprecation'])
    u.trusted(SDL_SHIMS, 'MetaInputValue field-subset shim')
    u.shim_conformance(R, ['struct MetaInputValue'], [('name', 'String'), ('ty', 'String'), ('deprecation', 'Deprecation'), ('default_value', 'Option<String>')])
    u.spec(SDL_SPEC, 'deprecation directive spec')
    u.trusted('''
// escape_string is proved in unit c17_escape_string; here only its contract is used (modular: callers see the contract, not the body)
#[verifier::external_body]
fn escape_string(s: &str) -> (r: String) ensures gql_string_decode(r@) == Some(s@) { unimplemented!() }
''', 'escape_string contract (proved in c17_escape_string)')
    u.extract_fn(F, ['fn write_deprecated'],
                 rewrites=[WriteMacro(count=2, infallible=True),
                           Sub('sdl.write_disp(&(escape_string(reason))).ok();', 'let esc = escape_string(reason); sdl.write_disp(&(esc)).ok();', count='*', rule='R-stmt')],
                 head_proof='proof { @REVEALS@ reveal_strlit(" @deprecated(reason: \\""); reveal_strlit("\\")"); reveal_strlit(" @deprecated"); }',
                 ensures=['final(sdl)@.len() >= old(sdl)@.len() && final(sdl)@.take(old(sdl)@.len() as int) == old(sdl)@',
                          'is_deprecated_directive(final(sdl)@.skip(old(sdl)@.len() as int), *deprecation)'],
                 inserts=[('after', 'sdl.write_str("\\")").ok();', '''proof {
    let o = old(sdl)@; let n = sdl@; let pre = " @deprecated(reason: \\""@; let post = "\\")"@;
    assert(n =~= o + pre + esc@ + post);
    assert(n.skip(o.len() as int).subrange(pre.len() as int, n.skip(o.len() as int).len() - post.len()) =~= esc@);
}'''),
                          ('after', 'None => { sdl.write_str(" @deprecated").ok(); Ok::<(), core::fmt::Error>(()) }.ok(), };',
                           '''proof {
    let o = old(sdl)@; let n = sdl@;
    match deprecation { Deprecation::Deprecated { reason: Some(r) } => {
        let pre = " @deprecated(reason: \\""@; let post = "\\")"@;
        let mid = n.subrange((o.len() + pre.len()) as int, n.len() - post.len());
        assert(n.skip(o.len() as int).subrange(pre.len() as int, n.skip(o.len() as int).len() - post.len()) =~= mid);
        assert(n.skip(o.len() as int).take(pre.len() as int) =~= pre);
        assert(n.skip(o.len() as int).skip(n.skip(o.len() as int).len() - post.len()) =~= post);
        assert(n.take(o.len() as int) =~= o);
    }, Deprecation::Deprecated { reason: None } => { assert(n.skip(o.len() as int) =~= " @deprecated"@); assert(n.take(o.len() as int) =~= o); }, _ => {} }
}''')])
    u.extract_fn(F, ['fn write_input_value'],
                 rewrites=[ClosureMatch('opt.filter', count='*'), WriteMacro(count=2, infallible=True), Sub('_ = {', 'let _ = {', count='*', rule='R-stmt')],
                 head_proof='proof { @REVEALS@ }',
                 ensures=['''({
            let o = old(sdl)@; let n = final(sdl)@;
            let head = iv_head(*input_value);
            n.len() >= o.len() + head.len() && n.take(o.len() as int) == o && n.subrange(o.len() as int, (o.len() + head.len()) as int) == head
            && is_deprecated_directive(n.skip((o.len() + head.len()) as int), input_value.deprecation)
        })'''],
                 inserts=[('before', 'write_deprecated(sdl, &input_value.deprecation);', 'let ghost mid = sdl@;\nproof { let o = old(sdl)@; assert(mid.take(o.len() as int) =~= o); }'),
                          ('after', 'write_deprecated(sdl, &input_value.deprecation);', '''proof {
    let ghost o = old(sdl)@; let ghost n = sdl@;
    let ghost head = iv_head(*input_value);
    assert(mid =~= o + head);
    assert(n.take(mid.len() as int) == mid);
    assert(n.take(o.len() as int) =~= mid.take(o.len() as int));
    assert(n.subrange(o.len() as int, (o.len() + head.len()) as int) =~= mid.skip(o.len() as int));
    assert(n.skip((o.len() + head.len()) as int) =~= n.skip(mid.len() as int));
}''')])
    u.search_case('write_input_value', 'c17_input_value')
    u.search_case('write_deprecated', 'c17_input_value')
    return u


UNITS['c17_input_value'] = (['C17'], sdl_unit)
SEARCH['c17_input_value'] = ['c17_input_value']
BOUNDED = {'C17': [dict(case='c17_schema', function='src/registry/export_sdl.rs::Registry::{export_sdl, export_type, export_fields, write_implements} and the dynamic register() functions that fill the registry, read back by parse_schema',
                        bound='one dynamic schema with every kind of type (enum with per-value descriptions / deprecation, interfaces implementing interfaces, an `extends` object, union, input object, nested list / non-null types, argument defaults) x 20 option sets (each option alone + 12 seeded combinations)',
                        why='900 lines of writeln! plumbing over the registry with closures and iterator chains: outside Verus; only the escaping / input-value kernels are under contract'),
                   dict(case='c17_sdl', function='src/registry/export_sdl.rs::write_description (+ the export_type / export_fields callers, through Schema::sdl_with_options) read back by parse_schema',
                        bound='10 descriptions x 7 deprecation reasons x 3 defaults x {block, single-line} (about 280 dynamic schemas per run, seeded thinning)',
                        why='write_description is String::replace / contains / repeat / format! plumbing with no contract-sized decision; Verus has no byte-level str reasoning; the re-parse half is the pest parser')]}
