"""C17 -- exported SDL: string escaping kernels (escape_string) decode back to the original text."""
import re
from vx.unit import Unit, Sub, MacroCall, ReSub
from vx.rustlex import code_tokens

F = 'src/registry/export_sdl.rs'


def strlit_reveals(body_text):
    """reveal_strlit for every string literal of the extracted body (generated mechanically)."""
    lits = []
    for t in code_tokens(body_text):
        if t.kind == 'str' and t.text.startswith('"') and t.text not in lits:
            lits.append(t.text)
    return lits


def escape_unit(kf):
    u = Unit('c17_escape_string', ['C17'], 'escape_string(s) is a GraphQL string body that decodes to s')
    u.kf = kf
    u.prelude('string_write')
    u.prelude('gql_string', tag='spec')
    src = u._read(F)
    from vx.rustlex import locate
    lits = strlit_reveals(locate(src, ['fn escape_string']).body)
    reveals = ' '.join(f'reveal_strlit({l});' for l in lits)
    units = ' '.join(f'assert({l}@.len() == 2);' for l in lits if l != '""')
    u.extract_fn(F, ['fn escape_string'],
                 rewrites=[Sub('for c in s.chars()', 'for c in it: s.chars()', rule='R-iter')],
                 ensures=['gql_string_decode(r@) == Some(s@)'],
                 loops={0: dict(prop=['gql_string_decode(res@) == Some(s@.take(it.index@ as int))'],
                                aux=['it.history@ =~= s@.take(it.index@ as int)', 'it.index@ <= s@.len()'],
                                head='''proof {
    assert(s@.take(it.index@ + 1).drop_last() =~= s@.take(it.index@ as int));
    assert(s@.take(it.index@ + 1).last() == c);
    assert(s@.take(it.index@ + 1) =~= s@.take(it.index@ as int).push(c));
    @REVEALS@
}
let ghost before = res@;''',
                                after='proof { assert(s@.take(s@.len() as int) =~= s@); }')},
                 inserts=[('after', 'res.write_str(ec).ok();', 'proof { assert(ec@.len() == 2); if gql_unit(ec@, c) { lemma_decode_append(before, ec@, c); } }'),
                          ('after', 'res.write_char(c).ok();', 'proof { assert(seq![c].len() == 1); assert(before.push(c) =~= before + seq![c]); if gql_unit(seq![c], c) { lemma_decode_append(before, seq![c], c); } }')],
                 )
    u.assume('String as fmt::Write appends and returns Ok (std, assumed)')
    u.search_case('fn escape_string', 'c17_escape')
    return u


UNITS = {'c17_escape_string': (['C17'], escape_unit)}
SEARCH = {'c17_escape_string': ['c17_escape']}
