"""C07 -- built-in scalars accept exactly their domain and round-trip."""
from vx.unit import Unit, Sub, MacroCall, ReSub, CallSub

V = 'value/src/lib.rs'
I = 'src/types/external/integers.rs'

SIGNED = ['i8', 'i16', 'i32', 'i64', 'isize']
UNSIGNED = ['u8', 'u16', 'u32', 'u64', 'usize']


def value_types(u):
    """ConstValue extracted from value/src/lib.rs; inside async-graphql `Value` is an alias of ConstValue."""
    u.prelude('value_shims')
    u.extract_type(V, ['enum ConstValue'],
                   rewrites=[Sub('IndexMap<Name, ConstValue>', 'IndexMapNV', rule='R-ty'),
                             Sub('ConstValue', 'Value', count='+', rule='R-alias')],
                   label=V + '::enum ConstValue (as crate::Value)')
    u.trusted('''
// indexmap::IndexMap<Name, ConstValue>: opaque here (no scalar kernel looks inside an object)
#[verifier::external_body]
#[verifier::accept_recursive_types(V)]
pub struct IndexMapOpaque<V> { _p: core::marker::PhantomData<V> }
pub type IndexMapNV = IndexMapOpaque<u8>;
global size_of usize == 8;
''', 'IndexMap shim / 64-bit target')
    u.assume('target is 64-bit (global size_of usize == 8)')
    u.assume('serde_json::Number modelled as integer in i64::MIN..=u64::MAX or float; as_i64/as_u64/is_i64/is_u64/From<i64>/From<u64> per its documentation (assumed contract on a dependency)')


SPEC = r'''
// the domain of a GraphQL integer scalar backed by a Rust integer type with range lo..=hi:
// a Number with an integer representation inside the range. Everything else is rejected.
pub open spec fn int_domain(v: Value, lo: int, hi: int) -> Option<int> {
    match v {
        Value::Number(n) => if n.is_int() && lo <= n.int_val() <= hi { Some(n.int_val()) } else { None },
        _ => None,
    }
}
'''

COMMON = [CallSub('InputValueError::from', 'InputValueError::from_msg()', rule='R-msg'),
          Sub('.ok_or_else(||', '.ok_or(', count='*', rule='R-closure')]


def integers_unit(kf):
    u = Unit('c07_integers', ['C07'], 'integer scalars: parse accepts exactly the type\'s range; to_value/parse round-trip')
    u.kf = kf
    value_types(u)
    u.prelude('int_specs')
    u.spec(SPEC, 'integer scalar domain')
    for T in SIGNED + UNSIGNED:
        lo, hi = f'{T}::MIN as int', f'{T}::MAX as int'
        sigrw = [ReSub(r'InputValueResult<Self>', f'InputValueResult<{T}>')]
        selfrw = [Sub('Self', T, count='*', rule='R-self')]
        u.extract_fn(I, [f'impl ScalarType for {T}', 'fn parse'], name=f'{T}_parse', label=f'{I}::impl ScalarType for {T}::fn parse',
                     sig_rewrites=sigrw, rewrites=selfrw + COMMON,
                     head_proof='proof { broadcast use axiom_number_range; }',
                     ensures=[f'match r {{ Ok(x) => int_domain(value, {lo}, {hi}) == Some(x as int), Err(_) => int_domain(value, {lo}, {hi}) is None }}'])
        u.extract_fn(I, [f'impl ScalarType for {T}', 'fn to_value'], name=f'{T}_to_value', label=f'{I}::impl ScalarType for {T}::fn to_value',
                     sig_rewrites=[ReSub(r'&self', f'this: &{T}')],
                     rewrites=[Sub('*self', '*this', count='+', rule='R-self'),
                               Sub('Number::from(', 'Number::from_i64(' if T in SIGNED else 'Number::from_u64(', rule='R-from')],
                     ensures=[f'int_domain(r, {lo}, {hi}) == Some(*this as int)'])
        kind = 'i64' if T in SIGNED else 'u64'
        u.extract_fn(I, [f'impl ScalarType for {T}', 'fn is_valid'], name=f'{T}_is_valid', label=f'{I}::impl ScalarType for {T}::fn is_valid',
                     ensures=[f'r == (value is Number && value->Number_0.spec_as_{kind}().is_some())'])
        u.spec(f'''
// round trip as a checked composition of the two contracts: parse(to_value(x)) == Ok(x) for every x
fn {T}_roundtrip(x: {T}) {{
    let v = {T}_to_value(&x);
    let r = {T}_parse(v);
    assert(r is Ok && r->Ok_0 == x);
}}''', f'{T} round-trip lemma')
    u.search_case('integers.rs', 'c07_int')
    return u


UNITS = {'c07_integers': (['C07'], integers_unit)}
SEARCH = {'c07_integers': ['c07_int']}


def simple_unit(kf):
    u = Unit('c07_simple_scalars', ['C07'], 'Boolean / String / ID / Char scalars accept exactly their domain and round-trip')
    u.kf = kf
    value_types(u)
    u.prelude('string_eq')
    for T, file, var, dom in [('bool', 'src/types/external/bool.rs', 'Boolean', 'bool'), ('String', 'src/types/external/string.rs', 'String', 'string')]:
        sigrw = [ReSub(r'InputValueResult<Self>', f'InputValueResult<{T}>')]
        u.extract_fn(file, [f'impl ScalarType for {T}', 'fn parse'], name=f'{T}_parse', label=f'{file}::impl ScalarType for {T}::fn parse',
                     sig_rewrites=sigrw, rewrites=COMMON,
                     ensures=[f'match r {{ Ok(x) => value == Value::{var}(x), Err(_) => !(value is {var}) }}'])
        u.extract_fn(file, [f'impl ScalarType for {T}', 'fn is_valid'], name=f'{T}_is_valid', label=f'{file}::impl ScalarType for {T}::fn is_valid',
                     ensures=[f'r == (value is {var})'])
        u.extract_fn(file, [f'impl ScalarType for {T}', 'fn to_value'], name=f'{T}_to_value', label=f'{file}::impl ScalarType for {T}::fn to_value',
                     sig_rewrites=[ReSub(r'&self', f'this: &{T}')],
                     rewrites=[Sub('*self', '*this', count='*', rule='R-self'), Sub('self.clone()', 'this.clone()', count='*', rule='R-self')],
                     ensures=[f'r is {var}', f'r->{var}_0 == *this' if T == 'bool' else f'r->{var}_0@ == this@'])
    # ID: a string, or an integer that fits i64 (printed in decimal)
    IDF = 'src/types/id.rs'
    u.extract_type(IDF, ['struct ID'])
    u.trusted('''
impl Number {
    pub uninterp spec fn spec_display(&self) -> Seq<char>;       // Display for serde_json::Number (assumed)
    #[verifier::external_body]
    pub fn to_string(&self) -> (r: String) ensures r@ == self.spec_display() { unimplemented!() }
}''', 'Number::to_string shim')
    u.extract_fn(IDF, ['impl ScalarType for ID', 'fn parse'], name='ID_parse', label=IDF + '::impl ScalarType for ID::fn parse',
                 sig_rewrites=[ReSub(r'InputValueResult<Self>', 'InputValueResult<ID>')], rewrites=COMMON,
                 ensures=['''match value {
            Value::String(s) => r is Ok && r->Ok_0.0@ == s@,                                                   // any string
            Value::Number(n) => if n.spec_as_i64().is_some() { r is Ok && r->Ok_0.0@ == n.spec_display() } else { r is Err },   // an integer that fits i64, nothing else numeric
            _ => r is Err,
        }'''])
    u.extract_fn(IDF, ['impl ScalarType for ID', 'fn is_valid'], name='ID_is_valid', label=IDF + '::impl ScalarType for ID::fn is_valid',
                 ensures=['r == (value is String || (value is Number && value->Number_0.spec_as_i64().is_some()))'])
    u.extract_fn(IDF, ['impl ScalarType for ID', 'fn to_value'], name='ID_to_value', label=IDF + '::impl ScalarType for ID::fn to_value',
                 sig_rewrites=[ReSub(r'&self', 'this: &ID')], rewrites=[Sub('self.0.clone()', 'this.0.clone()', rule='R-self')],
                 ensures=['r is String && r->String_0@ == this.0@'])
    u.spec('''
// round trip as a checked composition of the two contracts
fn ID_roundtrip(x: ID) {
    let v = ID_to_value(&x);
    let r = ID_parse(v);
    assert(r is Ok && r->Ok_0.0@ == x.0@);
}''', 'ID round-trip lemma')
    # Char: a string with exactly one Unicode scalar value
    CH = 'src/types/external/char.rs'
    u.trusted('''
// <char as Into<String>>::into: the one-character string (std, assumed)
#[verifier::external_body]
pub fn char_to_string(c: char) -> (r: String) ensures r@ == seq![c] { unimplemented!() }
impl InputValueError { pub fn custom_str() -> InputValueError { InputValueError { message: verif_msg() } } }''', 'char -> String shim')
    u.extract_fn(CH, ['impl ScalarType for char', 'fn parse'], name='char_parse', label=CH + '::impl ScalarType for char::fn parse',
                 sig_rewrites=[ReSub(r'InputValueResult<Self>', 'InputValueResult<char>')],
                 rewrites=COMMON + [CallSub('InputValueError::custom', 'InputValueError::custom_str()', rule='R-msg', count=2)],
                 ensures=['match r { Ok(c) => value is String && value->String_0@ == seq![c], Err(_) => !(value is String && value->String_0@.len() == 1) }   // exactly one scalar value, nothing else'])
    u.extract_fn(CH, ['impl ScalarType for char', 'fn to_value'], name='char_to_value', label=CH + '::impl ScalarType for char::fn to_value',
                 sig_rewrites=[ReSub(r'&self', 'this: &char')], rewrites=[Sub('(*self).into()', 'char_to_string(*this)', rule='R-from')],
                 ensures=['r is String && r->String_0@ == seq![*this]'])
    u.spec('''
fn char_roundtrip(x: char) {
    let v = char_to_value(&x);
    let ghost body = v->String_0@;
    let r = char_parse(v);
    assert(body.len() == 1 && body[0] == x);
    assert(r is Ok);
    assert(seq![r->Ok_0][0] == body[0]);
    assert(r->Ok_0 == x);
}''', 'char round-trip lemma')
    u.search_case('bool.rs', 'c07_simple')
    u.search_case('string.rs', 'c07_simple')
    u.search_case('id.rs', 'c07_simple')
    u.search_case('char.rs', 'c07_simple')
    return u


UNITS['c07_simple_scalars'] = (['C07'], simple_unit)
SEARCH['c07_simple_scalars'] = ['c07_simple']
BOUNDED = {'C07': [dict(case='c07_enum', function='src/resolver_utils/enum.rs::parse_enum / enum_value (and derive(Enum) items table)',
                        bound='2 derive-built enums (incl. case-colliding renamed items) x 40 candidate values (all items, case variants, prefixes, non-string kinds)',
                        why='iterator adapters with closures (.iter().find(|item| ..).map(..).ok_or_else(..)) are outside Verus; passing async_graphql::Value by value is intractable for CBMC (measured)'),
                   dict(case='c07_float', function='src/types/external/floats.rs::<f32|f64 as ScalarType>::{parse,to_value}',
                        bound='boundary floats (0, -0, subnormal, f32/f64 MIN/MAX, 2^24+1, 1e39, ...) x {f32, f64}; non-finite values are reported as a known finding, not searched',
                        why='Verus leaves f32/f64 casts uninterpreted; Kani cannot take async_graphql::Value by value (measured)')]}


# ----------------------------------------------------------------------------------------------------------------------
# enums: resolver_utils::parse_enum accepts exactly the names of the items table
from vx.unit import IterFind, ClosureMatch  # noqa: E402

E = 'src/resolver_utils/enum.rs'

ENUM_SHIMS = r'''
// EnumType::items(): the table generated by #[derive(Enum)] -- abstract here (any table)
pub trait EnumType: Sized + Copy + 'static {
    spec fn spec_items() -> Seq<EnumItem<Self>>;
    fn items() -> (r: &'static [EnumItem<Self>]) ensures r@ == Self::spec_items();
}
impl InputValueError { pub fn custom_fmt() -> InputValueError { InputValueError { message: verif_msg() } } }
'''

ENUM_SPEC = r'''
pub open spec fn item_index<T>(items: Seq<EnumItem<T>>, name: Seq<char>) -> Option<int> {
    if exists|i: int| 0 <= i < items.len() && items[i].name@ == name {
        Some(choose|i: int| 0 <= i < items.len() && items[i].name@ == name && forall|j: int| 0 <= j < i ==> items[j].name@ != name)
    } else { None }
}
// the text an enum input value carries: an enum literal, or a string (variables arrive as JSON strings)
pub open spec fn enum_text(v: Value) -> Option<Seq<char>> { match v { Value::Enum(s) => Some(s@), Value::String(s) => Some(s@), _ => None } }
'''


def enum_unit(kf):
    u = Unit('c07_parse_enum', ['C07'], 'parse_enum accepts exactly the values naming an item of the enum table and yields that item\'s value')
    u.kf = kf
    value_types(u)
    u.prelude('string_eq')
    u.prelude('iter_shims')
    u.extract_type(E, ['struct EnumItem'])
    u.trusted(ENUM_SHIMS, 'EnumType shim')
    u.spec(ENUM_SPEC, 'enum table spec')
    u.extract_fn(E, ['fn parse_enum'],
                 sig_rewrites=[ReSub(r'<T: EnumType \+ InputType>', '<T: EnumType>')],
                 rewrites=[Sub('Value::Enum(s) => s,', 'Value::Enum(s) => s.as_str(),', rule='R-ty'),
                           CallSub('InputValueError::expected_type', 'InputValueError::from_msg()', rule='R-msg', count=1),
                           CallSub('InputValueError::custom', 'InputValueError::custom_fmt()', rule='R-msg', count=1),
                           IterFind('slice_find', 'EnumItem<T>', 'p__.name@ == value@'),
                           ClosureMatch('opt.map'), ClosureMatch('opt.ok_or_else')],
                 ensures=['''match enum_text(value) {
            None => r is Err,                                                                  // not an enum literal / string: rejected
            Some(s) => match item_index(T::spec_items(), s) {
                None => r is Err,                                                              // names no item: rejected
                Some(i) => r is Ok && r->Ok_0 == T::spec_items()[i].value,                     // the (first) item of that name
            },
        }'''])
    u.assume('the items() table is abstract (derive(Enum) output): the contract holds for every table')
    u.search_case('enum.rs', 'c07_enum')
    return u


UNITS['c07_parse_enum'] = (['C07'], enum_unit)
SEARCH['c07_parse_enum'] = ['c07_enum']


# ----------------------------------------------------------------------------------------------------------------------
# NonZero integer scalars: the integer's range minus zero; the `NonZero::new(..).unwrap()` can never panic
NZ = 'src/types/external/non_zero_integers.rs'
NZT = {'i8': 'NonZeroI8', 'i16': 'NonZeroI16', 'i32': 'NonZeroI32', 'i64': 'NonZeroI64', 'isize': 'NonZeroIsize',
       'u8': 'NonZeroU8', 'u16': 'NonZeroU16', 'u32': 'NonZeroU32', 'u64': 'NonZeroU64', 'usize': 'NonZeroUsize'}


def nonzero_unit(kf):
    u = Unit('c07_nonzero_integers', ['C07'], 'NonZero integer scalars: parse accepts exactly the non-zero integers of the type; to_value/parse round-trip; no reachable unwrap failure')
    u.kf = kf
    value_types(u)
    u.prelude('int_specs')
    u.spec(SPEC, 'integer scalar domain')
    shim = ['// std::num::NonZero*: an integer that is not zero (type invariant); new() is Some exactly for non-zero arguments (std, assumed)']
    for T, N in NZT.items():
        shim.append(f'''pub struct {N} {{ v: {T} }}
impl {N} {{
    #[verifier::type_invariant] closed spec fn inv(&self) -> bool {{ self.v != 0 }}
    pub closed spec fn val(&self) -> {T} {{ self.v }}
    pub fn new(n: {T}) -> (r: Option<{N}>) ensures (n == 0 ==> r is None), (n != 0 ==> r is Some && r->Some_0.val() == n) {{ if n == 0 {{ None }} else {{ Some({N} {{ v: n }}) }} }}
    pub fn get(&self) -> (r: {T}) ensures r == self.val(), r != 0 {{ proof {{ use_type_invariant(self); }} self.v }}
}}''')
    u.trusted('\n'.join(shim), 'NonZero* shims')
    for T, N in NZT.items():
        lo, hi = f'{T}::MIN as int', f'{T}::MAX as int'
        u.extract_fn(NZ, [f'impl ScalarType for {N}', 'fn parse'], name=f'{N}_parse', label=f'{NZ}::impl ScalarType for {N}::fn parse',
                     sig_rewrites=[ReSub(r'InputValueResult<Self>', f'InputValueResult<{N}>')],
                     rewrites=[Sub('Self', N, count='*', rule='R-self'), MacroCall('format', 'verif_msg()')] + COMMON,
                     head_proof='proof { broadcast use axiom_number_range; }',
                     ensures=[f'''match r {{ Ok(x) => int_domain(value, {lo}, {hi}) == Some(x.val() as int) && x.val() != 0,
            Err(_) => int_domain(value, {lo}, {hi}) is None || int_domain(value, {lo}, {hi}) == Some(0int) }}   // the type's range without zero, nothing else'''])
        u.extract_fn(NZ, [f'impl ScalarType for {N}', 'fn to_value'], name=f'{N}_to_value', label=f'{NZ}::impl ScalarType for {N}::fn to_value',
                     sig_rewrites=[ReSub(r'&self', f'this: &{N}')],
                     rewrites=[Sub('self.get()', 'this.get()', count='+', rule='R-self'),
                               Sub('Number::from(', 'Number::from_i64(' if T in SIGNED else 'Number::from_u64(', rule='R-from')],
                     ensures=[f'int_domain(r, {lo}, {hi}) == Some(this.val() as int)'])
        u.spec(f'''
fn {N}_roundtrip(x: {N}) {{
    proof {{ use_type_invariant(&x); }}
    let v = {N}_to_value(&x);
    let r = {N}_parse(v);
    assert(r is Ok && r->Ok_0.val() == x.val());
}}''', f'{N} round-trip lemma')
    u.assume('std::num::NonZero* represented by an integer with the non-zero type invariant (R-ty); `new` is Some exactly for non-zero arguments (std, assumed)')
    u.search_case('non_zero_integers.rs', 'c07_int')
    return u


UNITS['c07_nonzero_integers'] = (['C07'], nonzero_unit)
SEARCH['c07_nonzero_integers'] = ['c07_int']
