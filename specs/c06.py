"""C06 -- resolvers receive spec-coerced arguments: nullable wrappers' parse kernels (Option<T>, MaybeUndefined<T>)."""
from vx.unit import Unit, Sub, ReSub, CallSub
from specs.common import value_types

O = 'src/types/external/optional.rs'
M = 'src/types/maybe_undefined.rs'

SHIMS = r'''
pub fn value_or_default(v: Option<Value>) -> (r: Value) ensures r == (match v { Some(x) => x, None => Value::Null }) { match v { Some(x) => x, None => Value::Null } }
// the wrapped type's own parse: abstract (uninterpreted result), called only with Some(non-null value)
pub trait InputType: Sized {
    spec fn spec_parse(v: Option<Value>) -> Option<Self>;       // None = parse error
    fn parse(v: Option<Value>) -> (r: InputValueResult<Self>) ensures match r { Ok(x) => Self::spec_parse(v) == Some(x), Err(_) => Self::spec_parse(v) is None };
}
pub fn propagate(e: InputValueError) -> (r: InputValueError) { e }
'''


def wrappers_unit(kf):
    u = Unit('c06_nullable_wrappers', ['C06'], 'Option<T> / MaybeUndefined<T> distinguish omitted, null and value exactly as CoerceArgumentValues prescribes')
    u.kf = kf
    value_types(u, const_alias='Value')
    u.trusted(SHIMS, 'InputType shim')
    u.extract_type(M, ['enum MaybeUndefined'])
    common = [Sub('.map_err(InputValueError::propagate)', '', count=1, rule='R-msg'), Sub('T::parse(Some(value))?', 'T::parse(Some(value))?', count='*')]
    u.extract_fn(O, ['impl<T: InputType> InputType for Option<T>', 'fn parse'], name='option_parse', label=O + '::impl InputType for Option<T>::fn parse',
                 sig_rewrites=[ReSub(r'fn parse\(', 'fn parse<T: InputType>('), ReSub(r'InputValueResult<Self>', 'InputValueResult<Option<T>>')],
                 rewrites=[Sub('value.unwrap_or_default()', 'value_or_default(value)', rule='R-ty'), Sub('.map_err(InputValueError::propagate)', '', count=1, rule='R-msg')],
                 ensures=['(value is None || value == Some(Value::Null)) ==> r == Ok::<Option<T>, InputValueError>(None)   // omitted and null both coerce to None',
                          '!(value is None || value == Some(Value::Null)) ==> (match r { Ok(x) => x is Some && T::spec_parse(value) == Some(x->Some_0), Err(_) => T::spec_parse(value) is None })'])
    u.extract_fn(M, ['impl<T: InputType> InputType for MaybeUndefined<T>', 'fn parse'], name='maybe_undefined_parse', label=M + '::impl InputType for MaybeUndefined<T>::fn parse',
                 sig_rewrites=[ReSub(r'fn parse\(', 'fn parse<T: InputType>('), ReSub(r'InputValueResult<Self>', 'InputValueResult<MaybeUndefined<T>>')],
                 rewrites=[Sub('.map_err(InputValueError::propagate)', '', count=1, rule='R-msg')],
                 ensures=['value is None ==> r is Ok && r->Ok_0 is Undefined',
                          'value == Some(Value::Null) ==> r is Ok && r->Ok_0 is Null',
                          '!(value is None || value == Some(Value::Null)) ==> (match r { Ok(x) => x is Value && T::spec_parse(value) == Some(x->Value_0), Err(_) => T::spec_parse(value) is None })'])
    u.assume('the wrapped type\'s parse is abstract; InputValueError::propagate only re-labels the error (R-msg)')
    u.search_case('optional.rs', 'c06_args')
    u.search_case('maybe_undefined.rs', 'c06_args')
    return u


UNITS = {'c06_nullable_wrappers': (['C06'], wrappers_unit)}
SEARCH = {'c06_nullable_wrappers': ['c06_args']}
BOUNDED = {'C06': [dict(case='c06_args', function='src/context.rs::{var_value, resolve_input_value_inner, get_param_value}, derive-generated argument extraction, src/dynamic/resolve.rs::collect_field argument block (through Schema::execute on a static and a dynamic schema)',
                        bound='~70 (query, variables) pairs: literal / variable / omitted / null arguments x variable defaults x argument defaults x nullable, non-null, MaybeUndefined, list and input-object targets; the value each resolver received is compared with the spec\'s CoerceArgumentValues',
                        why='closure-based iterator chains (.iter().find(..).ok_or_else(..), .or_else(..)), IndexMap-by-value loops and derive-generated code are outside Verus; only the nullable wrappers\' parse is under contract')]}


# ----------------------------------------------------------------------------------------------------------------------
# context.rs: var_value / resolve_input_value_inner / resolve_input_value / get_param_value against CoerceArgumentValues
from vx.unit import ClosureMatch, IterFind, PostfixCall, MacroCall, LetChain  # noqa: E402
from specs.common import value_types_ctx, ast_types, CTX_ALIAS                 # noqa: E402

C = 'src/context.rs'

CTX_SHIMS = r'''
// field-subset shims (conformance-checked): ServerError, QueryEnv (= Arc<QueryEnvInner> through Deref, R-ty), ContextBase
pub struct ServerError { pub message: String, pub locations: Vec<Pos> }
pub type ServerResult<T> = Result<T, ServerError>;
impl ServerError {
    #[verifier::external_body]
    pub fn new(message: String, pos: Option<Pos>) -> (r: ServerError) { unimplemented!() }
}
pub type Variables = NameMap<Value>;          // async_graphql_value::Variables(BTreeMap<Name, ConstValue>), Deref to the map
pub struct QueryEnv { pub operation: Positioned<OperationDefinition>, pub variables: Variables }
pub struct ContextBase<'a> { pub query_env: &'a QueryEnv }
// derived Clone impls: structural copies
impl Clone for Value {
    #[verifier::external_body]
    fn clone(&self) -> (r: Self) ensures r == *self { unimplemented!() }
}
impl Clone for Positioned<InputValue> {
    #[verifier::external_body]
    fn clone(&self) -> (r: Self) ensures r == *self { unimplemented!() }
}
// fn() -> Q: the argument default generated by the derive macros; opaque, deterministic (R-ty)
#[verifier::external_body]
#[verifier::reject_recursive_types(Q)]
pub struct DefaultFn<Q> { _p: core::marker::PhantomData<Q> }
impl<Q> DefaultFn<Q> {
    pub uninterp spec fn spec_value(&self) -> Q;
    #[verifier::external_body]
    pub fn call(&self) -> (r: Q) ensures r == self.spec_value() { unimplemented!() }
}
// the target type's own input coercion: abstract
pub trait InputType: Sized {
    spec fn spec_parse(v: Option<Value>) -> Option<Self>;       // None = coercion error
    fn parse(v: Option<Value>) -> (r: InputValueResult<Self>) ensures match r { Ok(x) => Self::spec_parse(v) == Some(x), Err(_) => Self::spec_parse(v) is None };
}
impl InputValueError {
    #[verifier::external_body]
    pub fn into_server_error(self, pos: Pos) -> (r: ServerError) { unimplemented!() }
}
pub fn pos_default() -> (r: Pos) ensures r.line == 0 && r.column == 0 { Pos { line: 0, column: 0 } }
'''

CTX_SPEC = r'''
// ================= the spec's CoerceArgumentValues / variable lookup, stated independently of the code
pub type Defs = Seq<Positioned<VariableDefinition>>;
pub type Vars = Map<Seq<char>, Value>;
pub open spec fn def_index(defs: Defs, name: Seq<char>) -> Option<int> {
    if exists|i: int| 0 <= i < defs.len() && defs[i].node.name.node@ == name {
        Some(choose|i: int| 0 <= i < defs.len() && defs[i].node.name.node@ == name && forall|j: int| 0 <= j < i ==> defs[j].node.name.node@ != name)
    } else { None }
}
// value of variable `name` as an argument sees it: Err = not defined by the operation; Ok(None) = omitted (not provided, no default)
pub open spec fn var_lookup(defs: Defs, vars: Vars, name: Seq<char>) -> Result<Option<Value>, ()> {
    match def_index(defs, name) {
        None => Err(()),
        Some(i) => Ok(if vars.contains_key(name) { Some(vars[name]) } else { match defs[i].node.default_value { Some(d) => Some(d.node), None => None } }),
    }
}
pub open spec fn env_defs(c: &ContextBase) -> Defs { c.query_env.operation.node.variable_definitions@ }
pub open spec fn env_vars(c: &ContextBase) -> Vars { c.query_env.variables.view() }
// resolving `v` fails: some variable used in it is not defined
pub open spec fn resolve_fails(v: InputValue, defs: Defs, vars: Vars) -> bool decreases v {
    match v {
        InputValue::Variable(name) => var_lookup(defs, vars, name@) is Err,
        InputValue::List(items) => exists|i: int| 0 <= i < items@.len() && resolve_fails(#[trigger] items@[i], defs, vars),
        InputValue::Object(object) => exists|i: int| 0 <= i < object.ents().len() && resolve_fails((#[trigger] object.ents()[i]).1, defs, vars),
        _ => false,
    }
}
// `v` denotes "omitted": a variable that was not provided and has no default
pub open spec fn omitted(v: InputValue, defs: Defs, vars: Vars) -> bool {
    v is Variable && var_lookup(defs, vars, v->Variable_0@) == Ok::<Option<Value>, ()>(None)
}
// `r` is the value `v` denotes (given that resolving does not fail and v is not omitted): variables replaced by their values,
// an omitted list slot is null, an omitted object field is left out, everything else is kept as written, in order
pub open spec fn resolves_to(v: InputValue, defs: Defs, vars: Vars, r: Value) -> bool decreases v, 0nat {
    match v {
        InputValue::Variable(name) => var_lookup(defs, vars, name@) == Ok::<Option<Value>, ()>(Some(r)),
        InputValue::Null => r is Null,
        InputValue::Number(n) => r == Value::Number(n),
        InputValue::String(s) => r == Value::String(s),
        InputValue::Boolean(b) => r == Value::Boolean(b),
        InputValue::Binary(b) => r == Value::Binary(b),
        InputValue::Enum(e) => r == Value::Enum(e),
        InputValue::List(items) => r is List && r->List_0@.len() == items@.len() && forall|i: int| 0 <= i < items@.len() ==>
            (if omitted(items@[i], defs, vars) { (#[trigger] r->List_0@[i]) is Null } else { resolves_to(items@[i], defs, vars, r->List_0@[i]) }),
        InputValue::Object(object) => r is Object && obj_resolves(object.ents(), object.ents().len(), defs, vars, r->Object_0.ents()),
    }
}
pub open spec fn obj_resolves(es: Seq<(Name, InputValue)>, n: nat, defs: Defs, vars: Vars, out: Seq<(Name, Value)>) -> bool decreases es, n {
    if n == 0 || n > es.len() { out.len() == 0 } else {
        if omitted(es[n - 1].1, defs, vars) { obj_resolves(es, (n - 1) as nat, defs, vars, out) }
        else { out.len() > 0 && out.last().0@ == es[n - 1].0@ && resolves_to(es[n - 1].1, defs, vars, out.last().1) && obj_resolves(es, (n - 1) as nat, defs, vars, out.drop_last()) }
    }
}
pub open spec fn keys_subset(out: Seq<(Name, Value)>, es: Seq<(Name, InputValue)>, n: int) -> bool {
    forall|i: int| 0 <= i < out.len() ==> exists|j: int| 0 <= j < n && es[j].0@ == (#[trigger] out[i]).0@
}
pub type Args = Seq<(Positioned<Name>, Positioned<InputValue>)>;
pub open spec fn arg_index(args: Args, name: Seq<char>) -> Option<int> {
    if exists|i: int| 0 <= i < args.len() && args[i].0.node@ == name {
        Some(choose|i: int| 0 <= i < args.len() && args[i].0.node@ == name && forall|j: int| 0 <= j < i ==> args[j].0.node@ != name)
    } else { None }
}
pub open spec fn arg_value(args: Args, name: Seq<char>) -> InputValue { args[arg_index(args, name)->Some_0].1.node }
pub open spec fn arg_fails(args: Args, name: Seq<char>, defs: Defs, vars: Vars) -> bool { arg_index(args, name) is Some && resolve_fails(arg_value(args, name), defs, vars) }
// the argument is "not provided": absent from the field, or bound to an omitted variable
pub open spec fn arg_absent(args: Args, name: Seq<char>, defs: Defs, vars: Vars) -> bool { arg_index(args, name) is None || omitted(arg_value(args, name), defs, vars) }
'''

RESOLVE_ENS = lambda v: [
    f'resolve_fails({v}, env_defs(self), env_vars(self)) <==> r is Err   // an undefined variable anywhere inside fails the request, nothing else does',
    f'r is Ok ==> (omitted({v}, env_defs(self), env_vars(self)) <==> r->Ok_0 is None)   // omission is preserved, never turned into null (and vice versa)',
    f'r is Ok && r->Ok_0 is Some ==> resolves_to({v}, env_defs(self), env_vars(self), r->Ok_0->Some_0)']


def context_unit(kf):
    u = Unit('c06_context_args', ['C06'], 'ContextBase::{var_value, resolve_input_value_inner, resolve_input_value, get_param_value} compute CoerceArgumentValues')
    u.kf = kf
    value_types_ctx(u)
    ast_types(u, alias=CTX_ALIAS)
    u.prelude('string_eq')
    u.prelude('iter_shims')
    u.trusted(CTX_SHIMS, 'context / error / InputType shims')
    u.shim_conformance(C, ['struct ContextBase'], [('query_env', "&'a QueryEnv")])
    u.shim_conformance(C, ['struct QueryEnvInner'], [('operation', 'Positioned<OperationDefinition>'), ('variables', 'Variables')])
    u.shim_conformance('src/error.rs', ['struct ServerError'], [('message', 'String'), ('locations', 'Vec<Pos>')])
    u.spec(CTX_SPEC, 'CoerceArgumentValues spec')
    W = "<'a> ContextBase<'a>"
    IMPL = "impl<'a, T> ContextBase<'a, T>"
    u.extract_fn(C, [IMPL, 'fn var_value'], wrap_impl=W,
                 rewrites=[MacroCall('format', 'verif_msg()', count=1),
                           Sub('def.node.name.node == name', 'def.node.name.node.as_str() == name', rule='R-ty'),
                           IterFind('vec_find', 'Positioned<VariableDefinition>', 'p__.node.name.node@ == name@', ref='&'),
                           ClosureMatch('opt.ok_or_else', count='*'), ClosureMatch('opt.map', count='*'), ClosureMatch('opt.or_else', count='*'),
                           PostfixCall('cloned', 'opt_cloned', count='*'), LetChain(count='*')],
                 ensures=['match var_lookup(env_defs(self), env_vars(self), name@) { Err(_) => r is Err, Ok(v) => r == Ok::<Option<Value>, ServerError>(v) }'])
    inv_list = ['whole is List, all == whole->List_0@',
                'it.history@ + it.iter.remaining() == all',
                'resolved_items@.len() == it.history@.len()',
                'forall|i: int| 0 <= i < it.history@.len() ==> !resolve_fails(#[trigger] all[i], env_defs(self), env_vars(self))']
    prop_list = ['forall|i: int| 0 <= i < resolved_items@.len() ==> (if omitted(all[i], env_defs(self), env_vars(self)) { (#[trigger] resolved_items@[i]) is Null } else { resolves_to(all[i], env_defs(self), env_vars(self), resolved_items@[i]) })']
    inv_obj = ['whole is Object, all == whole->Object_0.ents(), keys_distinct(all)',
               'it.history@ + it.iter.remaining() == all',
               'forall|i: int| 0 <= i < it.history@.len() ==> !resolve_fails((#[trigger] all[i]).1, env_defs(self), env_vars(self))',
               'keys_subset(resolved_object.ents(), all, it.history@.len() as int)']
    prop_obj = ['obj_resolves(all, it.history@.len(), env_defs(self), env_vars(self), resolved_object.ents())']
    u.extract_fn(C, [IMPL, 'fn resolve_input_value_inner'], wrap_impl=W,
                 rewrites=[Sub('for item in items {', 'for item in it: items {', rule='R-iter'),
                           Sub('for (name, value) in object {', 'for (name, value) in it: object.entries {', rule='R-iter'),
                           Sub('IndexMap::with_capacity', 'IndexMapE::with_capacity', rule='R-ty')],
                 ensures=RESOLVE_ENS('value'), decreases='value',
                 head_proof='let ghost whole = value;',
                 loops={0: dict(prop=prop_list, aux=inv_list,
                                head='proof { assert(item == all[it.history@.len() as int]); }'),
                        1: dict(prop=prop_obj, aux=inv_obj,
                                head='''proof {
    assert((name, value) == all[it.history@.len() as int]);
    assert(decreases_to!(whole => whole->Object_0.entries@[it.history@.len() as int].1));
    assert(resolve_fails(value, env_defs(self), env_vars(self)) ==> resolve_fails(whole->Object_0.ents()[it.history@.len() as int].1, env_defs(self), env_vars(self)));
}
let ghost before = resolved_object.ents();''')},
                 inserts=[('before', 'for item in it: items', 'let ghost all = items@;'),
                          ('before', 'for (name, value) in it: object.entries', 'let ghost all = object.ents();\nproof { use_type_invariant(&object); }'),
                          ('after', 'resolved_object.insert(name, value);', '''proof {
    assert(!has_key(before, name@));
    assert(resolved_object.ents() == before.push((name, value)));
    assert(resolved_object.ents().drop_last() =~= before);
}''')],
                 attrs=['#[verifier::loop_isolation(false)]'])
    u.extract_fn(C, [IMPL, 'fn resolve_input_value'], wrap_impl=W,
                 sig_rewrites=[ReSub(r'pub\(crate\) fn', 'fn')],
                 ensures=RESOLVE_ENS('value.node'))
    A = 'arguments@, name@, env_defs(self), env_vars(self)'
    u.extract_fn(C, [IMPL, 'fn get_param_value'], wrap_impl=W,
                 sig_rewrites=[ReSub(r'Option<fn\(\) -> Q>', 'Option<DefaultFn<Q>>')],
                 rewrites=[IterFind('slice_find', '(Positioned<Name>, Positioned<InputValue>)', 'p__.0.node@ == name@'),
                           ClosureMatch('opt.map', nth=0), PostfixCall('cloned', 'opt_cloned'),
                           ClosureMatch('res.map'), ClosureMatch('res.map_err'),
                           Sub('Pos::default()', 'pos_default()', rule='R-ty'),
                           LetChain(count=1),
                           Sub('default()', 'default.call()', rule='R-ty'),
                           Sub('InputType::parse(value)', 'Q::parse(value)', rule='R-self')],
                 ensures=[f'arg_fails({A}) ==> r is Err   // an undefined variable inside the argument: request error, the resolver is not reached',
                          f'!arg_fails({A}) && arg_absent({A}) && default is Some ==> r is Ok && r->Ok_0.1 == default->Some_0.spec_value()   // not provided (absent, or bound to an omitted variable) and the argument has a default: the resolver receives the default',
                          f'!arg_fails({A}) && arg_absent({A}) && default is None ==> (match r {{ Ok(x) => Q::spec_parse(None) == Some(x.1), Err(_) => Q::spec_parse(None) is None }})   // not provided, no default: the target type coerces "omitted"',
                          f'!arg_fails({A}) && !arg_absent({A}) ==> exists|v: Value| resolves_to(arg_value(arguments@, name@), env_defs(self), env_vars(self), v) && (match r {{ Ok(x) => Q::spec_parse(Some(v)) == Some(x.1), Err(_) => Q::spec_parse(Some(v)) is None }})   // provided: the resolver receives the coercion of exactly the resolved value, or the request fails'])
    u.assume('QueryEnv is Arc<QueryEnvInner> behind Deref: represented by the two fields the kernels read (conformance-checked)')
    u.assume('derived Clone of Value / Positioned<InputValue> is a structural copy (assumed); fn() -> Q argument defaults are deterministic (DefaultFn shim)')
    u.assume('the target type\'s InputType::parse is abstract (spec_parse); its own coercion rules are C07 / C06 wrapper kernels / derive output (not covered)')
    u.assume('Iterator::find on slice/Vec iterators returns the first match (vec_find / slice_find shims, assumed contract on std)')
    u.search_case('context.rs', 'c06_args')
    return u


UNITS['c06_context_args'] = (['C06'], context_unit)
SEARCH['c06_context_args'] = ['c06_args']


# ----------------------------------------------------------------------------------------------------------------------
# C22: SelectionField::arguments reports every provided argument with its RESOLVED value (same coercion as execution)
ARGS_SPEC = r'''
pub struct SelectionField<'a> { pub field: &'a Field, pub context: &'a ContextBase<'a> }
// the first n arguments resolve to `out`: arguments bound to an omitted variable are left out, the others keep name and order
pub open spec fn args_resolve(args: Args, n: nat, defs: Defs, vars: Vars, out: Seq<(Name, Value)>) -> bool decreases n {
    if n == 0 || n > args.len() { out.len() == 0 } else {
        if omitted(args[n - 1].1.node, defs, vars) { args_resolve(args, (n - 1) as nat, defs, vars, out) }
        else { out.len() > 0 && out.last().0@ == args[n - 1].0.node@ && resolves_to(args[n - 1].1.node, defs, vars, out.last().1) && args_resolve(args, (n - 1) as nat, defs, vars, out.drop_last()) }
    }
}
'''


def selection_arguments_unit(kf):
    u = Unit('c22_selection_arguments', ['C22'], 'SelectionField::arguments lists every provided argument with the value execution resolves for it (variables, defaults, omission)')
    u.kf = kf
    value_types_ctx(u)
    ast_types(u, alias=CTX_ALIAS)
    u.prelude('string_eq')
    u.prelude('iter_shims')
    u.trusted(CTX_SHIMS, 'context / error / InputType shims')
    u.shim_conformance(C, ['struct ContextBase'], [('query_env', "&'a QueryEnv")])
    u.shim_conformance(C, ['struct QueryEnvInner'], [('operation', 'Positioned<OperationDefinition>'), ('variables', 'Variables')])
    u.shim_conformance(C, ['struct SelectionField'], [('field', "&'a Field"), ('context', "&'a Context<'a>")])
    u.spec(CTX_SPEC, 'CoerceArgumentValues spec')
    u.spec(ARGS_SPEC, 'argument list spec')
    u.trusted('''
// ContextBase::resolve_input_value: proved in unit c06_context_args; here only its contract is used (modular)
impl<'a> ContextBase<'a> {
    #[verifier::external_body]
    fn resolve_input_value(&self, value: Positioned<InputValue>) -> (r: ServerResult<Option<Value>>)
        ensures
            resolve_fails(value.node, env_defs(self), env_vars(self)) <==> r is Err,
            r is Ok ==> (omitted(value.node, env_defs(self), env_vars(self)) <==> r->Ok_0 is None),
            r is Ok && r->Ok_0 is Some ==> resolves_to(value.node, env_defs(self), env_vars(self), r->Ok_0->Some_0),
    { unimplemented!() }
}''', 'resolve_input_value contract (proved in c06_context_args)')
    D, V_ = 'env_defs(self.context)', 'env_vars(self.context)'
    u.extract_fn(C, ["impl<'a> SelectionField<'a>", 'fn arguments'], wrap_impl="<'a> SelectionField<'a>",
                 rewrites=[Sub('for (name, value) in &self.field.arguments {', 'for (name, value) in it: &self.field.arguments {', rule='R-iter')],
                 ensures=[f'r is Err <==> exists|i: int| 0 <= i < self.field.arguments@.len() && resolve_fails((#[trigger] self.field.arguments@[i]).1.node, {D}, {V_})',
                          f'r is Ok ==> args_resolve(self.field.arguments@, self.field.arguments@.len(), {D}, {V_}, r->Ok_0@)   // exactly the provided arguments, in order, each with its resolved value'],
                 loops={0: dict(prop=[f'args_resolve(self.field.arguments@, it.index@ as nat, {D}, {V_}, arguments@)'],
                                aux=[f'forall|i: int| 0 <= i < it.index@ ==> !resolve_fails((#[trigger] self.field.arguments@[i]).1.node, {D}, {V_})'],
                                head='''proof { assert((*name, *value) == self.field.arguments@[it.index@ as int]); }
let ghost before = arguments@;''')},
                 inserts=[('after', 'arguments.push((name.node.clone(), value));', 'proof { assert(arguments@.drop_last() =~= before); }')],
                 attrs=['#[verifier::loop_isolation(false)]'])
    u.assume('SelectionField is represented by the two fields arguments() reads (conformance-checked); resolve_input_value is used through its contract (proved in c06_context_args)')
    u.search_case('context.rs', 'c22_lookahead')
    return u


UNITS['c22_selection_arguments'] = (['C22'], selection_arguments_unit)
SEARCH['c22_selection_arguments'] = ['c22_lookahead']
