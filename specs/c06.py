"""C06 -- resolvers receive spec-coerced arguments: nullable wrappers' parse kernels (Option<T>, MaybeUndefined<T>)."""
from vx.unit import Unit, Sub, ReSub, CallSub
from specs.common import value_types

O = 'src/types/external/optional.rs'
M = 'src/types/maybe_undefined.rs'

SHIMS = r'''
pub fn value_or_default(v: Option<Value>) -> (r: Value) ensures r == (match v { Some(x) => x, None => Value::Null }) { match v { Some(x) => x, None => Value::Null } }
// the wrapped type's own parse: abstract (uninterpreted result), called only with Some(non-null value)
pub trait InputType: Sized {
    spec fn spec_parse(v: Option<Value>) -> Option<Self>;       // None = parse error
    fn parse(v: Option<Value>) -> (r: InputValueResult<Self>) ensures match r { Ok(x) => Self::spec_parse(v) == Some(x), Err(_) => Self::spec_parse(v) is None };
}
pub fn propagate(e: InputValueError) -> (r: InputValueError) { e }
'''


def wrappers_unit(kf):
    u = Unit('c06_nullable_wrappers', ['C06'], 'Option<T> / MaybeUndefined<T> distinguish omitted, null and value exactly as CoerceArgumentValues prescribes')
    u.kf = kf
    value_types(u, const_alias='Value')
    u.trusted(SHIMS, 'InputType shim')
    u.extract_type(M, ['enum MaybeUndefined'])
    common = [Sub('.map_err(InputValueError::propagate)', '', count=1, rule='R-msg'), Sub('T::parse(Some(value))?', 'T::parse(Some(value))?', count='*')]
    u.extract_fn(O, ['impl<T: InputType> InputType for Option<T>', 'fn parse'], name='option_parse', label=O + '::impl InputType for Option<T>::fn parse',
                 sig_rewrites=[ReSub(r'fn parse\(', 'fn parse<T: InputType>('), ReSub(r'InputValueResult<Self>', 'InputValueResult<Option<T>>')],
                 rewrites=[Sub('value.unwrap_or_default()', 'value_or_default(value)', rule='R-ty'), Sub('.map_err(InputValueError::propagate)', '', count=1, rule='R-msg')],
                 ensures=['(value is None || value == Some(Value::Null)) ==> r == Ok::<Option<T>, InputValueError>(None)   // omitted and null both coerce to None',
                          '!(value is None || value == Some(Value::Null)) ==> (match r { Ok(x) => x is Some && T::spec_parse(value) == Some(x->Some_0), Err(_) => T::spec_parse(value) is None })'])
    u.extract_fn(M, ['impl<T: InputType> InputType for MaybeUndefined<T>', 'fn parse'], name='maybe_undefined_parse', label=M + '::impl InputType for MaybeUndefined<T>::fn parse',
                 sig_rewrites=[ReSub(r'fn parse\(', 'fn parse<T: InputType>('), ReSub(r'InputValueResult<Self>', 'InputValueResult<MaybeUndefined<T>>')],
                 rewrites=[Sub('.map_err(InputValueError::propagate)', '', count=1, rule='R-msg')],
                 ensures=['value is None ==> r is Ok && r->Ok_0 is Undefined',
                          'value == Some(Value::Null) ==> r is Ok && r->Ok_0 is Null',
                          '!(value is None || value == Some(Value::Null)) ==> (match r { Ok(x) => x is Value && T::spec_parse(value) == Some(x->Value_0), Err(_) => T::spec_parse(value) is None })'])
    u.assume('the wrapped type\'s parse is abstract; InputValueError::propagate only re-labels the error (R-msg)')
    u.search_case('optional.rs', 'c06_args')
    u.search_case('maybe_undefined.rs', 'c06_args')
    return u


UNITS = {'c06_nullable_wrappers': (['C06'], wrappers_unit)}
SEARCH = {'c06_nullable_wrappers': ['c06_args']}
BOUNDED = {'C06': [dict(case='c06_args', function='src/context.rs::{var_value, resolve_input_value_inner, get_param_value}, derive-generated argument extraction, src/dynamic/resolve.rs::collect_field argument block (through Schema::execute on a static and a dynamic schema)',
                        bound='~70 (query, variables) pairs: literal / variable / omitted / null arguments x variable defaults x argument defaults x nullable, non-null, MaybeUndefined, list and input-object targets; the value each resolver received is compared with the spec\'s CoerceArgumentValues',
                        why='closure-based iterator chains (.iter().find(..).ok_or_else(..), .or_else(..)), IndexMap-by-value loops and derive-generated code are outside Verus; only the nullable wrappers\' parse is under contract')]}
