"""C13 -- the parser accepts exactly GraphQL and builds the denoted tree: BOUNDED ONLY (no deductive unit).

The grammar is a .pest file compiled by a proc-macro into generated.rs, and the literal decoders of parse/utils.rs are
iterator/closure pipelines (`from_fn`, `flat_map`, `rposition` ..): neither Verus nor Kani ingests them (DESIGN §6 C13). What stands in
is an exhaustive enumeration of short literals against independent reference recognisers / decoders, through parse_query."""

UNITS = {}
SEARCH = {}
BOUNDED = {'C13': [dict(case='c13_lex', function='parser/src/parse/utils.rs::{string_value, block_string_value}, parse_number and the pest rules string / block_string / number (through parse_query / parse_schema)',
                        bound='EXHAUSTIVE: every string body of <= 5 symbols over {a \\ n u 0 D 8 / e-acute} (66 430 bodies), every \\uXXXX escape in both hex cases (121 072), '
                              'every block-string body of <= 6 symbols over {space tab LF CR a " \\} that the harness can delimit (97 381), every number-like word of <= 5 symbols over {0 1 9 - . e +} (19 5xx), '
                              'plus a 40-row accept/reject table of executable and type-system documents',
                        why='pest-generated parser and iterator pipelines: outside Verus (no iterator adapters / closures without contracts) and Kani (unbounded String/char iterators, pest state machine)')]}
