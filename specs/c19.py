"""C19 -- introspection modes gate schema metadata and user resolvers: the gating control flow of QueryRoot::resolve_field."""
from vx.unit import Unit, Sub, ReSub, AwaitErase, ReplaceRange, MacroCall

F = 'src/types/query_root.rs'

SHIMS = r'''
// trusted shims (R-await, R-payload): every branch payload is abstracted to ONE trace event; the context carries the modes
pub struct Name { pub node: String }
pub struct FieldNode { pub name: Name }
pub struct Item { pub node: FieldNode }
pub struct Registry { pub introspection_mode: IntrospectionMode, pub enable_federation: bool, pub entities: bool }
impl Registry { pub fn has_entities(&self) -> (r: bool) ensures r == self.entities { self.entities } }
pub struct SchemaEnv { pub registry: Registry }
pub struct QueryEnv { pub introspection_mode: IntrospectionMode }
pub enum Act { Schema, Type, Entities, Service, Inner }
pub struct Context { pub schema_env: SchemaEnv, pub query_env: QueryEnv, pub item: Item }
pub struct Value { pub id: u64 }
pub struct ServerError { pub k: u8 }
pub type ServerResult<T> = Result<T, ServerError>;
pub uninterp spec fn act_result(a: Act) -> ServerResult<Option<Value>>;
impl Context {
    // one trace event: which payload ran (its own result is opaque)
    #[verifier::external_body]
    pub fn act(&self, a: Act) -> (r: ServerResult<Option<Value>>) ensures r == act_result(a) { unimplemented!() }
}
pub struct QueryRoot { pub inner: u8 }
'''

SPEC = r'''
pub open spec fn fname(ctx: Context) -> Seq<char> { ctx.item.node.name.node@ }
pub open spec fn disabled(ctx: Context) -> bool { ctx.schema_env.registry.introspection_mode is Disabled || ctx.query_env.introspection_mode is Disabled }
pub open spec fn only(ctx: Context) -> bool { ctx.schema_env.registry.introspection_mode is IntrospectionOnly || ctx.query_env.introspection_mode is IntrospectionOnly }
'''


def gate_unit(kf):
    u = Unit('c19_query_root_gating', ['C19'], 'which payload of QueryRoot::resolve_field can run under each combination of introspection modes')
    u.kf = kf
    u.prelude('string_eq')
    u.extract_type('src/schema.rs', ['enum IntrospectionMode'], keep_derives=['Copy', 'Clone', 'PartialEq', 'Eq'], structural=True)
    u.trusted(SHIMS, 'context shims; payloads as trace events')
    u.spec(SPEC, 'mode predicates')
    svc = u.carve('C19-service-sdl-ignores-disabled-introspection', '!(disabled(*ctx) && fname(*ctx) == "_service"@ && (ctx.schema_env.registry.enable_federation || ctx.schema_env.registry.entities))')
    u.extract_fn(F, ['impl<T: ObjectType> ContainerType for QueryRoot<T>', 'fn resolve_field'], wrap_impl='QueryRoot',
                 sig_rewrites=[AwaitErase(), ReSub(r"Context<'_>", 'Context')],
                 rewrites=[AwaitErase(),
                           ReplaceRange([('let mut ctx_obj = ctx.with_selection_set(&ctx.item.node.selection_set);', '.map(Some);', 'return ctx.act(Act::Schema);'),
                                         ('let (_, type_name) = ctx.param_value::<String>("name", None)?;', '.map(Some);', 'return ctx.act(Act::Type);'),
                                         ('let (_, representations) = ctx.param_value::<Vec<Any>>("representations", None)?;', 'return Ok(Some(Value::List(res)));', 'return ctx.act(Act::Entities);'),
                                         ('let mut ctx_obj = ctx.with_selection_set(&ctx.item.node.selection_set);', '.map(Some);', 'return ctx.act(Act::Service);')]),
                           Sub('self.inner.resolve_field(ctx)', 'ctx.act(Act::Inner)', rule='R-payload'),
                           Sub('ctx.item.node.name.node ==', 'ctx.item.node.name.node.as_str() ==', count='+', rule='R-ty')],
                 head_proof='proof { string_eq_axiom(); @REVEALS@ assert("_entities"@.len() == 9 && "_service"@.len() == 8 && "__schema"@.len() == 8 && "__type"@.len() == 6); assert("_service"@[1] == \'s\' && "__schema"@[1] == \'_\'); }',
                 requires=svc,
                 ensures=[
                          '''({
            let n = fname(*ctx);
            let fed = ctx.schema_env.registry.enable_federation || ctx.schema_env.registry.entities;
            if !disabled(*ctx) && n == "__schema"@ { r == act_result(Act::Schema) }
            else if !disabled(*ctx) && n == "__type"@ { r == act_result(Act::Type) }
            else if only(*ctx) { r == Ok::<Option<Value>, ServerError>(None) }                     // introspection-only: no user / entity resolver, no service payload
            else if disabled(*ctx) && fed && n == "_service"@ { false }                              // schema metadata (the SDL) must not be served when introspection is disabled
            else if fed && n == "_entities"@ { r == act_result(Act::Entities) }
            else if fed && n == "_service"@ { r == act_result(Act::Service) }
            else { r == act_result(Act::Inner) }
        })'''])
    u.assume('R-await; R-payload: each branch payload (introspection objects, entity lookup, SDL export, user resolver) is one opaque trace event; only the gating control flow is verified')
    u.assume('`__typename` always resolving lives in Fields::add_set (not covered); subscriptions and the dynamic flavour are covered only by the bounded stand-in')
    u.search_case('query_root.rs', 'c19_modes')
    return u


UNITS = {'c19_query_root_gating': (['C19'], gate_unit)}
SEARCH = {'c19_query_root_gating': ['c19_modes']}
BOUNDED = {'C19': [dict(case='c19_modes', function='QueryRoot::resolve_field, Schema::execute_once (introspection-only mutation root), Fields::add_set (__typename) through Schema::execute',
                        bound='the full 3x3 matrix of schema-level x request-level modes x 10 operations (introspection, __typename, ordinary query and mutation fields, federation _service) on a static schema, and x 6 operations (incl. _service, _entities) on a dynamic federation schema',
                        why='the kernel abstracts every payload to a trace event; the bounded matrix ties the gating to the real payloads. Subscriptions are not exercised')]}


# ----------------------------------------------------------------------------------------------------------------------
# dynamic schemas: the per-field gating of dynamic::resolve::collect_fields (E2 fragment, payloads as trace events)
D = 'src/dynamic/resolve.rs'

DYN_SHIMS = r'''
pub struct PName { pub node: String }
pub struct PFieldNode { pub name: PName }
pub struct PField { pub node: PFieldNode }
pub struct Registry { pub introspection_mode: IntrospectionMode, pub enable_federation: bool, pub query_type: String }
pub struct SchemaEnv { pub registry: Registry }
pub struct QueryEnv { pub introspection_mode: IntrospectionMode }
pub struct Ctx { pub schema_env: SchemaEnv, pub query_env: QueryEnv }
pub struct SchemaInner { pub env: SchemaEnv }
pub struct Schema(pub SchemaInner);
pub struct Object { pub name: String }
// which payload the field is handed to (R-payload): each collect_* call / pushed future is ONE trace event
#[derive(PartialEq, Eq, Structural, Clone, Copy)]
pub enum Ev { Typename, SchemaMeta, TypeMeta, Service, Entities, NullField, UserField }
pub fn ev(tr: &mut Vec<Ev>, e: Ev) ensures final(tr)@ == old(tr)@.push(e) { tr.push(e); }
'''

DYN_SPEC = r'''
pub open spec fn dname(field: &PField) -> Seq<char> { field.node.name.node@ }
pub open spec fn ddisabled(ctx: &Ctx) -> bool { ctx.schema_env.registry.introspection_mode is Disabled || ctx.query_env.introspection_mode is Disabled }
pub open spec fn donly(ctx: &Ctx) -> bool { ctx.schema_env.registry.introspection_mode is IntrospectionOnly || ctx.query_env.introspection_mode is IntrospectionOnly }
// what the property allows for one selected field under the two modes
pub open spec fn allowed(ctx: &Ctx, field: &PField, e: Ev) -> bool {
    (dname(field) == "__typename"@ ==> e == Ev::Typename)                                         // __typename always resolves
    && (ddisabled(ctx) ==> e != Ev::SchemaMeta && e != Ev::TypeMeta && e != Ev::Service)           // disabled: no schema metadata
    && (donly(ctx) ==> e != Ev::UserField && e != Ev::Entities)                                    // introspection-only: no user / entity resolver
}
'''


def dynamic_gate_unit(kf):
    u = Unit('c19_dynamic_gating', ['C19'], 'dynamic collect_fields hands every selected field to a payload the introspection modes allow')
    u.kf = kf
    u.prelude('string_eq')
    u.extract_type('src/schema.rs', ['enum IntrospectionMode'], keep_derives=['Copy', 'Clone', 'PartialEq', 'Eq'], structural=True)
    u.trusted(DYN_SHIMS, 'context shims; payloads as trace events')
    u.spec(DYN_SPEC, 'mode predicates (dynamic)')
    ent = u.carve('C19-dynamic-entities-in-introspection-only', '!(donly(ctx) && !ddisabled(ctx) && dname(field) == "_entities"@ && ctx.schema_env.registry.enable_federation && object.name@ == schema.0.env.registry.query_type@)')
    u.extract_fragment(D, ['fn collect_fields'], 'if field.node.name.node == "__typename" {', 'collect_field(fields, schema, object, ctx, parent_value, field_def, field); }',
                       name='gate_field',
                       header='fn gate_field(schema: &Schema, object: &Object, ctx: &Ctx, field: &PField, tr: &mut Vec<Ev>)',
                       footer='}',
                       rewrites=[Sub('collect_typename_field(fields, object, field);', 'ev(tr, Ev::Typename);', rule='R-payload'),
                                 Sub('collect_schema_field(fields, ctx, field);', 'ev(tr, Ev::SchemaMeta);', rule='R-payload'),
                                 Sub('collect_type_field(fields, ctx, field);', 'ev(tr, Ev::TypeMeta);', rule='R-payload'),
                                 Sub('collect_service_field(fields, ctx, field);', 'ev(tr, Ev::Service);', rule='R-payload'),
                                 Sub('collect_entities_field(fields, schema, ctx, parent_value, field);', 'ev(tr, Ev::Entities);', rule='R-payload'),
                                 ReplaceRange([('fields.push( async move', '.boxed(), );', 'ev(tr, Ev::NullField);'),
                                               ('if let Some(field_def) = object.fields.get(', 'collect_field(fields, schema, object, ctx, parent_value, field_def, field); }', 'ev(tr, Ev::UserField);')]),
                                 Sub('continue;', 'return;', count='+', rule='R-frag', why='the fragment is one iteration of the selection loop: `continue` ends it'),
                                 Sub('field.node.name.node ==', 'field.node.name.node.as_str() ==', count='+', rule='R-ty')],
                       requires=ent + ['true'],
                       ensures=['final(tr)@.len() == old(tr)@.len() + 1 && final(tr)@.take(old(tr)@.len() as int) == old(tr)@   // exactly one payload per selected field',
                                'allowed(ctx, field, final(tr)@.last())'])
    u.assume('E2 fragment (one iteration of the selection loop); R-payload: each collect_* call / pushed future is one trace event; the payloads themselves are not verified')
    u.search_case('dynamic/resolve.rs', 'c19_modes')
    return u


UNITS['c19_dynamic_gating'] = (['C19'], dynamic_gate_unit)
SEARCH['c19_dynamic_gating'] = ['c19_modes']
