"""C22 -- look-ahead lists every sub-field: look_ahead.rs::filter and Lookahead::field."""
from vx.unit import Unit, Sub, ReSub
from specs.common import value_types, ast_types

F = 'src/look_ahead.rs'

SPEC = r'''
pub type Frags = NameMap<Positioned<FragmentDefinition>>;
// sub-selection opened by a fragment-like selection (inline fragment / spread of a known fragment)
pub open spec fn frag_set(frags: Frags, sel: Selection) -> Option<SelectionSet> {
    match sel {
        Selection::Field(f) => None,
        Selection::FragmentSpread(s) => if frags.view().contains_key(s.node.fragment_name.node@) {
                Some(frags.view()[s.node.fragment_name.node@].node.selection_set.node) } else { None },
        Selection::InlineFragment(i) => Some(i.node.selection_set.node),
    }
}
// finite fragment expansion (false for cyclic fragments): fewer than `fuel` levels of fragment nesting
pub open spec fn flat(frags: Frags, ss: SelectionSet, fuel: nat) -> bool decreases fuel, ss.items.len() + 1 { fuel > 0 && flat_from(frags, ss, 0, fuel) }
pub open spec fn flat_from(frags: Frags, ss: SelectionSet, k: nat, fuel: nat) -> bool decreases fuel, ss.items.len() - k {
    if fuel == 0 { false } else if k >= ss.items.len() { true } else {
        (frag_set(frags, ss.items[k as int].node) is Some ==> flat(frags, frag_set(frags, ss.items[k as int].node)->Some_0, (fuel - 1) as nat))
        && flat_from(frags, ss, k + 1, fuel)
    }
}
// THE SPEC: the fields named `name` that execution will resolve for this selection set, in document order, following inline
// fragments and fragment spreads (aliases ignored: selection is by field NAME)
pub open spec fn subfields(frags: Frags, ss: SelectionSet, name: Seq<char>, fuel: nat) -> Seq<Field> decreases fuel, ss.items.len() + 1 {
    if fuel == 0 { Seq::empty() } else { subfields_from(frags, ss, name, 0, fuel) }
}
pub open spec fn subfields_from(frags: Frags, ss: SelectionSet, name: Seq<char>, k: nat, fuel: nat) -> Seq<Field> decreases fuel, ss.items.len() - k {
    if fuel == 0 || k >= ss.items.len() { Seq::empty() } else {
        (match ss.items[k as int].node {
            Selection::Field(f) => if f.node.name.node@ == name { seq![f.node] } else { Seq::empty() },
            other => if frag_set(frags, other) is Some { subfields(frags, frag_set(frags, other)->Some_0, name, (fuel - 1) as nat) } else { Seq::empty() },
        }) + subfields_from(frags, ss, name, k + 1, fuel)
    }
}
// the look-ahead of a set of parent fields: the sub-fields of each parent, in order
pub open spec fn all_flat(frags: Frags, ps: Seq<&Field>, fuel: nat) -> bool { forall|i: int| 0 <= i < ps.len() ==> #[trigger] flat(frags, ps[i].selection_set.node, fuel) }
pub open spec fn all_sub_from(frags: Frags, ps: Seq<&Field>, name: Seq<char>, k: nat, fuel: nat) -> Seq<Field> decreases ps.len() - k {
    if k >= ps.len() { Seq::empty() } else { subfields(frags, ps[k as int].selection_set.node, name, fuel) + all_sub_from(frags, ps, name, k + 1, fuel) }
}
pub open spec fn derefs(v: Seq<&Field>) -> Seq<Field> { v.map_values(|f: &Field| *f) }
pub proof fn lemma_flat_at(frags: Frags, ss: SelectionSet, k: nat, j: nat, fuel: nat)
    requires flat_from(frags, ss, k, fuel), k <= j < ss.items.len(), frag_set(frags, ss.items[j as int].node) is Some
    ensures fuel > 0, flat(frags, frag_set(frags, ss.items[j as int].node)->Some_0, (fuel - 1) as nat)
    decreases j - k
{ if k < j { lemma_flat_at(frags, ss, k + 1, j, fuel); } }
'''


def lookahead_unit(kf):
    u = Unit('c22_lookahead_filter', ['C22'], 'look_ahead::filter appends exactly the sub-fields named `name`, through inline fragments and spreads')
    u.kf = kf
    value_types(u)
    ast_types(u)
    u.prelude('string_eq')
    u.spec(SPEC, 'sub-field spec')
    SS = '*selection_set'
    inv = (f'forall|fuel: nat| #[trigger] flat(*fragments, {SS}, fuel) ==> derefs(fields@) + subfields_from(*fragments, {SS}, name@, it.index@ as nat, fuel) '
           f'== derefs(old(fields)@) + subfields(*fragments, {SS}, name@, fuel)')
    u.extract_fn(F, ['fn filter'],
                 sig_rewrites=[ReSub(r'HashMap<Name, Positioned<FragmentDefinition>>', 'Frags')],
                 rewrites=[Sub('for item in &selection_set.items', 'for item in it: &selection_set.items', rule='R-iter'),
                           Sub('field.node.name.node == name', 'field.node.name.node.as_str() == name', rule='R-ty')],
                 ensures=[f'forall|fuel: nat| #[trigger] flat(*fragments, {SS}, fuel) ==> derefs(final(fields)@) == derefs(old(fields)@) + subfields(*fragments, {SS}, name@, fuel)'],
                 loops={0: dict(prop=[inv], aux=[],
                                head=f'''proof {{
    assert(*item == selection_set.items@[it.index@ as int]);
    assert forall|fuel: nat| #[trigger] flat(*fragments, {SS}, fuel) && frag_set(*fragments, item.node) is Some implies
        fuel > 0 && flat(*fragments, frag_set(*fragments, item.node)->Some_0, (fuel - 1) as nat) by {{
        lemma_flat_at(*fragments, {SS}, 0, it.index@ as nat, fuel);
    }}
}}
let ghost before = derefs(fields@);''')},
                 inserts=[('after', 'fields.push(&field.node)', ';\nproof { assert(derefs(fields@) =~= before.push(field.node)); assert(before.push(field.node) =~= before + seq![field.node]); }')],
                 attrs=['#[verifier::loop_isolation(false)]', '#[verifier::exec_allows_no_decreases_clause]'])
    u.trusted('pub struct Context { pub _p: u8 }   // opaque: Lookahead only carries it along', 'Context shim')
    u.extract_type(F, ['struct Lookahead'], rewrites=[Sub('HashMap<Name, Positioned<FragmentDefinition>>', 'Frags', rule='R-ty'), Sub("Context<'a>", 'Context', rule='R-ty')])
    inv2 = ('forall|fuel: nat| #[trigger] all_flat(*self.fragments, self.fields@, fuel) ==> derefs(fields@) + all_sub_from(*self.fragments, self.fields@, name@, it.index@ as nat, fuel) '
            '== all_sub_from(*self.fragments, self.fields@, name@, 0, fuel)')
    u.extract_fn(F, ["impl<'a> Lookahead<'a>", 'fn field'], wrap_impl="<'a> Lookahead<'a>",
                 sig_rewrites=[ReSub(r'-> Self', "-> Lookahead<'a>"), ReSub(r'pub fn field', 'fn field')],
                 rewrites=[Sub('for field in &self.fields', 'for field in it: &self.fields', rule='R-iter'), Sub('Self {', 'Lookahead {', rule='R-self')],
                 ensures=['forall|fuel: nat| #[trigger] all_flat(*self.fragments, self.fields@, fuel) ==> derefs(r.fields@) == all_sub_from(*self.fragments, self.fields@, name@, 0, fuel)',
                          'r.fragments == self.fragments'],
                 loops={0: dict(prop=[inv2], aux=[],
                                head='''proof {
    assert(*field == self.fields@[it.index@ as int]);
    assert forall|fuel: nat| #[trigger] all_flat(*self.fragments, self.fields@, fuel) implies flat(*self.fragments, field.selection_set.node, fuel) by {
        assert(flat(*self.fragments, self.fields@[it.index@ as int].selection_set.node, fuel));
    }
}''')},
                 inserts=[('before', 'for field in it: &self.fields', 'proof { assert(derefs(fields@) =~= Seq::<Field>::empty()); }')],
                 attrs=['#[verifier::loop_isolation(false)]'])
    u.assume('filter: termination not proved (recursion through fragment spreads; validation rejects cyclic fragments before execution -- unverified call order)')
    u.assume('"leaving out skipped fields" rests on remove_skipped_selection having pruned the tree before (C01 kernel, not composed here)')
    u.search_case('look_ahead.rs', 'c22_lookahead')
    return u


UNITS = {'c22_lookahead_filter': (['C22'], lookahead_unit)}
SEARCH = {'c22_lookahead_filter': ['c22_lookahead']}
BOUNDED = {'C22': [dict(case='c22_lookahead', function='src/context.rs::SelectionFieldsIter::next / SelectionField::{arguments, selection_set} and Lookahead through Context::look_ahead (as seen by a resolver during Schema::execute)',
                        bound='12 documents (duplicated fields, aliases, inline fragments with and without type condition, nested spreads, variable arguments) x 9 look-ahead paths + the full recursive selection view',
                        why='SelectionFieldsIter is a hand-written iterator over a stack of boxed iterators (dyn Iterator); not within Verus; filter / Lookahead::field are under contract')]}
