"""C22 -- look-ahead lists every sub-field: look_ahead.rs::filter and Lookahead::field."""
from vx.unit import Unit, Sub, ReSub
from specs.common import value_types, ast_types

F = 'src/look_ahead.rs'

SPEC = r'''
pub type Frags = NameMap<Positioned<FragmentDefinition>>;
// sub-selection opened by a fragment-like selection (inline fragment / spread of a known fragment)
pub open spec fn frag_set(frags: Frags, sel: Selection) -> Option<SelectionSet> {
    match sel {
        Selection::Field(f) => None,
        Selection::FragmentSpread(s) => if frags.view().contains_key(s.node.fragment_name.node@) {
                Some(frags.view()[s.node.fragment_name.node@].node.selection_set.node) } else { None },
        Selection::InlineFragment(i) => Some(i.node.selection_set.node),
    }
}
// finite fragment expansion (false for cyclic fragments): fewer than `fuel` levels of fragment nesting
pub open spec fn flat(frags: Frags, ss: SelectionSet, fuel: nat) -> bool decreases fuel, ss.items.len() + 1 { fuel > 0 && flat_from(frags, ss, 0, fuel) }
pub open spec fn flat_from(frags: Frags, ss: SelectionSet, k: nat, fuel: nat) -> bool decreases fuel, ss.items.len() - k {
    if fuel == 0 { false } else if k >= ss.items.len() { true } else {
        (frag_set(frags, ss.items[k as int].node) is Some ==> flat(frags, frag_set(frags, ss.items[k as int].node)->Some_0, (fuel - 1) as nat))
        && flat_from(frags, ss, k + 1, fuel)
    }
}
// THE SPEC: the fields named `name` that execution will resolve for this selection set, in document order, following inline
// fragments and fragment spreads (aliases ignored: selection is by field NAME)
pub open spec fn subfields(frags: Frags, ss: SelectionSet, name: Seq<char>, fuel: nat) -> Seq<Field> decreases fuel, ss.items.len() + 1 {
    if fuel == 0 { Seq::empty() } else { subfields_from(frags, ss, name, 0, fuel) }
}
pub open spec fn subfields_from(frags: Frags, ss: SelectionSet, name: Seq<char>, k: nat, fuel: nat) -> Seq<Field> decreases fuel, ss.items.len() - k {
    if fuel == 0 || k >= ss.items.len() { Seq::empty() } else {
        (match ss.items[k as int].node {
            Selection::Field(f) => if f.node.name.node@ == name { seq![f.node] } else { Seq::empty() },
            other => if frag_set(frags, other) is Some { subfields(frags, frag_set(frags, other)->Some_0, name, (fuel - 1) as nat) } else { Seq::empty() },
        }) + subfields_from(frags, ss, name, k + 1, fuel)
    }
}
// the look-ahead of a set of parent fields: the sub-fields of each parent, in order
pub open spec fn all_flat(frags: Frags, ps: Seq<&Field>, fuel: nat) -> bool { forall|i: int| 0 <= i < ps.len() ==> #[trigger] flat(frags, ps[i].selection_set.node, fuel) }
pub open spec fn all_sub_from(frags: Frags, ps: Seq<&Field>, name: Seq<char>, k: nat, fuel: nat) -> Seq<Field> decreases ps.len() - k {
    if k >= ps.len() { Seq::empty() } else { subfields(frags, ps[k as int].selection_set.node, name, fuel) + all_sub_from(frags, ps, name, k + 1, fuel) }
}
pub open spec fn derefs(v: Seq<&Field>) -> Seq<Field> { v.map_values(|f: &Field| *f) }
pub proof fn lemma_flat_at(frags: Frags, ss: SelectionSet, k: nat, j: nat, fuel: nat)
    requires flat_from(frags, ss, k, fuel), k <= j < ss.items.len(), frag_set(frags, ss.items[j as int].node) is Some
    ensures fuel > 0, flat(frags, frag_set(frags, ss.items[j as int].node)->Some_0, (fuel - 1) as nat)
    decreases j - k
{ if k < j { lemma_flat_at(frags, ss, k + 1, j, fuel); } }
'''


def lookahead_unit(kf):
    u = Unit('c22_lookahead_filter', ['C22'], 'look_ahead::filter appends exactly the sub-fields named `name`, through inline fragments and spreads')
    u.kf = kf
    value_types(u)
    ast_types(u)
    u.prelude('string_eq')
    u.spec(SPEC, 'sub-field spec')
    SS = '*selection_set'
    inv = (f'forall|fuel: nat| #[trigger] flat(*fragments, {SS}, fuel) ==> derefs(fields@) + subfields_from(*fragments, {SS}, name@, it.index@ as nat, fuel) '
           f'== derefs(old(fields)@) + subfields(*fragments, {SS}, name@, fuel)')
    u.extract_fn(F, ['fn filter'],
                 sig_rewrites=[ReSub(r'HashMap<Name, Positioned<FragmentDefinition>>', 'Frags')],
                 rewrites=[Sub('for item in &selection_set.items', 'for item in it: &selection_set.items', rule='R-iter'),
                           Sub('field.node.name.node == name', 'field.node.name.node.as_str() == name', rule='R-ty')],
                 ensures=[f'forall|fuel: nat| #[trigger] flat(*fragments, {SS}, fuel) ==> derefs(final(fields)@) == derefs(old(fields)@) + subfields(*fragments, {SS}, name@, fuel)'],
                 loops={0: dict(prop=[inv], aux=[],
                                head=f'''proof {{
    assert(*item == selection_set.items@[it.index@ as int]);
    assert forall|fuel: nat| #[trigger] flat(*fragments, {SS}, fuel) && frag_set(*fragments, item.node) is Some implies
        fuel > 0 && flat(*fragments, frag_set(*fragments, item.node)->Some_0, (fuel - 1) as nat) by {{
        lemma_flat_at(*fragments, {SS}, 0, it.index@ as nat, fuel);
    }}
}}
let ghost before = derefs(fields@);''')},
                 inserts=[('after', 'fields.push(&field.node)', ';\nproof { assert(derefs(fields@) =~= before.push(field.node)); assert(before.push(field.node) =~= before + seq![field.node]); }')],
                 attrs=['#[verifier::loop_isolation(false)]', '#[verifier::exec_allows_no_decreases_clause]'])
    u.trusted('pub struct Context { pub _p: u8 }   // opaque: Lookahead only carries it along', 'Context shim')
    u.extract_type(F, ['struct Lookahead'], rewrites=[Sub('HashMap<Name, Positioned<FragmentDefinition>>', 'Frags', rule='R-ty'), Sub("Context<'a>", 'Context', rule='R-ty')])
    inv2 = ('forall|fuel: nat| #[trigger] all_flat(*self.fragments, self.fields@, fuel) ==> derefs(fields@) + all_sub_from(*self.fragments, self.fields@, name@, it.index@ as nat, fuel) '
            '== all_sub_from(*self.fragments, self.fields@, name@, 0, fuel)')
    u.extract_fn(F, ["impl<'a> Lookahead<'a>", 'fn field'], wrap_impl="<'a> Lookahead<'a>",
                 sig_rewrites=[ReSub(r'-> Self', "-> Lookahead<'a>"), ReSub(r'pub fn field', 'fn field')],
                 rewrites=[Sub('for field in &self.fields', 'for field in it: &self.fields', rule='R-iter'), Sub('Self {', 'Lookahead {', rule='R-self')],
                 ensures=['forall|fuel: nat| #[trigger] all_flat(*self.fragments, self.fields@, fuel) ==> derefs(r.fields@) == all_sub_from(*self.fragments, self.fields@, name@, 0, fuel)',
                          'r.fragments == self.fragments'],
                 loops={0: dict(prop=[inv2], aux=[],
                                head='''proof {
    assert(*field == self.fields@[it.index@ as int]);
    assert forall|fuel: nat| #[trigger] all_flat(*self.fragments, self.fields@, fuel) implies flat(*self.fragments, field.selection_set.node, fuel) by {
        assert(flat(*self.fragments, self.fields@[it.index@ as int].selection_set.node, fuel));
    }
}''')},
                 inserts=[('before', 'for field in it: &self.fields', 'proof { assert(derefs(fields@) =~= Seq::<Field>::empty()); }')],
                 attrs=['#[verifier::loop_isolation(false)]'])
    u.assume('filter: termination not proved (recursion through fragment spreads; validation rejects cyclic fragments before execution -- unverified call order)')
    u.assume('"leaving out skipped fields" rests on remove_skipped_selection having pruned the tree before (C01 kernel, not composed here)')
    u.search_case('look_ahead.rs', 'c22_lookahead')
    return u


UNITS = {'c22_lookahead_filter': (['C22'], lookahead_unit)}
SEARCH = {'c22_lookahead_filter': ['c22_lookahead']}
BOUNDED = {'C22': [dict(case='c22_lookahead', function='src/context.rs::SelectionFieldsIter::next / SelectionField::{arguments, selection_set} and Lookahead through Context::look_ahead (as seen by a resolver during Schema::execute)',
                        bound='12 documents (duplicated fields, aliases, inline fragments with and without type condition, nested spreads, variable arguments) x 9 look-ahead paths + the full recursive selection view',
                        why='SelectionFieldsIter is a hand-written iterator over a stack of boxed iterators (dyn Iterator); not within Verus; filter / Lookahead::field are under contract')]}


# ----------------------------------------------------------------------------------------------------------------------
# the selection-field view: SelectionFieldsIter::next yields every sub-field, in document order, through fragments
ITER_SHIMS = r'''
pub struct Context { pub _p: u8 }   // opaque: only carried along
// std::slice::Iter<'a, Positioned<Selection>>: the slice and the index of the next element (R-ty)
pub struct SelIter<'a> { pub items: &'a Vec<Positioned<Selection>>, pub pos: usize }
pub fn sel_iter<'a>(items: &'a Vec<Positioned<Selection>>) -> (r: SelIter<'a>) ensures r.items == items, r.pos == 0 { SelIter { items, pos: 0 } }
pub open spec fn frame_wf(f: SelIter) -> bool { f.pos <= f.items@.len() }
// `let it = stack.last_mut()?; let item = it.next();` as one step on the stack of iterators
pub fn stack_top_next<'a>(st: &mut Vec<SelIter<'a>>) -> (r: Option<Option<&'a Positioned<Selection>>>)
    requires forall|i: int| 0 <= i < old(st)@.len() ==> frame_wf(#[trigger] old(st)@[i])
    ensures
        old(st)@.len() == 0 ==> r is None && final(st)@ == old(st)@,
        old(st)@.len() > 0 ==> r is Some && final(st)@.len() == old(st)@.len() && final(st)@.drop_last() == old(st)@.drop_last()
            && final(st)@.last().items == old(st)@.last().items
            && (if old(st)@.last().pos < old(st)@.last().items@.len() {
                    r->Some_0 == Some(&old(st)@.last().items@[old(st)@.last().pos as int]) && final(st)@.last().pos == old(st)@.last().pos + 1
                } else { r->Some_0 is None && final(st)@.last().pos == old(st)@.last().pos }),
{
    if st.len() == 0 { return None; }
    let top = st.pop().unwrap();
    if top.pos < top.items.len() {
        let item = &top.items[top.pos];
        st.push(SelIter { items: top.items, pos: top.pos + 1 });
        proof { assert(st@.drop_last() =~= old(st)@.drop_last()); }
        Some(Some(item))
    } else {
        st.push(top);
        proof { assert(st@ =~= old(st)@); }
        Some(None)
    }
}
'''

ITER_SPEC = r'''
pub type Frags = NameMap<Positioned<FragmentDefinition>>;
pub open spec fn frag_items(frags: Frags, sel: Selection) -> Option<Seq<Positioned<Selection>>> {
    match sel {
        Selection::Field(f) => None,
        Selection::FragmentSpread(s) => if frags.view().contains_key(s.node.fragment_name.node@) { Some(frags.view()[s.node.fragment_name.node@].node.selection_set.node.items@) } else { None },
        Selection::InlineFragment(i) => Some(i.node.selection_set.node.items@),
    }
}
pub open spec fn flat_from(frags: Frags, items: Seq<Positioned<Selection>>, k: nat, fuel: nat) -> bool decreases fuel, items.len() - k {
    if fuel == 0 { false } else if k >= items.len() { true } else {
        (frag_items(frags, items[k as int].node) is Some ==> flat_from(frags, frag_items(frags, items[k as int].node)->Some_0, 0, (fuel - 1) as nat))
        && flat_from(frags, items, k + 1, fuel)
    }
}
// all fields execution resolves for items[k..], in document order, through inline fragments and spreads
pub open spec fn fields_from(frags: Frags, items: Seq<Positioned<Selection>>, k: nat, fuel: nat) -> Seq<Field> decreases fuel, items.len() - k {
    if fuel == 0 || k >= items.len() { Seq::empty() } else {
        (match items[k as int].node {
            Selection::Field(f) => seq![f.node],
            other => if frag_items(frags, other) is Some { fields_from(frags, frag_items(frags, other)->Some_0, 0, (fuel - 1) as nat) } else { Seq::empty() },
        }) + fields_from(frags, items, k + 1, fuel)
    }
}
pub proof fn lemma_flat_mono(frags: Frags, items: Seq<Positioned<Selection>>, k: nat, fuel: nat)
    requires flat_from(frags, items, k, fuel)
    ensures flat_from(frags, items, k, fuel + 1), fields_from(frags, items, k, fuel + 1) == fields_from(frags, items, k, fuel)
    decreases fuel, items.len() - k
{
    if k < items.len() {
        if frag_items(frags, items[k as int].node) is Some { lemma_flat_mono(frags, frag_items(frags, items[k as int].node)->Some_0, 0, (fuel - 1) as nat); }
        lemma_flat_mono(frags, items, k + 1, fuel);
    }
}
// remaining fields of a stack of iterators: the top frame (last) first
pub open spec fn stack_fields(frags: Frags, st: Seq<SelIter>, n: nat, fuel: nat) -> Seq<Field> decreases n {
    if n == 0 || n > st.len() { Seq::empty() } else { fields_from(frags, st[n - 1].items@, st[n - 1].pos as nat, fuel) + stack_fields(frags, st, (n - 1) as nat, fuel) }
}
pub open spec fn stack_flat(frags: Frags, st: Seq<SelIter>, fuel: nat) -> bool { forall|i: int| 0 <= i < st.len() ==> flat_from(frags, (#[trigger] st[i]).items@, st[i].pos as nat, fuel) }
pub open spec fn stack_wf(st: Seq<SelIter>) -> bool { forall|i: int| 0 <= i < st.len() ==> frame_wf(#[trigger] st[i]) }
pub proof fn lemma_stack_prefix(frags: Frags, a: Seq<SelIter>, b: Seq<SelIter>, n: nat, fuel: nat)
    requires n <= a.len(), n <= b.len(), forall|i: int| 0 <= i < n ==> a[i] == b[i]
    ensures stack_fields(frags, a, n, fuel) == stack_fields(frags, b, n, fuel) decreases n
{ if n > 0 { lemma_stack_prefix(frags, a, b, (n - 1) as nat, fuel); } }


// one loop step that opens a fragment: the top frame advanced past a fragment-like selection whose items are pushed as a new frame
pub open spec fn lemma_push_pre(fr: Frags, pre: Seq<SelIter>, mid: Seq<SelIter>, cur: Seq<SelIter>, old_st: Seq<SelIter>) -> bool {
    (pre.len() > 0)
    && (mid.len() == pre.len())
    && (cur.len() == pre.len() + 1)
    && (stack_wf(pre))
    && (forall|i: int| 0 <= i < pre.len() - 1 ==> mid[i] == pre[i])
    && (mid.last().items == pre.last().items)
    && (pre.last().pos < pre.last().items@.len())
    && (mid.last().pos == pre.last().pos + 1)
    && (forall|i: int| 0 <= i < mid.len() ==> cur[i] == mid[i])
    && (frag_items(fr, pre.last().items@[pre.last().pos as int].node) == Some(cur.last().items@))
    && (cur.last().pos == 0)
    && (forall|fuel: nat| #[trigger] stack_flat(fr, old_st, fuel) ==> stack_flat(fr, pre, fuel) && stack_fields(fr, old_st, old_st.len(), fuel) == stack_fields(fr, pre, pre.len(), fuel))
}
pub proof fn lemma_push(fr: Frags, pre: Seq<SelIter>, mid: Seq<SelIter>, cur: Seq<SelIter>, old_st: Seq<SelIter>)
    requires lemma_push_pre(fr, pre, mid, cur, old_st),
    ensures stack_wf(cur),
        forall|fuel: nat| #[trigger] stack_flat(fr, old_st, fuel) ==> stack_flat(fr, cur, fuel) && stack_fields(fr, old_st, old_st.len(), fuel) == stack_fields(fr, cur, cur.len(), fuel),
{
    let n = pre.len() as int;
    assert forall|fuel: nat| #[trigger] stack_flat(fr, old_st, fuel) implies stack_flat(fr, cur, fuel) && stack_fields(fr, old_st, old_st.len(), fuel) == stack_fields(fr, cur, cur.len(), fuel) by {
        assert(flat_from(fr, pre[n - 1].items@, pre[n - 1].pos as nat, fuel));
        assert(fuel > 0);
        lemma_flat_mono(fr, cur.last().items@, 0, (fuel - 1) as nat);
        lemma_stack_prefix(fr, pre, mid, (n - 1) as nat, fuel);
        lemma_stack_prefix(fr, mid, cur, n as nat, fuel);
        assert forall|i: int| 0 <= i < cur.len() implies flat_from(fr, (#[trigger] cur[i]).items@, cur[i].pos as nat, fuel) by { if i < n - 1 { assert(flat_from(fr, pre[i].items@, pre[i].pos as nat, fuel)); } }
        assert(stack_fields(fr, cur, cur.len(), fuel) =~= stack_fields(fr, pre, pre.len(), fuel));
    }
    assert forall|i: int| 0 <= i < cur.len() implies frame_wf(#[trigger] cur[i]) by { if i < n - 1 { assert(frame_wf(pre[i])); } }
}
pub open spec fn lemma_skip_pre(fr: Frags, pre: Seq<SelIter>, mid: Seq<SelIter>, old_st: Seq<SelIter>) -> bool {
    (pre.len() > 0)
    && (mid.len() == pre.len())
    && (stack_wf(pre))
    && (forall|i: int| 0 <= i < pre.len() - 1 ==> mid[i] == pre[i])
    && (mid.last().items == pre.last().items)
    && (pre.last().pos < pre.last().items@.len())
    && (mid.last().pos == pre.last().pos + 1)
    && (!(pre.last().items@[pre.last().pos as int].node is Field))
    && (frag_items(fr, pre.last().items@[pre.last().pos as int].node) is None)
    && (forall|fuel: nat| #[trigger] stack_flat(fr, old_st, fuel) ==> stack_flat(fr, pre, fuel) && stack_fields(fr, old_st, old_st.len(), fuel) == stack_fields(fr, pre, pre.len(), fuel))
}
pub proof fn lemma_skip(fr: Frags, pre: Seq<SelIter>, mid: Seq<SelIter>, old_st: Seq<SelIter>)
    requires lemma_skip_pre(fr, pre, mid, old_st),
    ensures
        forall|fuel: nat| #[trigger] stack_flat(fr, old_st, fuel) ==> stack_flat(fr, mid, fuel) && stack_fields(fr, old_st, old_st.len(), fuel) == stack_fields(fr, mid, mid.len(), fuel),
{
    let n = pre.len() as int;
    assert forall|fuel: nat| #[trigger] stack_flat(fr, old_st, fuel) implies stack_flat(fr, mid, fuel) && stack_fields(fr, old_st, old_st.len(), fuel) == stack_fields(fr, mid, mid.len(), fuel) by {
        assert(flat_from(fr, pre[n - 1].items@, pre[n - 1].pos as nat, fuel));
        lemma_stack_prefix(fr, pre, mid, (n - 1) as nat, fuel);
        assert forall|i: int| 0 <= i < mid.len() implies flat_from(fr, (#[trigger] mid[i]).items@, mid[i].pos as nat, fuel) by { if i < n - 1 { assert(flat_from(fr, pre[i].items@, pre[i].pos as nat, fuel)); } }
        assert(stack_fields(fr, mid, mid.len(), fuel) =~= stack_fields(fr, pre, pre.len(), fuel));
    }
}
pub open spec fn lemma_pop_pre(fr: Frags, pre: Seq<SelIter>, mid: Seq<SelIter>, cur: Seq<SelIter>, old_st: Seq<SelIter>) -> bool {
    (pre.len() > 0)
    && (mid.len() == pre.len())
    && (cur == mid.drop_last())
    && (stack_wf(pre))
    && (forall|i: int| 0 <= i < pre.len() - 1 ==> mid[i] == pre[i])
    && (pre.last().pos >= pre.last().items@.len())
    && (forall|fuel: nat| #[trigger] stack_flat(fr, old_st, fuel) ==> stack_flat(fr, pre, fuel) && stack_fields(fr, old_st, old_st.len(), fuel) == stack_fields(fr, pre, pre.len(), fuel))
}
pub proof fn lemma_pop(fr: Frags, pre: Seq<SelIter>, mid: Seq<SelIter>, cur: Seq<SelIter>, old_st: Seq<SelIter>)
    requires lemma_pop_pre(fr, pre, mid, cur, old_st),
    ensures stack_wf(cur),
        forall|fuel: nat| #[trigger] stack_flat(fr, old_st, fuel) ==> stack_flat(fr, cur, fuel) && stack_fields(fr, old_st, old_st.len(), fuel) == stack_fields(fr, cur, cur.len(), fuel),
{
    let n = pre.len() as int;
    assert forall|fuel: nat| #[trigger] stack_flat(fr, old_st, fuel) implies stack_flat(fr, cur, fuel) && stack_fields(fr, old_st, old_st.len(), fuel) == stack_fields(fr, cur, cur.len(), fuel) by {
        lemma_stack_prefix(fr, pre, cur, (n - 1) as nat, fuel);
        assert forall|i: int| 0 <= i < cur.len() implies flat_from(fr, (#[trigger] cur[i]).items@, cur[i].pos as nat, fuel) by { assert(flat_from(fr, pre[i].items@, pre[i].pos as nat, fuel)); }
        assert(stack_fields(fr, cur, cur.len(), fuel) =~= stack_fields(fr, pre, pre.len(), fuel));
    }
    assert forall|i: int| 0 <= i < cur.len() implies frame_wf(#[trigger] cur[i]) by { assert(frame_wf(pre[i])); }
}

'''

C = 'src/context.rs'


def selection_iter_unit(kf):
    u = Unit('c22_selection_iter', ['C22'], 'SelectionFieldsIter::next yields exactly the fields execution resolves below the field, in document order, through inline fragments and spreads')
    u.kf = kf
    value_types(u)
    ast_types(u)
    u.prelude('string_eq')
    u.spec('pub type FragsT = NameMap<Positioned<FragmentDefinition>>;', 'alias')
    ty = [Sub('HashMap<Name, Positioned<FragmentDefinition>>', 'NameMap<Positioned<FragmentDefinition>>', rule='R-ty'), Sub("Context<'a>", 'Context', rule='R-ty'),
          Sub('pub(crate)', 'pub', count='*', rule='R-ty')]
    u.trusted(ITER_SHIMS, 'slice::Iter / stack-of-iterators shims (stack_top_next is verified, only the (slice, index) representation is assumed)')
    u.extract_type(C, ['struct SelectionField'], rewrites=ty)
    u.extract_type(C, ['struct SelectionFieldsIter'], rewrites=ty + [Sub("Vec<std::slice::Iter<'a, Positioned<Selection>>>", "Vec<SelIter<'a>>", rule='R-ty')])
    u.spec(ITER_SPEC, 'remaining-fields spec + step lemmas')
    FR, O = '*old(self).fragments', 'old(self).iter@'
    inv = (f'forall|fuel: nat| #[trigger] stack_flat({FR}, {O}, fuel) ==> stack_flat(*self.fragments, self.iter@, fuel) '
           f'&& stack_fields({FR}, {O}, {O}.len(), fuel) == stack_fields(*self.fragments, self.iter@, self.iter@.len(), fuel)')
    u.extract_fn(C, ["impl<'a> Iterator for SelectionFieldsIter<'a>", 'fn next'], wrap_impl="<'a> SelectionFieldsIter<'a>",
                 sig_rewrites=[ReSub(r'Option<Self::Item>', "Option<SelectionField<'a>>")],
                 rewrites=[Sub('let it = self.iter.last_mut()?; let item = it.next();', 'let item = stack_top_next(&mut self.iter)?;', rule='R-ty',
                               why='Vec::last_mut followed by slice::Iter::next: one step on the (slice, index) stack; `?` still leaves when the stack is empty'),
                           Sub('.push(fragment.node.selection_set.node.items.iter())', '.push(sel_iter(&fragment.node.selection_set.node.items))', rule='R-ty'),
                           Sub('.push(inline_fragment.node.selection_set.node.items.iter())', '.push(sel_iter(&inline_fragment.node.selection_set.node.items))', rule='R-ty')],
                 requires=['stack_wf(old(self).iter@)'],
                 ensures=['stack_wf(final(self).iter@), final(self).fragments == old(self).fragments',
                          f'''forall|fuel: nat| #[trigger] stack_flat({FR}, {O}, fuel) ==> stack_flat(*final(self).fragments, final(self).iter@, fuel) && (match r {{
            Some(sf) => stack_fields({FR}, {O}, {O}.len(), fuel) == seq![*sf.field] + stack_fields(*final(self).fragments, final(self).iter@, final(self).iter@.len(), fuel),   // the next field, and nothing is lost
            None => stack_fields({FR}, {O}, {O}.len(), fuel) == Seq::<Field>::empty(),                                                       // exhausted only when no field remains
        }})'''],
                 loops={0: dict(prop=[inv], aux=['stack_wf(self.iter@), self.fragments == old(self).fragments'],
                                head='let ghost pre = self.iter@;',
                                tail='''proof {
    let cur = self.iter@;
    match item {
        Some(selection) => match selection.node {
            Selection::Field(_) => {},
            Selection::FragmentSpread(_) => { if lemma_push_pre(fr, pre, mid, cur, old(self).iter@) { lemma_push(fr, pre, mid, cur, old(self).iter@); } else if cur == mid && lemma_skip_pre(fr, pre, mid, old(self).iter@) { lemma_skip(fr, pre, mid, old(self).iter@); } },
            Selection::InlineFragment(_) => { if lemma_push_pre(fr, pre, mid, cur, old(self).iter@) { lemma_push(fr, pre, mid, cur, old(self).iter@); } },
        },
        None => { if lemma_pop_pre(fr, pre, mid, cur, old(self).iter@) { lemma_pop(fr, pre, mid, cur, old(self).iter@); } },
    }
}''')},
                 inserts=[('after', 'let item = stack_top_next(&mut self.iter)?;', '''let ghost mid = self.iter@;
let ghost n = pre.len();
let ghost fr = *self.fragments;
proof {
    assert(n > 0);
    assert forall|i: int| 0 <= i < n - 1 implies mid[i] == pre[i] by { assert(mid.drop_last()[i] == pre.drop_last()[i]); }
    assert(mid[n - 1].items == pre[n - 1].items);
    assert(stack_wf(mid));
}'''),
                          ('before', 'return Some(SelectionField {', '''proof {
    assert forall|fuel: nat| #[trigger] stack_flat(fr, old(self).iter@, fuel) implies stack_flat(fr, mid, fuel)
        && stack_fields(fr, old(self).iter@, old(self).iter@.len(), fuel) == seq![field.node] + stack_fields(fr, mid, mid.len(), fuel) by {
        assert(stack_flat(fr, pre, fuel));
        assert(flat_from(fr, pre[n - 1].items@, pre[n - 1].pos as nat, fuel));
        lemma_stack_prefix(fr, pre, mid, (n - 1) as nat, fuel);
        assert forall|i: int| 0 <= i < mid.len() implies flat_from(fr, (#[trigger] mid[i]).items@, mid[i].pos as nat, fuel) by { if i < n - 1 { assert(flat_from(fr, pre[i].items@, pre[i].pos as nat, fuel)); } }
    }
}''')],
                 attrs=['#[verifier::exec_allows_no_decreases_clause]'])
    u.assume("std::slice::Iter<'a, T> is represented as (slice, index of the next element) and Vec<Iter> as a Vec of such frames (R-ty); stack_top_next (last_mut + next) is verified against that representation")
    u.assume('termination of next() is not proved (a cyclic fragment spread loops forever; validation rejects cyclic fragments before execution -- unverified call order); the contract holds for every finite fragment expansion (fuel)')
    u.assume('SelectionField::selection_set (which builds the initial one-frame stack) and arguments() are not under contract here (arguments: C06 context unit)')
    u.search_case('context.rs', 'c22_lookahead')
    return u


UNITS['c22_selection_iter'] = (['C22'], selection_iter_unit)
SEARCH['c22_selection_iter'] = ['c22_lookahead']
