"""C01 -- execution follows the spec (static schemas): the fragment type-condition test of Fields::add_set (E2 fragment)."""
from vx.unit import Unit, Sub, ReSub, ClosureDesugar

F = 'src/resolver_utils/container.rs'
R = 'src/registry/mod.rs'

SHIMS = r'''
// field-subset shims of the registry (conformance-checked): interface membership and the type table
pub enum MetaType { Union { name: String, possible_types: StrSet }, Interface { name: String, possible_types: StrSet }, Other { name: String } }
pub struct Registry { pub types: StrMap<MetaType>, pub implements: StrMap<StrSet> }
'''

SPEC = r'''
// GraphQL spec, DoesFragmentTypeApply(objectType, fragmentType): the fragment's type condition is the object type itself,
// an interface the object type implements, or a union the object type is a member of
pub open spec fn type_applies(reg: Registry, obj: Seq<char>, cond: Seq<char>) -> bool {
    obj == cond
    || (reg.implements.view().contains_key(obj) && reg.implements.view()[obj].view().contains(cond))
    || (reg.types.view().contains_key(cond) && (match reg.types.view()[cond] {
            MetaType::Union { possible_types, .. } => possible_types.view().contains(obj),
            _ => false }))
}
pub open spec fn is_union(reg: Registry, cond: Seq<char>) -> bool {
    reg.types.view().contains_key(cond) && reg.types.view()[cond] is Union
}
'''


def typecond_unit(kf):
    u = Unit('c01_fragment_type_condition', ['C01'], 'a fragment is applied to a concrete object exactly when the object type satisfies its type condition')
    u.kf = kf
    u.prelude('registry_shim')
    u.prelude('string_eq')
    u.trusted(SHIMS, 'registry shims')
    u.shim_conformance(R, ['struct Registry'], [('types', 'BTreeMap<String, MetaType>'), ('implements', 'HashMap<String, IndexSet<String>>')])
    u.shim_conformance(R, ['enum MetaType'], [('name', 'String'), ('possible_types', 'IndexSet<String>')], variant='Union')
    u.spec(SPEC, 'DoesFragmentTypeApply')
    carve = u.carve('C01-union-type-condition-on-concrete-object', '!(type_condition is Some && is_union(*reg, type_condition->Some_0@) && !(introspection_type_name@ == type_condition->Some_0@))')
    u.extract_fragment(F, ["impl<'a> Fields<'a>", 'fn add_set'],
                       'let applies_concrete_object = type_condition.is_some_and(|condition| {', '.is_some_and(|interfaces| interfaces.contains(condition)) });',
                       name='applies_concrete_object',
                       header='fn applies_concrete_object(type_condition: Option<&str>, introspection_type_name: &str, reg: &Registry) -> (r: bool)',
                       footer='    applies_concrete_object\n}',
                       rewrites=[ClosureDesugar('is_some_and', count=2),
                                 Sub('ctx .schema_env .registry .implements .get(&*introspection_type_name)', 'reg.implements.get(introspection_type_name)', rule='R-ty')],
                       requires=carve,
                       ensures=['r == (type_condition is Some && type_applies(*reg, introspection_type_name@, type_condition->Some_0@))'])
    u.assume('Fields::add_set: only the type-condition expression (E2 fragment) is under contract; its free variables are parameters; the surrounding async collection loop is not verified')
    u.assume('registry.implements holds the interfaces of each object type and MetaType::Union.possible_types the members of each union (established by the derive macros, unverified)')
    u.search_case('container.rs', 'c01_exec')
    return u


UNITS = {'c01_fragment_type_condition': (['C01'], typecond_unit)}
SEARCH = {'c01_fragment_type_condition': ['c01_exec']}
BOUNDED = {'C01': [dict(case='c01_exec', function='Schema::execute on a derive-built schema (objects, interface, union, lists): Fields::add_set, create_value_object / insert_value, remove_skipped_selection, resolve_list, derive-generated resolve_field / collect_all_fields',
                        bound='15 hand-written (query, expected JSON text) pairs: key order, aliases, repeated-key merge, fragments on object / interface / union conditions, nested and named fragments, @skip/@include with literals and variables',
                        why='the executor is async over dyn Future and derive-generated code; only the type-condition expression of add_set is under contract')]}


# ----------------------------------------------------------------------------------------------------------------------
# @skip / @include: remove_skipped_selection::is_skipped decides from ALL directives of the selection
from vx.unit import IterFind, ClosureMatch, ReplaceRange  # noqa: E402
from specs.common import value_types, ast_types            # noqa: E402

S = 'src/schema.rs'
TM = 'parser/src/types/mod.rs'

SKIP_SHIMS = r'''
pub type Variables = NameMap<ConstValue>;
// the boolean a directive's `if` argument denotes under the request variables: `into_const_with(variables)` followed by
// `<bool as InputType>::parse(..).unwrap_or_default()` -- abstracted as ONE uninterpreted function of (argument, variables)
pub uninterp spec fn cond_value(arg: Positioned<Value>, vars: Variables) -> bool;
#[verifier::external_body]
pub fn eval_condition(condition_input: &Positioned<Value>, variables: &Variables) -> (r: bool) ensures r == cond_value(*condition_input, *variables) { unimplemented!() }
'''

SKIP_SPEC = r'''
pub open spec fn arg_if(d: Directive) -> Option<Positioned<Value>> {
    if exists|i: int| 0 <= i < d.arguments@.len() && d.arguments@[i].0.node@ == "if"@ {
        Some(d.arguments@[choose|i: int| 0 <= i < d.arguments@.len() && d.arguments@[i].0.node@ == "if"@ && forall|j: int| 0 <= j < i ==> d.arguments@[j].0.node@ != "if"@].1)
    } else { None }
}
// GraphQL spec, CollectFields: a selection is skipped if it carries @skip whose `if` is true, or @include whose `if` is false
pub open spec fn directive_skips(d: Directive, vars: Variables) -> bool {
    (d.name.node@ == "skip"@ && arg_if(d) is Some && cond_value(arg_if(d)->Some_0, vars))
    || (d.name.node@ == "include"@ && arg_if(d) is Some && !cond_value(arg_if(d)->Some_0, vars))
}
pub open spec fn spec_skipped(ds: Seq<Positioned<Directive>>, vars: Variables) -> bool {
    exists|i: int| 0 <= i < ds.len() && directive_skips((#[trigger] ds[i]).node, vars)
}
'''


def skip_unit(kf):
    u = Unit('c01_is_skipped', ['C01', 'C02'], 'a selection is pruned exactly when one of its @skip/@include directives says so (every directive is consulted)')
    u.kf = kf
    value_types(u)
    ast_types(u)
    u.prelude('string_eq')
    u.prelude('iter_shims')
    u.trusted(SKIP_SHIMS, 'Variables / condition evaluation shims')
    u.spec(SKIP_SPEC, '@skip/@include spec')
    u.extract_fn(TM, ['impl Directive', 'fn get_argument'], wrap_impl='Directive',
                 rewrites=[Sub('item.0.node == name', 'item.0.node.as_str() == name', rule='R-ty'),
                           IterFind('vec_find', '(Positioned<Name>, Positioned<Value>)', 'p__.0.node@ == name@', ref='&'),
                           ClosureMatch('opt.map')],
                 ensures=['name@ == "if"@ ==> (match r { Some(a) => arg_if(*self) == Some(*a), None => arg_if(*self) is None })'])
    u.extract_fn(S, ['fn remove_skipped_selection', 'fn is_skipped'], label=S + '::fn remove_skipped_selection::fn is_skipped (nested)',
                 rewrites=[Sub('for directive in directives {',
                               'let mut i__: usize = 0; while i__ < directives.len() { let directive = &directives[i__]; i__ += 1;', rule='R-iter',
                               why='Verus for-loops do not support `continue`: the slice loop is written as its index form (increment before the body)'),
                           Sub('match &*directive.node.name.node { "skip" => false, "include" => true, _ => continue, }',
                               'if directive.node.name.node.as_str() == "skip" { false } else if directive.node.name.node.as_str() == "include" { true } else { continue }',
                               rule='R-strmatch', why='match on string literals is equality with each literal in order'),
                           ReplaceRange([('let value = condition_input', 'let value: bool = InputType::parse(Some(value)).unwrap_or_default();',
                                          'let value: bool = eval_condition(condition_input, variables);')], rule='R-payload')],
                 ensures=['r == spec_skipped(directives@, *variables)'],
                 loops={0: dict(prop=['forall|i: int| 0 <= i < i__ ==> !directive_skips((#[trigger] directives@[i]).node, *variables)'],
                                aux=['i__ <= directives@.len()'], decreases='directives@.len() - i__',
                                head='')},
                 inserts=[('after', 'let directive = &directives[i__]; i__ += 1;',
                           'proof { reveal_strlit("skip"); reveal_strlit("include"); reveal_strlit("if"); assert("skip"@.len() == 4); assert("include"@.len() == 7); assert(*directive == directives@[i__ - 1]); }')])
    u.assume('the value of a directive\'s `if` argument (into_const_with(variables) + bool parse, unwrap_or_default) is abstracted to the uninterpreted cond_value(argument, variables) (R-payload); '
             'that it uses variable DEFAULTS is not decided here (open known finding C01-skip-include-ignore-variable-defaults: the caller passes raw variables)')
    u.assume('remove_skipped_selection itself (Vec::retain with closures, recursion over &mut selection sets) is not under contract; bounded table c01_exec')
    u.search_case('schema.rs', 'c01_exec')
    return u


UNITS['c01_is_skipped'] = (['C01', 'C02'], skip_unit)   # remove_skipped_selection runs in prepare_request for static AND dynamic schemas
SEARCH['c01_is_skipped'] = ['c01_exec']
