"""C01 -- execution follows the spec (static schemas): the fragment type-condition test of Fields::add_set (E2 fragment)."""
from vx.unit import Unit, Sub, ReSub, ClosureDesugar

F = 'src/resolver_utils/container.rs'
R = 'src/registry/mod.rs'

SHIMS = r'''
// field-subset shims of the registry (conformance-checked): interface membership and the type table
pub enum MetaType { Union { name: String, possible_types: StrSet }, Interface { name: String, possible_types: StrSet }, Other { name: String } }
pub struct Registry { pub types: StrMap<MetaType>, pub implements: StrMap<StrSet> }
'''

SPEC = r'''
// GraphQL spec, DoesFragmentTypeApply(objectType, fragmentType): the fragment's type condition is the object type itself,
// an interface the object type implements, or a union the object type is a member of
pub open spec fn type_applies(reg: Registry, obj: Seq<char>, cond: Seq<char>) -> bool {
    obj == cond
    || (reg.implements.view().contains_key(obj) && reg.implements.view()[obj].view().contains(cond))
    || (reg.types.view().contains_key(cond) && (match reg.types.view()[cond] {
            MetaType::Union { possible_types, .. } => possible_types.view().contains(obj),
            _ => false }))
}
pub open spec fn is_union(reg: Registry, cond: Seq<char>) -> bool {
    reg.types.view().contains_key(cond) && reg.types.view()[cond] is Union
}
'''


def typecond_unit(kf):
    u = Unit('c01_fragment_type_condition', ['C01'], 'a fragment is applied to a concrete object exactly when the object type satisfies its type condition')
    u.kf = kf
    u.prelude('registry_shim')
    u.prelude('string_eq')
    u.trusted(SHIMS, 'registry shims')
    u.shim_conformance(R, ['struct Registry'], [('types', 'BTreeMap<String, MetaType>'), ('implements', 'HashMap<String, IndexSet<String>>')])
    u.shim_conformance(R, ['enum MetaType'], [('name', 'String'), ('possible_types', 'IndexSet<String>')], variant='Union')
    u.spec(SPEC, 'DoesFragmentTypeApply')
    carve = u.carve('C01-union-type-condition-on-concrete-object', '!(type_condition is Some && is_union(*reg, type_condition->Some_0@) && !(introspection_type_name@ == type_condition->Some_0@))')
    u.extract_fragment(F, ["impl<'a> Fields<'a>", 'fn add_set'],
                       'let applies_concrete_object = type_condition.is_some_and(|condition| {', '.is_some_and(|interfaces| interfaces.contains(condition)) });',
                       name='applies_concrete_object',
                       header='fn applies_concrete_object(type_condition: Option<&str>, introspection_type_name: &str, reg: &Registry) -> (r: bool)',
                       footer='    applies_concrete_object\n}',
                       rewrites=[ClosureDesugar('is_some_and', count=2),
                                 Sub('ctx .schema_env .registry .implements .get(&*introspection_type_name)', 'reg.implements.get(introspection_type_name)', rule='R-ty')],
                       requires=carve,
                       ensures=['r == (type_condition is Some && type_applies(*reg, introspection_type_name@, type_condition->Some_0@))'])
    u.assume('Fields::add_set: only the type-condition expression (E2 fragment) is under contract; its free variables are parameters; the surrounding async collection loop is not verified')
    u.assume('registry.implements holds the interfaces of each object type and MetaType::Union.possible_types the members of each union (established by the derive macros, unverified)')
    u.search_case('container.rs', 'c01_exec')
    return u


UNITS = {'c01_fragment_type_condition': (['C01'], typecond_unit)}
SEARCH = {'c01_fragment_type_condition': ['c01_exec']}
BOUNDED = {'C01': [dict(case='c01_exec', function='Schema::execute on a derive-built schema (objects, interface, union, lists): Fields::add_set, create_value_object / insert_value, remove_skipped_selection, resolve_list, derive-generated resolve_field / collect_all_fields',
                        bound='15 hand-written (query, expected JSON text) pairs: key order, aliases, repeated-key merge, fragments on object / interface / union conditions, nested and named fragments, @skip/@include with literals and variables',
                        why='the executor is async over dyn Future and derive-generated code; only the type-condition expression of add_set is under contract')]}
