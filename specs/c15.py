"""C15 -- values print as GraphQL literals: write_quoted emits a quoted string whose body decodes to the value."""
from vx.unit import Unit, Sub, MacroCall, ReSub, WriteMacro
from vx.rustlex import locate
from specs.c17 import strlit_reveals

F = 'value/src/lib.rs'

BODY = 'final(f).out().subrange(old(f).out().len() as int + 1, final(f).out().len() as int - 1)'


def write_quoted_unit(kf):
    u = Unit('c15_write_quoted', ['C15'], 'write_quoted(s) prints "<body>" with gql_string_decode(body) == s')
    u.kf = kf
    u.prelude('formatter')
    u.prelude('gql_string', tag='spec')
    lits = strlit_reveals(locate(u._read(F), ['fn write_quoted']).body)
    reveals = ' '.join(f'reveal_strlit({l});' for l in lits)
    n0 = 'old(f).out().len()'
    step_proof = '''proof {
    let ghost w = f.out().skip(mid.len() as int);
    assert(f.out().skip(n0 + 1) =~= before + w);
    assert(f.out().take(n0 + 1) =~= mid.take(n0 + 1));
    if gql_unit(w, c) { lemma_decode_append(before, w, c); }
}'''
    u.extract_fn(F, ['fn write_quoted'],
                 sig_rewrites=[ReSub(r"Formatter<'_>", 'Formatter')],
                 rewrites=[WriteMacro(count=1),
                           Sub('for c in s.chars()', 'for c in it: s.chars()', rule='R-iter'),
                           Sub('}?', '}?;', count=1, rule='R-stmt'),
                           Sub("f.write_char('\"')\n}", "let r = f.write_char('\"');\n    r\n}", count=1, rule='R-tail')],
                 ensures=[f'r.is_ok() ==> final(f).out().len() >= {n0} + 2 && final(f).out().take({n0} as int) == old(f).out() '
                          f'&& final(f).out()[{n0} as int] == \'"\' && final(f).out().last() == \'"\'',
                          f'r.is_ok() ==> gql_string_decode({BODY}) == Some(s@)'],
                 loops={0: dict(prop=['gql_string_decode(f.out().skip(n0 + 1)) == Some(s@.take(it.index@ as int))'],
                                aux=['it.history@ =~= s@.take(it.index@ as int)', 'it.index@ <= s@.len()',
                                     'n0 == old(f).out().len()', 'f.out().len() >= n0 + 1', 'f.out().take(n0 + 1) == old(f).out().push(\'"\')'],
                                head='''proof {
    assert(s@.take(it.index@ + 1) =~= s@.take(it.index@ as int).push(c));
    @REVEALS@
}
let ghost before = f.out().skip(n0 + 1);
let ghost mid = f.out();''',
                                after='proof { assert(s@.take(s@.len() as int) =~= s@); }\nlet ghost body_done = f.out().skip(n0 + 1); let ghost pre_close = f.out();')},
                 inserts=[('before', 'for c in it: s.chars()', 'let ghost n0 = old(f).out().len() as int;\nproof { assert(f.out().skip(n0 + 1) =~= Seq::<char>::empty()); assert(s@.take(0) =~= Seq::<char>::empty()); assert(f.out().take(n0 + 1) =~= old(f).out().push(\'"\')); }'),
                          ('after', '}?;', step_proof),
                          ('after', "let r = f.write_char('\"');", '''proof { if r.is_ok() {
    assert(f.out() =~= pre_close.push('"'));
    assert(pre_close.take(n0) =~= pre_close.take(n0 + 1).take(n0));
    assert(old(f).out().push('"').take(n0) =~= old(f).out());
    assert(f.out().take(n0) =~= pre_close.take(n0));
    assert(f.out().subrange(n0 + 1, f.out().len() as int - 1) =~= body_done);
    assert(pre_close.take(n0 + 1)[n0] == '"');
    assert(f.out()[n0] == pre_close[n0]);
} }''')],
                 )
    u.assume('core::fmt::Formatter modelled as an append-only sink that may fail (R-ty); `{:04x}` / `{:04}` rendering of u32 assumed (core::fmt)')
    u.search_case('fn write_quoted', 'c15_quoted')
    return u


UNITS = {'c15_write_quoted': (['C15'], write_quoted_unit)}
SEARCH = {'c15_write_quoted': ['c15_quoted']}
BOUNDED = {'C15': [dict(case='c15_values', function='value/src/lib.rs Display for ConstValue (write_list, write_object, numbers, enums), value/src/value_serde.rs + serializer.rs + deserializer.rs, read back by the real parser / serde_json',
                        bound='20 leaf values (integer boundaries incl. > i64::MAX, floats, control and non-BMP characters, enums) + 60 seeded composite values (lists / objects nested up to 3 levels): print->parse and two JSON round trips',
                        why='Display of numbers defers to serde_json; serde visitor impls are trait plumbing over third-party traits; the re-parse half is the pest parser. Only write_quoted is under contract')]}


# ----------------------------------------------------------------------------------------------------------------------
# JSON -> value: the leaf callbacks of the serde Visitor (value_serde.rs) keep the scalar they are given
from specs.common import value_types  # noqa: E402

VS = 'value/src/value_serde.rs'


def serde_leaves_unit(kf):
    u = Unit('c15_serde_leaves', ['C15'], 'the serde visitor turns every JSON scalar into the GraphQL value that denotes it (integers exactly, u64 not through i64)')
    u.kf = kf
    value_types(u)
    for ty, impl in [('ConstValue', "impl<'de> Deserialize<'de> for ConstValue"), ('Value', "impl<'de> Deserialize<'de> for Value")]:
        path = [impl, 'fn deserialize', "impl<'de> Visitor<'de> for ValueVisitor"]
        sig = lambda argty: [ReSub(r'<E>\(self, ', '('), ReSub(r'Result<Self::Value, E>', f'Result<{ty}, ()>'), ReSub(r'where\s+E: DeError,?', '')]
        lab = lambda m: f'{VS}::{impl}::ValueVisitor::{m}'
        u.extract_fn(VS, path + ['fn visit_bool'], name=f'{ty}_visit_bool', label=lab('visit_bool'), sig_rewrites=sig('bool'),
                     ensures=[f'r == Ok::<{ty}, ()>({ty}::Boolean(v))'])
        u.extract_fn(VS, path + ['fn visit_i64'], name=f'{ty}_visit_i64', label=lab('visit_i64'), sig_rewrites=sig('i64'),
                     rewrites=[Sub('v.into()', 'Number::from_i64(v)', rule='R-from')],
                     ensures=['r is Ok && r->Ok_0 is Number && r->Ok_0->Number_0.is_int() && r->Ok_0->Number_0.int_val() == v'])
        u.extract_fn(VS, path + ['fn visit_u64'], name=f'{ty}_visit_u64', label=lab('visit_u64'), sig_rewrites=sig('u64'),
                     rewrites=[Sub('v.into()', 'Number::from_u64(v)', rule='R-from')],
                     ensures=['r is Ok && r->Ok_0 is Number && r->Ok_0->Number_0.is_int() && r->Ok_0->Number_0.int_val() == v   // the full u64 range, not wrapped through i64'])
        u.extract_fn(VS, path + ['fn visit_string'], name=f'{ty}_visit_string', label=lab('visit_string'), sig_rewrites=sig('String'),
                     ensures=[f'r is Ok && r->Ok_0 is String && r->Ok_0->String_0@ == v@'])
        u.extract_fn(VS, path + ['fn visit_none'], name=f'{ty}_visit_none', label=lab('visit_none'), sig_rewrites=[ReSub(r'<E>\(self\)', '()'), ReSub(r'Result<Self::Value, E>', f'Result<{ty}, ()>'), ReSub(r'where\s+E: DeError,?', '')],
                     ensures=[f'r == Ok::<{ty}, ()>({ty}::Null)'])
        u.extract_fn(VS, path + ['fn visit_unit'], name=f'{ty}_visit_unit', label=lab('visit_unit'), sig_rewrites=[ReSub(r'<E>\(self\)', '()'), ReSub(r'Result<Self::Value, E>', f'Result<{ty}, ()>'), ReSub(r'where\s+E: DeError,?', '')],
                     ensures=[f'r == Ok::<{ty}, ()>({ty}::Null)'])
    u.assume('R-from: `v.into()` for i64 / u64 is serde_json Number::from (integer preserving, assumed); the error type parameter E is instantiated with ()')
    u.assume('visit_f64 / visit_seq / visit_map / visit_bytes and the Serialize impls are serde trait plumbing (not under contract): bounded c15_values')
    u.search_case('value_serde.rs', 'c15_values')
    return u


UNITS['c15_serde_leaves'] = (['C15'], serde_leaves_unit)
SEARCH['c15_serde_leaves'] = ['c15_values']
