"""C15 -- values print as GraphQL literals: write_quoted emits a quoted string whose body decodes to the value."""
from vx.unit import Unit, Sub, MacroCall, ReSub, WriteMacro
from vx.rustlex import locate
from specs.c17 import strlit_reveals

F = 'value/src/lib.rs'

BODY = 'final(f).out().subrange(old(f).out().len() as int + 1, final(f).out().len() as int - 1)'


def write_quoted_unit(kf):
    u = Unit('c15_write_quoted', ['C15'], 'write_quoted(s) prints "<body>" with gql_string_decode(body) == s')
    u.kf = kf
    u.prelude('formatter')
    u.prelude('gql_string', tag='spec')
    lits = strlit_reveals(locate(u._read(F), ['fn write_quoted']).body)
    reveals = ' '.join(f'reveal_strlit({l});' for l in lits)
    n0 = 'old(f).out().len()'
    step_proof = '''proof {
    let ghost w = f.out().skip(mid.len() as int);
    assert(f.out().skip(n0 + 1) =~= before + w);
    assert(f.out().take(n0 + 1) =~= mid.take(n0 + 1));
    if gql_unit(w, c) { lemma_decode_append(before, w, c); }
}'''
    u.extract_fn(F, ['fn write_quoted'],
                 sig_rewrites=[ReSub(r"Formatter<'_>", 'Formatter')],
                 rewrites=[WriteMacro(count=1),
                           Sub('for c in s.chars()', 'for c in it: s.chars()', rule='R-iter'),
                           Sub('}?', '}?;', count=1, rule='R-stmt'),
                           Sub("f.write_char('\"')\n}", "let r = f.write_char('\"');\n    r\n}", count=1, rule='R-tail')],
                 ensures=[f'r.is_ok() ==> final(f).out().len() >= {n0} + 2 && final(f).out().take({n0} as int) == old(f).out() '
                          f'&& final(f).out()[{n0} as int] == \'"\' && final(f).out().last() == \'"\'',
                          f'r.is_ok() ==> gql_string_decode({BODY}) == Some(s@)'],
                 loops={0: dict(prop=['gql_string_decode(f.out().skip(n0 + 1)) == Some(s@.take(it.index@ as int))'],
                                aux=['it.history@ =~= s@.take(it.index@ as int)', 'it.index@ <= s@.len()',
                                     'n0 == old(f).out().len()', 'f.out().len() >= n0 + 1', 'f.out().take(n0 + 1) == old(f).out().push(\'"\')'],
                                head='''proof {
    assert(s@.take(it.index@ + 1) =~= s@.take(it.index@ as int).push(c));
    @REVEALS@
}
let ghost before = f.out().skip(n0 + 1);
let ghost mid = f.out();''',
                                after='proof { assert(s@.take(s@.len() as int) =~= s@); }\nlet ghost body_done = f.out().skip(n0 + 1); let ghost pre_close = f.out();')},
                 inserts=[('before', 'for c in it: s.chars()', 'let ghost n0 = old(f).out().len() as int;\nproof { assert(f.out().skip(n0 + 1) =~= Seq::<char>::empty()); assert(s@.take(0) =~= Seq::<char>::empty()); assert(f.out().take(n0 + 1) =~= old(f).out().push(\'"\')); }'),
                          ('after', '}?;', step_proof),
                          ('after', "let r = f.write_char('\"');", '''proof { if r.is_ok() {
    assert(f.out() =~= pre_close.push('"'));
    assert(pre_close.take(n0) =~= pre_close.take(n0 + 1).take(n0));
    assert(old(f).out().push('"').take(n0) =~= old(f).out());
    assert(f.out().take(n0) =~= pre_close.take(n0));
    assert(f.out().subrange(n0 + 1, f.out().len() as int - 1) =~= body_done);
    assert(pre_close.take(n0 + 1)[n0] == '"');
    assert(f.out()[n0] == pre_close[n0]);
} }''')],
                 )
    u.assume('core::fmt::Formatter modelled as an append-only sink that may fail (R-ty); `{:04x}` / `{:04}` rendering of u32 assumed (core::fmt)')
    u.search_case('fn write_quoted', 'c15_quoted')
    return u


UNITS = {'c15_write_quoted': (['C15'], write_quoted_unit)}
SEARCH = {'c15_write_quoted': ['c15_quoted']}
BOUNDED = {'C15': [dict(case='c15_values', function='value/src/lib.rs Display for ConstValue (write_list, write_object, numbers, enums), value/src/value_serde.rs + serializer.rs + deserializer.rs, read back by the real parser / serde_json',
                        bound='20 leaf values (integer boundaries incl. > i64::MAX, floats, control and non-BMP characters, enums) + 60 seeded composite values (lists / objects nested up to 3 levels): print->parse and two JSON round trips',
                        why='Display of numbers defers to serde_json; serde visitor impls are trait plumbing over third-party traits; the re-parse half is the pest parser. Only write_quoted is under contract')]}
