"""C04 -- mutation root fields run one at a time in order: the serial branch of resolve_container_inner and the operation dispatch of execute_once."""
from vx.unit import Unit, Sub, ReSub, AwaitErase, ReplaceRange

F = 'src/resolver_utils/container.rs'
S = 'src/schema.rs'

SHIMS = r'''
// trusted shims (R-await): a field future is a thunk that runs to completion at its await point and appends its id to a ghost
// trace; Rust futures are lazy (nothing runs before the first poll) -- assumed. The parallel branch (try_join_all) is left unspecified.
pub struct ServerError { pub id: u64 }
pub type ServerResult<T> = Result<T, ServerError>;
pub struct Name { pub id: u64 }
pub struct Value { pub id: u64 }
pub struct Trace { pub ran: Vec<u64> }
pub struct Fut { pub id: u64 }
pub uninterp spec fn fut_result(id: u64) -> ServerResult<(Name, Value)>;
impl Fut {
    #[verifier::external_body]
    pub fn run(self, tr: &mut Trace) -> (r: ServerResult<(Name, Value)>) ensures r == fut_result(self.id), final(tr).ran@ == old(tr).ran@.push(self.id) { unimplemented!() }
}
pub struct Fields(pub Vec<Fut>);
pub struct Root { pub id: u64 }
pub struct ContextSelectionSet { pub id: u64 }
pub uninterp spec fn collected(ctx: ContextSelectionSet, root: Root) -> ServerResult<Seq<u64>>;
impl Fields {
    // Fields::add_set builds one future per collected field occurrence WITHOUT running any (lazy): abstract here
    #[verifier::external_body]
    pub fn add_set(&mut self, ctx: &ContextSelectionSet, root: &Root) -> (r: ServerResult<()>)
        requires old(self).0@.len() == 0
        ensures match r { Ok(_) => collected(*ctx, *root) is Ok && final(self).0@.map_values(|f: Fut| f.id) == collected(*ctx, *root)->Ok_0, Err(e) => collected(*ctx, *root) == Err::<Seq<u64>, ServerError>(e) }
    { unimplemented!() }
}
#[verifier::external_body]
pub fn join_all(fs: Vec<Fut>, tr: &mut Trace) -> (r: ServerResult<Vec<(Name, Value)>>) { unimplemented!() }     // futures_util::future::try_join_all: any interleaving
pub uninterp spec fn spec_value_object(v: Seq<(Name, Value)>) -> Value;
#[verifier::external_body]
pub fn create_value_object(values: Vec<(Name, Value)>) -> (r: Value) ensures r == spec_value_object(values@) { unimplemented!() }
'''

SPEC = r'''
// results of running the first k thunks, in order
pub open spec fn run_results(ids: Seq<u64>, k: nat) -> Seq<(Name, Value)> decreases k {
    if k == 0 { Seq::empty() } else { run_results(ids, (k - 1) as nat).push(fut_result(ids[k - 1])->Ok_0) }
}
pub open spec fn all_ok(ids: Seq<u64>, k: nat) -> bool { forall|i: int| 0 <= i < k ==> #[trigger] fut_result(ids[i]) is Ok }
'''


def serial_unit(kf):
    u = Unit('c04_serial_container', ['C04'], 'with parallel == false the field thunks run one at a time, in collection order, stopping at the first error')
    u.kf = kf
    u.trusted(SHIMS, 'future / trace shims (await-erased)')
    u.spec(SPEC, 'serial run spec')
    u.extract_fn(F, ['fn resolve_container_inner'],
                 sig_rewrites=[AwaitErase(), ReSub(r"<'a, T: ContainerType \+ \?Sized>", ''), ReSub(r"&ContextSelectionSet<'a>", '&ContextSelectionSet'), ReSub(r"root: &'a T", 'root: &Root'),
                               ReSub(r'parallel: bool,', 'parallel: bool, tr: &mut Trace,')],
                 rewrites=[Sub('futures_util::future::try_join_all(fields.0).await?', 'join_all(fields.0, tr)?', rule='R-await'),
                           Sub('field.await?', 'field.run(tr)?', rule='R-await'),
                           Sub('for field in fields.0', 'for field in it: fields.0', rule='R-iter')],
                 ensures=['''!parallel ==> (match collected(*ctx, *root) {
            Err(e) => r == Err::<Value, ServerError>(e) && final(tr).ran@ == old(tr).ran@,
            Ok(ids) => (exists|k: nat| k <= ids.len() && all_ok(ids, k) && final(tr).ran@ == old(tr).ran@ + ids.take(if k < ids.len() { k + 1 } else { k } as int)
                          && (if k < ids.len() { fut_result(ids[k as int]) is Err && r == Err::<Value, ServerError>(fut_result(ids[k as int])->Err_0) }
                              else { r == Ok::<Value, ServerError>(spec_value_object(run_results(ids, ids.len()))) })),
        })'''],
                 loops={0: dict(prop=['all_ok(ids, it.index@ as nat)',
                                      'tr.ran@ == old(tr).ran@ + ids.take(it.index@ as int)',
                                      'results@ == run_results(ids, it.index@ as nat)'],
                                aux=['it.index@ <= ids.len()'],
                                head='''proof {
    assert(field.id == ids[it.index@ as int]);
    assert(ids.take(it.index@ + 1) =~= ids.take(it.index@ as int).push(ids[it.index@ as int]));
}''',
                                after='proof { assert(ids.take(ids.len() as int) =~= ids); }')},
                 inserts=[('before', 'let res = if parallel', 'let ghost ids = fields.0@.map_values(|f: Fut| f.id);'),
                          ('after', 'results.push(field.run(tr)?);', 'proof { assert(tr.ran@ =~= old(tr).ran@ + ids.take(it.index@ + 1)); }')],
                 attrs=['#[verifier::loop_isolation(false)]'])
    post = '''(match collected(*ctx, *root) {
            Err(e) => r == Err::<Value, ServerError>(e) && final(tr).ran@ == old(tr).ran@,
            Ok(ids) => (exists|k: nat| k <= ids.len() && all_ok(ids, k) && final(tr).ran@ == old(tr).ran@ + ids.take(if k < ids.len() { k + 1 } else { k } as int)
                          && (if k < ids.len() { fut_result(ids[k as int]) is Err && r == Err::<Value, ServerError>(fut_result(ids[k as int])->Err_0) }
                              else { r == Ok::<Value, ServerError>(spec_value_object(run_results(ids, ids.len()))) })),
        })'''
    u.extract_fn(F, ['fn resolve_container_serial'],
                 sig_rewrites=[AwaitErase(), ReSub(r"<'a, T: ContainerType \+ \?Sized>", ''), ReSub(r"&ContextSelectionSet<'a>", '&ContextSelectionSet'), ReSub(r"root: &'a T,", 'root: &Root, tr: &mut Trace,')],
                 rewrites=[AwaitErase(), Sub('resolve_container_inner(ctx, root, false)', 'resolve_container_inner(ctx, root, false, tr)', rule='R-await')],
                 ensures=[post + '   // the serial entry point really selects the serial branch'])
    u.trusted('''
pub enum Act { ParallelQuery, SerialEmptyMutation, SerialMutation, ParallelMutation }
pub uninterp spec fn act_result(a: Act) -> ServerResult<Value>;
#[verifier::external_body]
pub fn act(a: Act) -> (r: ServerResult<Value>) ensures r == act_result(a) { unimplemented!() }
pub fn verif_server_error() -> ServerError { ServerError { id: 0 } }
''', 'operation payloads as trace events (R-payload)')
    u.extract_type('parser/src/types/mod.rs', ['enum OperationType'], keep_derives=['Clone', 'Copy', 'PartialEq', 'Eq'], structural=True)
    u.extract_type('src/schema.rs', ['enum IntrospectionMode'], keep_derives=['Copy', 'Clone', 'PartialEq', 'Eq'], structural=True)
    u.extract_fragment(S, ['impl<Query, Mutation, Subscription> Schema<Query, Mutation, Subscription>', 'fn execute_once'],
                       'let res = match &env.operation.node.ty {', 'OperationType::Subscription => Err(ServerError::new( "Subscriptions are not supported on this transport.", None, )), };',
                       name='dispatch_operation',
                       header='fn dispatch_operation(ty: &OperationType, schema_mode: IntrospectionMode, req_mode: IntrospectionMode) -> (res: ServerResult<Value>)',
                       footer='    res\n}',
                       rewrites=[Sub('match &env.operation.node.ty {', 'match ty {', rule='R-ty'),
                                 Sub('resolve_container(&ctx, &self.0.query).await', 'act(Act::ParallelQuery)', rule='R-payload'),
                                 Sub('resolve_container_serial(&ctx, &EmptyMutation).await', 'act(Act::SerialEmptyMutation)', rule='R-payload'),
                                 Sub('resolve_container_serial(&ctx, &self.0.mutation).await', 'act(Act::SerialMutation)', rule='R-payload'),
                                 Sub('resolve_container(&ctx, &self.0.mutation).await', 'act(Act::ParallelMutation)', count='*', rule='R-payload'),
                                 Sub('self.0.env.registry.introspection_mode', 'schema_mode', rule='R-ty'), Sub('env.introspection_mode', 'req_mode', rule='R-ty'),
                                 Sub('Err(ServerError::new( "Subscriptions are not supported on this transport.", None, ))', 'Err(verif_server_error())', rule='R-msg')],
                       ensures=['*ty is Mutation ==> res == (if schema_mode is IntrospectionOnly || req_mode is IntrospectionOnly { act_result(Act::SerialEmptyMutation) } else { act_result(Act::SerialMutation) })   // a mutation is only ever dispatched to the serial entry point',
                                '*ty is Query ==> res == act_result(Act::ParallelQuery)',
                                '*ty is Subscription ==> res is Err'])
    u.assume('execute_once: only the operation dispatch (E2 fragment, payloads as trace events) is under contract')
    u.assume('R-await: each field future is a thunk run to completion at its await point; laziness of Rust futures assumed; the parallel branch is unspecified (any interleaving)')
    u.assume('"a merged response key runs its resolver once" is NOT covered: add_set pushes one future per occurrence inside async blocks')
    return u


UNITS = {'c04_serial_container': (['C04'], serial_unit)}
SEARCH = {'c04_serial_container': ['c04_serial']}
BOUNDED = {'C04': [dict(case='c04_serial', function='Schema::execute of mutation operations (execute_once dispatch, resolve_container_serial, Fields::add_set) observed through an event log with yielding resolvers',
                        bound='7 mutation documents (order permutations, aliases, nested selections, a failing field, an inline fragment) on a busy-polling single-threaded executor',
                        why='ties the await-erased kernel to the real futures: resolvers really yield (Pending) twice, so a parallel join would interleave their events'),
                   dict(case='c04_merge', function='src/resolver_utils/container.rs::{create_value_object, insert_value} through Schema::execute (sub-selections of fields sharing a response key are merged)',
                        bound='6 hand-written (query, expected JSON text) pairs: repeated keys on objects, lists of objects and nested lists, through aliases and fragments',
                        why='insert_value recurses through `IndexMap::get_mut` / `Vec::get_mut` borrows (&mut into a map entry, then into a list slot): returning &mut from a shim is outside the installed Verus; Kani diverges on Value drop glue (measured)')]}
