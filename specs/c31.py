"""C31 -- persisted queries execute only the document registered under the hash (prepare_request, await-erased)."""
from vx.unit import Unit, Sub, ReSub, CallSub, MacroCall, AwaitErase

F = 'src/extensions/apollo_persisted_queries.rs'

SHIMS = r'''
// trusted shims (R-await, R-interior, R-msg). The continuation `next.run` is modelled as the identity, so the function's
// result IS the request handed to the rest of the pipeline.
pub struct ExecutableDocument { pub id: u64 }                   // opaque parsed document
impl ExecutableDocument { pub fn clone(&self) -> (r: ExecutableDocument) ensures r == *self { ExecutableDocument { id: self.id } } }
pub struct ServerError { pub k: u8 }
pub type ServerResult<T> = Result<T, ServerError>;
pub fn verif_server_error() -> ServerError { ServerError { k: 0 } }
pub struct ExtValue { pub id: u64 }
#[verifier::external_body]
pub struct ExtMap { _p: u8 }                                   // HashMap<String, Value> of request extensions
impl ExtMap {
    pub uninterp spec fn pq(&self) -> Option<ExtValue>;         // the "persistedQuery" entry
    #[verifier::external_body]
    pub fn remove(&mut self, k: &str) -> (r: Option<ExtValue>) requires k@ == "persistedQuery"@ ensures r == old(self).pq(), final(self).pq() is None { unimplemented!() }
}
pub struct Request { pub query: String, pub extensions: ExtMap, pub parsed_query: Option<ExecutableDocument>, pub rest: u64 }
pub uninterp spec fn spec_from_value(v: ExtValue) -> Option<PersistedQuery>;
#[verifier::external_body]
pub fn from_value_pq(v: ExtValue) -> (r: ServerResult<PersistedQuery>) ensures match r { Ok(p) => spec_from_value(v) == Some(p), Err(_) => spec_from_value(v) is None } { unimplemented!() }
pub uninterp spec fn sha256_hex(q: Seq<char>) -> Seq<char>;
#[verifier::external_body]
pub fn sha256_hex_of(q: &str) -> (r: String) ensures r@ == sha256_hex(q@) { unimplemented!() }
pub uninterp spec fn spec_parse(q: Seq<char>) -> Option<ExecutableDocument>;
#[verifier::external_body]
pub fn parse_query(q: &str) -> (r: ServerResult<ExecutableDocument>) ensures match r { Ok(d) => spec_parse(q@) == Some(d), Err(_) => spec_parse(q@) is None } { unimplemented!() }
// CacheStorage (assumed contract of any storage, incl. LruCacheStorage): a map with eviction -- get returns what was last set
// under that key or nothing; set stores the pair and may drop other entries, never invents or alters one
#[verifier::external_body]
pub struct Storage { _p: u8 }
impl Storage {
    pub uninterp spec fn view(&self) -> Map<Seq<char>, ExecutableDocument>;
    #[verifier::external_body]
    pub fn get(&mut self, key: String) -> (r: Option<ExecutableDocument>)
        ensures final(self).view() == old(self).view(), r is Some ==> old(self).view().contains_key(key@) && old(self).view()[key@] == r->Some_0 { unimplemented!() }
    #[verifier::external_body]
    pub fn set(&mut self, key: String, query: ExecutableDocument)
        ensures forall|k: Seq<char>| #[trigger] final(self).view().contains_key(k) ==> (k == key@ && final(self).view()[k] == query) || (old(self).view().contains_key(k) && final(self).view()[k] == old(self).view()[k]) { unimplemented!() }
}
pub struct ExtensionContext { pub _p: u8 }
pub struct NextPrepareRequest { pub _p: u8 }
impl NextPrepareRequest { pub fn run(self, ctx: &ExtensionContext, request: Request) -> (r: ServerResult<Request>) ensures r == Ok::<Request, ServerError>(request) { Ok(request) } }
pub struct ApolloPersistedQueriesExtension { pub storage: Storage }
'''

SPEC = r'''
// every stored document is the parse of some text with that hash
pub open spec fn storage_sound(m: Map<Seq<char>, ExecutableDocument>) -> bool {
    forall|h: Seq<char>| #[trigger] m.contains_key(h) ==> exists|q: Seq<char>| sha256_hex(q) == h && spec_parse(q) == Some(m[h])
}
'''


def prepare_unit(kf):
    u = Unit('c31_prepare_request', ['C31'], 'the document handed on for a persisted-query request is the stored one for that hash, or the parse of a query whose hash matches')
    u.kf = kf
    u.prelude('string_eq')
    u.extract_type(F, ['struct PersistedQuery'])
    u.trusted(SHIMS, 'persisted-queries shims (await-erased)')
    u.spec(SPEC, 'storage soundness invariant')
    I = 'impl<T: CacheStorage> Extension for ApolloPersistedQueriesExtension<T>'
    H = 'spec_from_value(old(request).extensions.pq()->Some_0)->Some_0.sha256_hash@' if False else None
    u.extract_fn(F, [I, 'fn prepare_request'], wrap_impl='ApolloPersistedQueriesExtension',
                 sig_rewrites=[AwaitErase(), ReSub(r'&self', '&mut self'), ReSub(r"ExtensionContext<'_>", 'ExtensionContext'), ReSub(r"NextPrepareRequest<'_>", 'NextPrepareRequest')],
                 rewrites=[AwaitErase(), CallSub('ServerError::new', 'verif_server_error()', rule='R-msg'),
                           Sub('from_value(value).map_err(|_| { verif_server_error() })', 'from_value_pq(value)', rule='R-closure'),
                           MacroCall('format', 'sha256_hex_of(request.query.as_str())', rule='R-ty', count=1),
                           Sub('async_graphql_parser::parse_query', 'parse_query', rule='R-ty'),
                           Sub('persisted_query.sha256_hash != sha256_hash', '!(persisted_query.sha256_hash == sha256_hash)', rule='R-ty'),
                           Sub('self.storage.set(sha256_hash, doc.clone());', 'let key = sha256_hash; let stored = doc.clone(); proof { lemma_set_sound(self.storage.view(), key@, stored, request.query@); } self.storage.set(key, stored);', rule='R-stmt')],
                 head_proof='proof { string_eq_axiom(); @REVEALS@ }',
                 ensures=['''match r {
            Ok(out) => match request.extensions.pq() {
                None => out.query@ == request.query@ && out.parsed_query == request.parsed_query && final(self).storage.view() == old(self).storage.view(),
                Some(v) => spec_from_value(v) is Some && spec_from_value(v)->Some_0.version == 1 && out.parsed_query is Some && ({
                    let h = spec_from_value(v)->Some_0.sha256_hash@; let d = out.parsed_query->Some_0;
                    (request.query@.len() == 0 && old(self).storage.view().contains_key(h) && old(self).storage.view()[h] == d)
                    || (request.query@.len() > 0 && sha256_hex(request.query@) == h && spec_parse(request.query@) == Some(d))
                }),
            },
            Err(_) => final(self).storage.view() == old(self).storage.view(),   // a rejected request never changes the store
        }''',
                          'storage_sound(old(self).storage.view()) ==> storage_sound(final(self).storage.view())   // holds after every history, by induction over requests'])
    u.spec('''
pub proof fn lemma_set_sound(m: Map<Seq<char>, ExecutableDocument>, h: Seq<char>, d: ExecutableDocument, q: Seq<char>)
    requires sha256_hex(q) == h, spec_parse(q) == Some(d)
    ensures forall|m2: Map<Seq<char>, ExecutableDocument>| storage_sound(m) && (forall|k: Seq<char>| #[trigger] m2.contains_key(k) ==> (k == h && m2[k] == d) || (m.contains_key(k) && m2[k] == m[k])) ==> storage_sound(m2)
{
    assert forall|m2: Map<Seq<char>, ExecutableDocument>| storage_sound(m) && (forall|k: Seq<char>| #[trigger] m2.contains_key(k) ==> (k == h && m2[k] == d) || (m.contains_key(k) && m2[k] == m[k])) implies storage_sound(m2) by {
        assert forall|k: Seq<char>| #[trigger] m2.contains_key(k) implies exists|qq: Seq<char>| sha256_hex(qq) == k && spec_parse(qq) == Some(m2[k]) by {
            if k == h && m2[k] == d { assert(sha256_hex(q) == k && spec_parse(q) == Some(m2[k])); } else { assert(m.contains_key(k)); }
        }
    }
}''', 'set preserves soundness')
    u.assume('R-await; next.run modelled as the identity continuation; CacheStorage modelled as a map with eviction (&self interior mutability as &mut); SHA-256 and parse_query uninterpreted')
    u.assume('that execute uses parsed_query when present (schema.rs::prepare_request, async) is not covered')
    u.search_case('apollo_persisted_queries.rs', 'c31_apq')
    return u


UNITS = {'c31_prepare_request': (['C31'], prepare_unit)}
SEARCH = {'c31_prepare_request': ['c31_apq']}
BOUNDED = {'C31': [dict(case='c31_apq', function='ApolloPersistedQueries + LruCacheStorage through Schema::execute (real SHA-256, real parser, real scc::HashCache)',
                        bound='45 request histories (5 fixed + 40 seeded, <= 8 requests each) over 4 documents: register, look up, wrong hash, unknown hash, version != 1; compared with a reference store and an independent SHA-256',
                        why='the kernel abstracts SHA-256, the parser, the storage and the continuation; the bounded run ties them to the real components')]}


# ----------------------------------------------------------------------------------------------------------------------
# LruCacheStorage: get / set are plain lookups / insertions on the underlying bounded cache (await-erased)
from vx.unit import ClosureMatch  # noqa: E402

STORAGE_SHIMS = r'''
// scc::HashCache<String, ExecutableDocument>: a bounded map -- a stored entry may be evicted, never altered (assumed contract on a dependency)
pub struct ExecutableDocument { pub id: u64 }
impl Clone for ExecutableDocument { fn clone(&self) -> (r: Self) ensures r == *self { ExecutableDocument { id: self.id } } }
pub struct Entry { pub v: ExecutableDocument }
impl Entry { pub fn get(&self) -> (r: &ExecutableDocument) ensures *r == self.v { &self.v } }
#[verifier::external_body]
pub struct HashCache { _p: u8 }
impl HashCache {
    pub uninterp spec fn view(&self) -> Map<Seq<char>, ExecutableDocument>;
    // interior mutability (sharded locks): the cache after a put is some map in which the new entry is present and every other entry is an old one
    pub uninterp spec fn after_put(&self, k: Seq<char>, v: ExecutableDocument) -> Map<Seq<char>, ExecutableDocument>;
    #[verifier::external_body]
    pub fn get_async(&self, k: &String) -> (r: Option<Entry>) ensures match r { Some(e) => self.view().contains_key(k@) && e.v == self.view()[k@], None => !self.view().contains_key(k@) } { unimplemented!() }
    #[verifier::external_body]
    pub fn put_async(&self, k: String, v: ExecutableDocument) -> (r: Result<Option<(String, ExecutableDocument)>, (String, ExecutableDocument)>) { unimplemented!() }
}
pub struct LruCacheStorage(pub HashCache);
'''


def storage_unit(kf):
    u = Unit('c31_lru_storage', ['C31'], 'LruCacheStorage::get returns exactly what the underlying cache holds under the hash (a clone), or nothing')
    u.kf = kf
    u.trusted(STORAGE_SHIMS, 'scc::HashCache shim')
    u.extract_fn(F, ['impl CacheStorage for LruCacheStorage', 'fn get'], wrap_impl='LruCacheStorage',
                 sig_rewrites=[AwaitErase()], rewrites=[AwaitErase(), ClosureMatch('opt.map')],
                 ensures=['match r { Some(d) => self.0.view().contains_key(key@) && d == self.0.view()[key@], None => !self.0.view().contains_key(key@) }   // never a document stored under another hash'])
    u.assume('scc::HashCache modelled as a map whose entries may be evicted but never altered (assumed contract on a dependency); `set` is a bare `put_async` (no contract of its own: the map after a put is the dependency\'s business)')
    u.search_case('apollo_persisted_queries.rs', 'c31_apq')
    return u


UNITS['c31_lru_storage'] = (['C31'], storage_unit)
SEARCH['c31_lru_storage'] = ['c31_apq']
