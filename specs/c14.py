"""C14 -- source positions: PositionCalculator::step against the line/column semantics of the property."""
from vx.unit import Unit, Sub, MacroCall, ReSub

F = 'parser/src/pos.rs'

SHIMS = r'''
// ---- trusted shims: pest::iterators::Pair and byte slicing of str (Verus has no byte-level str reasoning)
pub struct Pair { pub start: usize }
// number of scalar values contained in the first `nbytes` bytes of `s` (defined when nbytes is a char boundary)
pub uninterp spec fn chars_in_bytes(s: Seq<char>, nbytes: int) -> int;
pub uninterp spec fn is_boundary(s: Seq<char>, nbytes: int) -> bool;
pub broadcast axiom fn axiom_chars_in_bytes(s: Seq<char>, n: int)
    requires is_boundary(s, n)
    ensures 0 <= #[trigger] chars_in_bytes(s, n) <= s.len();
#[verifier::external_body]
pub fn pair_start(pair: &Pair) -> (r: usize) ensures r == pair.start { unimplemented!() }
#[verifier::external_body]
pub fn str_prefix<'a>(s: &'a str, n: usize) -> (r: &'a str)
    requires is_boundary(s@, n as int)      // otherwise `&s[..n]` panics
    ensures r@ == s@.take(chars_in_bytes(s@, n as int))
{ unimplemented!() }
#[verifier::external_body]
pub fn str_suffix<'a>(s: &'a str, n: usize) -> (r: &'a str)
    requires is_boundary(s@, n as int)
    ensures r@ == s@.skip(chars_in_bytes(s@, n as int))
{ unimplemented!() }
pub fn verif_debug_assert(c: bool) requires c {}
'''

SPEC = r'''
// ---- the property's position semantics, on the text consumed so far:
// "\n", "\r\n" and a lone "\r" each end a line; columns count scalar values; both are 1-based.
pub struct LC { pub line: int, pub col: int, pub cr: bool }   // cr: the last consumed char was '\r'
pub open spec fn adv(st: LC, c: char) -> LC {
    if c == '\r' { LC { line: st.line + 1, col: 1, cr: true } }
    else if c == '\n' { LC { line: if st.cr { st.line } else { st.line + 1 }, col: 1, cr: false } }   // the LF of a CRLF was counted at its CR
    else { LC { line: st.line, col: st.col + 1, cr: false } }
}
pub open spec fn run(st: LC, s: Seq<char>) -> LC decreases s.len() {
    if s.len() == 0 { st } else { adv(run(st, s.drop_last()), s.last()) }
}
pub open spec fn start_lc() -> LC { LC { line: 1, col: 1, cr: false } }
spec fn lc_of(pc: PositionCalculator) -> LC { LC { line: pc.line as int, col: pc.column as int, cr: pc.after_cr } }

// history lemma: positions compose over successive steps, so after any number of steps the calculator
// holds run(start, <all text consumed>) -- no bound on the number of steps
pub proof fn lemma_run_concat(st: LC, a: Seq<char>, b: Seq<char>)
    ensures run(st, a + b) == run(run(st, a), b)
    decreases b.len()
{
    if b.len() == 0 {
        assert(a + b =~= a);
    } else {
        assert((a + b).drop_last() =~= a + b.drop_last());
        assert((a + b).last() == b.last());
        lemma_run_concat(st, a, b.drop_last());
    }
}
// sanity lemmas pinning the semantics to the property statement (would fail for a wrong `adv`)
pub proof fn lemma_examples()
    ensures
        run(start_lc(), seq!['a', '\n', 'b']).line == 2 && run(start_lc(), seq!['a', '\n', 'b']).col == 2,
        run(start_lc(), seq!['\r', '\n', 'b']).line == 2,
        run(start_lc(), seq!['\r', 'b']).line == 2 && run(start_lc(), seq!['\r', 'b']).col == 2,
        run(start_lc(), seq!['\r', '\r', '\n', '\n']).line == 4,
{
    reveal_with_fuel(run, 6);
    let s1 = seq!['a', '\n', 'b']; assert(s1.drop_last() =~= seq!['a', '\n']); assert(s1.drop_last().drop_last() =~= seq!['a']); assert(seq!['a'].drop_last() =~= Seq::<char>::empty());
    let s2 = seq!['\r', '\n', 'b']; assert(s2.drop_last() =~= seq!['\r', '\n']); assert(s2.drop_last().drop_last() =~= seq!['\r']); assert(seq!['\r'].drop_last() =~= Seq::<char>::empty());
    let s3 = seq!['\r', 'b']; assert(s3.drop_last() =~= seq!['\r']);
    let s4 = seq!['\r', '\r', '\n', '\n']; assert(s4.drop_last() =~= seq!['\r', '\r', '\n']); assert(s4.drop_last().drop_last() =~= seq!['\r', '\r']); assert(seq!['\r', '\r'].drop_last() =~= seq!['\r']);
}
'''


def step_unit(kf):
    u = Unit('c14_step', ['C14'], 'PositionCalculator::step == line/column semantics of the consumed text')
    u.kf = kf
    u.extract_type(F, ['struct Pos'])
    u.extract_type(F, ['struct PositionCalculator'])
    u.prelude('char_specs')
    u.trusted(SHIMS, 'pest Pair / str byte slicing shims')
    u.spec(SPEC, 'line/column semantics')
    u.extract_fn(F, ["impl<'a> PositionCalculator<'a>", 'fn new'], wrap_impl="<'a> PositionCalculator<'a>",
                 rewrites=[Sub('Self {', 'PositionCalculator {', rule='R-self')],
                 ensures=['lc_of(r) == start_lc()', 'r.pos == 0', 'r.input@ == input@'])
    prefix = 'old(self).input@.take(chars_in_bytes(old(self).input@, pair.start - old(self).pos))'
    u.extract_fn(F, ["impl<'a> PositionCalculator<'a>", 'fn step'], wrap_impl="<'a> PositionCalculator<'a>",
                 sig_rewrites=[ReSub(r'<R: RuleType>', ''), ReSub(r'&Pair<R>', '&Pair')],
                 rewrites=[Sub('pair.as_span().start()', 'pair_start(pair)', rule='R-ty'),
                           MacroCall('debug_assert', 'verif_debug_assert(pos >= self.pos)', rule='R-assert', count=1),
                           Sub('self.input[..bytes_to_read]', 'str_prefix(self.input, bytes_to_read)', rule='R-ty'),
                           Sub('&self.input[bytes_to_read..]', 'str_suffix(self.input, bytes_to_read)', rule='R-ty'),
                           Sub('for ch in chars_to_read', 'for ch in it: chars_to_read', rule='R-iter')],
                 requires=['pair.start >= old(self).pos   // pairs are visited in document order (established by the unverified parse/*.rs builders)',
                           'is_boundary(old(self).input@, pair.start - old(self).pos)   // pest spans lie on char boundaries (assumed)',
                           'old(self).line as int + old(self).input@.len() < usize::MAX && old(self).column as int + old(self).input@.len() < usize::MAX && old(self).column >= 1',
                           ],
                 ensures=[f'lc_of(*final(self)) == run(lc_of(*old(self)), {prefix})',
                          'r.line == final(self).line && r.column == final(self).column',
                          'final(self).pos == pair.start',
                          'final(self).input@ == old(self).input@.skip(chars_in_bytes(old(self).input@, pair.start - old(self).pos))'],
                 loops={0: dict(
                     prop=[f'lc_of(*self) == run(lc_of(*old(self)), ({prefix}).take(it.index@ as int))'],
                     aux=[f'it.history@ =~= ({prefix}).take(it.index@ as int)', f'it.index@ <= ({prefix}).len()',
                          'self.input == old(self).input && self.pos == old(self).pos',
                          'self.line as int <= old(self).line as int + it.index@ && self.column as int <= old(self).column as int + it.index@ && self.column >= 1',
                          f'({prefix}).len() <= old(self).input@.len()'],
                     head=f'''proof {{
    let ghost p = {prefix};
    assert(p.take(it.index@ + 1).drop_last() =~= p.take(it.index@ as int));
    assert(p.take(it.index@ + 1).last() == ch);
}}''',
                     after=f'''proof {{
    let ghost p = {prefix};
    assert(p.take(p.len() as int) =~= p);
}}''')},
                 head_proof='proof { broadcast use axiom_chars_in_bytes; }',
                 attrs=['#[verifier::loop_isolation(false)]'],
                 )
    u.assume('pest: Pair::as_span().start() is a byte offset on a char boundary of the input, and pairs are stepped in non-decreasing start order (established by parse/*.rs, unverified)')
    u.assume('str byte slicing: `&s[..n]` / `&s[n..]` split the char sequence at chars_in_bytes(s, n) (std, assumed)')
    u.assume('line/column counters: no overflow assumed for inputs shorter than usize::MAX chars (stated as a precondition)')
    u.search_case('fn step', 'c14_pos')
    return u


UNITS = {'c14_step': (['C14'], step_unit)}
SEARCH = {'c14_step': ['c14_pos']}

BOUNDED = {'C14': [dict(case='c14_pos', function='positions of AST nodes reported by parse_query (PositionCalculator::step called by the parse/*.rs builders)',
                        bound='generated documents mixing LF / CRLF / lone CR, multi-byte and astral characters, comments and strings; every field position compared with an independent line/column count',
                        why='that every builder steps the calculator on the right pair is spread over the pest-pair plumbing of parse/*.rs (outside Verus)')]}
