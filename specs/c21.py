"""C21 -- secrets never appear in logged query text: stringify_input_value kernel."""
from vx.unit import Unit, Sub, ReSub, WriteMacro, ClosureDesugar, LetChain
from specs.common import value_types

F = 'src/registry/stringify_exec_doc.rs'
R = 'src/registry/mod.rs'

SHIMS = r'''
// field-subset shims of the registry (conformance-checked): only what stringify_input_value reads
pub struct MetaInputValue { pub ty: String, pub is_secret: bool }
pub enum MetaType { InputObject { name: String, input_fields: StrMap<MetaInputValue> }, Other { name: String } }
pub struct Registry { pub types: StrMap<MetaType> }
pub struct MetaTypeName;
impl MetaTypeName {
    pub uninterp spec fn spec_concrete_typename(s: Seq<char>) -> Seq<char>;
    #[verifier::external_body]
    pub fn concrete_typename(s: &str) -> (r: &str) ensures r@ == Self::spec_concrete_typename(s@) { unimplemented!() }
}
pub type FmtResult = Result<(), core::fmt::Error>;
// Display for ConstValue / Name (value/src/lib.rs, partly proved in C15): opaque here
pub uninterp spec fn display_value(v: ConstValue) -> Seq<char>;
pub trait LogSink {
    fn write_value(&mut self, v: &ConstValue) -> (r: FmtResult) ensures r is Ok, final(self).text() == old(self).text() + display_value(*v);
    spec fn text(&self) -> Seq<char>;
}
impl LogSink for String {
    open spec fn text(&self) -> Seq<char> { self@ }
    #[verifier::external_body]
    fn write_value(&mut self, v: &ConstValue) -> (r: FmtResult) { unimplemented!() }
}
'''

REDACT_SPEC = r'''
// ================= what the logged text of an input value may depend on (stated independently of the code)
pub open spec fn opt_val<T>(m: Option<&T>) -> Option<T> { match m { Some(x) => Some(*x), None => None } }
pub open spec fn secret(m: Option<MetaInputValue>) -> bool { m is Some && m->Some_0.is_secret }
// the input-object field table that describes the fields of a value of declared type m.ty (wrappers removed), if it is an input object
pub open spec fn input_fields_of(reg: &Registry, m: Option<MetaInputValue>) -> Option<StrMap<MetaInputValue>> {
    match m {
        Some(iv) => { let tn = MetaTypeName::spec_concrete_typename(iv.ty@);
            if reg.types.view().contains_key(tn) { match reg.types.view()[tn] { MetaType::InputObject { input_fields, .. } => Some(input_fields), _ => None } } else { None } },
        None => None,
    }
}
pub open spec fn field_meta(fs: StrMap<MetaInputValue>, key: Seq<char>) -> Option<MetaInputValue> { if fs.view().contains_key(key) { Some(fs.view()[key]) } else { None } }
// the redacted rendering: a secret position prints the placeholder; lists keep the meta of the list; object fields use the meta of THEIR field
pub open spec fn red(reg: &Registry, m: Option<MetaInputValue>, v: ConstValue) -> Seq<char> decreases v, 0nat {
    if secret(m) { "\"<secret>\""@ } else { match v {
        ConstValue::Object(obj) => match input_fields_of(reg, m) {
            Some(fs) => seq!['{'] + red_obj(reg, fs, obj.ents(), obj.ents().len()) + seq!['}'],
            None => display_value(v) },
        ConstValue::List(list) => seq!['['] + red_list(reg, m, list@, list@.len()) + seq![']'],
        _ => display_value(v),
    } }
}
pub open spec fn red_obj(reg: &Registry, fs: StrMap<MetaInputValue>, es: Seq<(Name, ConstValue)>, n: nat) -> Seq<char> decreases es, n {
    if n == 0 || n > es.len() { Seq::empty() } else {
        red_obj(reg, fs, es, (n - 1) as nat) + (if n - 1 > 0 { ", "@ } else { Seq::empty() }) + es[n - 1].0@ + ": "@ + red(reg, field_meta(fs, es[n - 1].0@), es[n - 1].1)
    }
}
pub open spec fn red_list(reg: &Registry, m: Option<MetaInputValue>, s: Seq<ConstValue>, n: nat) -> Seq<char> decreases s, n {
    if n == 0 || n > s.len() { Seq::empty() } else {
        red_list(reg, m, s, (n - 1) as nat) + (if n - 1 > 0 { ", "@ } else { Seq::empty() }) + red(reg, m, s[n - 1])
    }
}
// two values agree outside secret positions
pub open spec fn low_eq(reg: &Registry, m: Option<MetaInputValue>, a: ConstValue, b: ConstValue) -> bool decreases a, 0nat {
    if secret(m) { true } else { match a {
        ConstValue::Object(x) => match input_fields_of(reg, m) {
            Some(fs) => b is Object && low_eq_obj(reg, fs, x.ents(), b->Object_0.ents(), x.ents().len()) && x.ents().len() == b->Object_0.ents().len(),
            None => a == b },
        ConstValue::List(x) => b is List && x@.len() == b->List_0@.len() && low_eq_list(reg, m, x@, b->List_0@, x@.len()),
        _ => a == b,
    } }
}
pub open spec fn low_eq_obj(reg: &Registry, fs: StrMap<MetaInputValue>, x: Seq<(Name, ConstValue)>, y: Seq<(Name, ConstValue)>, n: nat) -> bool decreases x, n {
    if n == 0 || n > x.len() || n > y.len() { true } else {
        low_eq_obj(reg, fs, x, y, (n - 1) as nat) && x[n - 1].0@ == y[n - 1].0@ && low_eq(reg, field_meta(fs, x[n - 1].0@), x[n - 1].1, y[n - 1].1)
    }
}
pub open spec fn low_eq_list(reg: &Registry, m: Option<MetaInputValue>, x: Seq<ConstValue>, y: Seq<ConstValue>, n: nat) -> bool decreases x, n {
    if n == 0 || n > x.len() || n > y.len() { true } else { low_eq_list(reg, m, x, y, (n - 1) as nat) && low_eq(reg, m, x[n - 1], y[n - 1]) }
}
// NON-INTERFERENCE: the redacted rendering of two values that agree outside secret positions is the same text
pub proof fn lemma_noninterference(reg: &Registry, m: Option<MetaInputValue>, a: ConstValue, b: ConstValue)
    requires low_eq(reg, m, a, b) ensures red(reg, m, a) == red(reg, m, b) decreases a, 0nat
{
    if secret(m) { } else { match a {
        ConstValue::Object(x) => { match input_fields_of(reg, m) { Some(fs) => { lemma_ni_obj(reg, fs, x.ents(), b->Object_0.ents(), x.ents().len()); }, None => {} } },
        ConstValue::List(x) => { lemma_ni_list(reg, m, x@, b->List_0@, x@.len()); },
        _ => {},
    } }
}
pub proof fn lemma_ni_obj(reg: &Registry, fs: StrMap<MetaInputValue>, x: Seq<(Name, ConstValue)>, y: Seq<(Name, ConstValue)>, n: nat)
    requires low_eq_obj(reg, fs, x, y, n), n <= x.len(), n <= y.len() ensures red_obj(reg, fs, x, n) == red_obj(reg, fs, y, n) decreases x, n
{ if n > 0 { lemma_ni_obj(reg, fs, x, y, (n - 1) as nat); lemma_noninterference(reg, field_meta(fs, x[n - 1].0@), x[n - 1].1, y[n - 1].1); } }
pub proof fn lemma_ni_list(reg: &Registry, m: Option<MetaInputValue>, x: Seq<ConstValue>, y: Seq<ConstValue>, n: nat)
    requires low_eq_list(reg, m, x, y, n), n <= x.len(), n <= y.len() ensures red_list(reg, m, x, n) == red_list(reg, m, y, n) decreases x, n
{ if n > 0 { lemma_ni_list(reg, m, x, y, (n - 1) as nat); lemma_noninterference(reg, m, x[n - 1], y[n - 1]); } }
'''


def redact_unit(kf):
    u = Unit('c21_stringify_input_value', ['C21'], 'stringify_input_value appends exactly the redacted rendering, which does not depend on secret parts (non-interference lemma)')
    u.kf = kf
    value_types(u, with_value=False, emap=True)
    u.prelude('registry_shim')
    u.prelude('sdl_sink')
    u.prelude('string_write')
    u.trusted(SHIMS, 'registry / sink shims')
    u.shim_conformance(R, ['struct MetaInputValue'], [('ty', 'String'), ('is_secret', 'bool')])
    u.shim_conformance(R, ['enum MetaType'], [('name', 'String'), ('input_fields', 'IndexMap<String, MetaInputValue>')], variant='InputObject')
    u.shim_conformance(R, ['struct Registry'], [('types', 'BTreeMap<String, MetaType>')])
    u.spec(REDACT_SPEC, 'redacted rendering + non-interference')
    M = 'opt_val(meta_input_value)'
    u.extract_fn(F, ['impl Registry', 'fn stringify_input_value'], wrap_impl='Registry',
                 rewrites=[ClosureDesugar('map', count=1), ClosureDesugar('and_then', count=1),
                           Sub('.unwrap_or_default()', '.unwrap_or(false)', count=1, rule='R-ty'),
                           Sub('for (idx, (key, value)) in obj.iter().enumerate() {', 'for idx in it: 0..obj.len() { let (key, value) = obj.entry(idx);', rule='R-iter'),
                           Sub('for (idx, item) in list.iter().enumerate() {', 'for idx in it2: 0..list.len() { let item = &list[idx];', rule='R-iter'),
                           WriteMacro(count=3, infallible=True, arg_methods={'value': 'write_value'}),
                           ],
                 head_proof='proof { @REVEALS@ }\nlet ghost whole = *value;',
                 ensures=[f'r is Ok ==> final(output)@ =~= old(output)@ + red(self, {M}, *value)   // the appended text is the redacted rendering: a function of the non-secret parts only (lemma_noninterference)',
                          'r is Ok'],
                 decreases='*value',
                 loops={0: dict(prop=[f'output@ =~= old(output)@ + seq![\'{{\'] + red_obj(self, *input_fields, obj.ents(), it.index@ as nat)'],
                                aux=['whole == *value', 'whole is Object', 'obj.ents() == whole->Object_0.ents()', 'it.index@ <= obj.ents().len()', f'!secret({M})', f'input_fields_of(self, {M}) == Some(*input_fields)'],
                                head='''proof { assert(decreases_to!(whole => whole->Object_0.entries@[idx as int].1)); }
let ghost before = output@;''',
                                tail='''proof {
    let sep = if idx > 0 { ", "@ } else { Seq::<char>::empty() };
    let fm = field_meta(*input_fields, obj.ents()[idx as int].0@);
    assert(red_obj(self, *input_fields, obj.ents(), (idx + 1) as nat) == red_obj(self, *input_fields, obj.ents(), idx as nat) + sep + obj.ents()[idx as int].0@ + ": "@ + red(self, fm, obj.ents()[idx as int].1));
}'''),
                        1: dict(prop=[f'output@ =~= old(output)@ + seq![\'[\'] + red_list(self, {M}, list@, it2.index@ as nat)'],
                                aux=['whole == *value', 'whole is List', 'list@ == whole->List_0@', 'it2.index@ <= list@.len()', f'!secret({M})'],
                                head='let ghost before = output@;',
                                tail=f'''proof {{
    let sep = if idx > 0 {{ ", "@ }} else {{ Seq::<char>::empty() }};
    assert(red_list(self, {M}, list@, (idx + 1) as nat) == red_list(self, {M}, list@, idx as nat) + sep + red(self, {M}, list@[idx as int]));
}}''')},
                 attrs=['#[verifier::loop_isolation(false)]'])
    u.assume('Display for ConstValue / Name is opaque here (display_value; the string part is C15\'s write_quoted unit)')
    u.assume('non-interference is relative to the registry\'s secret flags and input-object tables: a value whose declared type is unknown to the registry, or is not an input object, is printed verbatim (no secret marking can apply to it)')
    u.search_case('stringify_exec_doc.rs', 'c21_redact')
    return u


UNITS = {'c21_stringify_input_value': (['C21'], redact_unit)}
SEARCH = {'c21_stringify_input_value': ['c21_redact']}
BOUNDED = {'C21': [dict(case='c21_redact', function='src/registry/stringify_exec_doc.rs::Registry::{stringify_exec_doc, stringify_selection_set, stringify_input_value} (through ExtensionContext::stringify_execute_doc)',
                        bound='~60 generated operations (query / mutation / subscription roots, aliases, nested fields, named and typed inline fragments, literals and variables) over a schema with secret arguments and secret input-object fields; the marker secret must not occur in the logged text',
                        why='closure-heavy iterator code over the registry (and_then / map / enumerate chains, into_const_with) is outside Verus; only the stringify_input_value kernel is under contract')]}


# ----------------------------------------------------------------------------------------------------------------------
# which registry entry describes each printed argument / sub-selection: E2 fragments of stringify_selection_set and stringify_exec_doc
from vx.unit import ClosureMatch  # noqa: E402
from specs.common import ast_types  # noqa: E402

LOOKUP_SHIMS = r'''
// field-subset shims of the registry (conformance-checked): what the meta lookups of the stringifier read
pub struct MetaInputValue { pub ty: String, pub is_secret: bool }
pub struct MetaField { pub name: String, pub args: StrMap<MetaInputValue>, pub ty: String }
pub enum MetaType {
    Scalar { name: String },
    Object { name: String, fields: StrMap<MetaField> },
    Interface { name: String, fields: StrMap<MetaField> },
    Union { name: String },
    Enum { name: String },
    InputObject { name: String, input_fields: StrMap<MetaInputValue> },
}
pub struct Registry { pub types: StrMap<MetaType>, pub query_type: String, pub mutation_type: Option<String>, pub subscription_type: Option<String> }
pub struct MetaTypeName;
impl MetaTypeName {
    pub uninterp spec fn spec_concrete_typename(s: Seq<char>) -> Seq<char>;
    #[verifier::external_body]
    pub fn concrete_typename(s: &str) -> (r: &str) ensures r@ == Self::spec_concrete_typename(s@) { unimplemented!() }
}
pub type FmtResult = Result<(), core::fmt::Error>;
'''

LOOKUP_SPEC = r'''
// the schema's description of field `fname` of type `pt` (objects and interfaces have fields)
pub open spec fn spec_field(pt: Option<&MetaType>, fname: Seq<char>) -> Option<MetaField> {
    match pt {
        Some(MetaType::Object { fields, .. }) => if fields.view().contains_key(fname) { Some(fields.view()[fname]) } else { None },
        Some(MetaType::Interface { fields, .. }) => if fields.view().contains_key(fname) { Some(fields.view()[fname]) } else { None },
        _ => None,
    }
}
// the schema's description (type, secret flag) of argument `aname` of field `fname` (selected by its NAME, not its alias) of `pt`
pub open spec fn spec_arg_meta(pt: Option<&MetaType>, fname: Seq<char>, aname: Seq<char>) -> Option<MetaInputValue> {
    match spec_field(pt, fname) { Some(f) => if f.args.view().contains_key(aname) { Some(f.args.view()[aname]) } else { None }, None => None }
}
pub open spec fn spec_type(reg: &Registry, name: Seq<char>) -> Option<MetaType> { if reg.types.view().contains_key(name) { Some(reg.types.view()[name]) } else { None } }
// the type whose fields a field's sub-selection selects from: the field's declared type with list / non-null wrappers removed
pub open spec fn spec_child_type(reg: &Registry, pt: Option<&MetaType>, fname: Seq<char>) -> Option<MetaType> {
    match spec_field(pt, fname) { Some(f) => spec_type(reg, MetaTypeName::spec_concrete_typename(f.ty@)), None => None }
}
pub open spec fn spec_root(reg: &Registry, ty: OperationType) -> Option<MetaType> {
    match ty {
        OperationType::Query => spec_type(reg, reg.query_type@),
        OperationType::Mutation => match reg.mutation_type { Some(n) => spec_type(reg, n@), None => None },
        OperationType::Subscription => match reg.subscription_type { Some(n) => spec_type(reg, n@), None => None },
    }
}
pub open spec fn same_opt<T>(r: Option<&T>, s: Option<T>) -> bool { match r { Some(x) => s == Some(*x), None => s is None } }
'''


def lookup_unit(kf):
    u = Unit('c21_meta_lookup', ['C21'], 'stringify_selection_set / stringify_exec_doc look the secret flag of every printed argument up under the right type, field NAME and argument name')
    u.kf = kf
    value_types(u)
    ast_types(u)
    u.prelude('registry_shim')
    u.prelude('string_eq')
    u.prelude('sdl_sink')
    u.prelude('string_write')
    u.trusted(LOOKUP_SHIMS, 'registry shims')
    u.shim_conformance(R, ['struct MetaInputValue'], [('ty', 'String'), ('is_secret', 'bool')])
    u.shim_conformance(R, ['struct MetaField'], [('name', 'String'), ('args', 'IndexMap<String, MetaInputValue>'), ('ty', 'String')])
    u.shim_conformance(R, ['enum MetaType'], [('name', 'String'), ('fields', 'IndexMap<String, MetaField>')], variant='Object')
    u.shim_conformance(R, ['enum MetaType'], [('name', 'String'), ('fields', 'IndexMap<String, MetaField>')], variant='Interface')
    u.shim_conformance(R, ['enum MetaType'], [('name', 'String'), ('input_fields', 'IndexMap<String, MetaInputValue>')], variant='InputObject')
    u.shim_conformance(R, ['struct Registry'], [('types', 'BTreeMap<String, MetaType>'), ('query_type', 'String'), ('mutation_type', 'Option<String>'), ('subscription_type', 'Option<String>')])
    u.spec(LOOKUP_SPEC, 'meta lookup spec')
    u.extract_fn(R, ['impl MetaType', 'fn fields'], wrap_impl='MetaType',
                 sig_rewrites=[ReSub(r'IndexMap<String, MetaField>', 'StrMap<MetaField>')],
                 ensures=['match *self { MetaType::Object { fields, .. } => r == Some(&fields), MetaType::Interface { fields, .. } => r == Some(&fields), _ => r is None }'])
    u.extract_fn(R, ['impl MetaType', 'fn field_by_name'], wrap_impl='MetaType',
                 rewrites=[ClosureDesugar('and_then')],
                 ensures=['same_opt(r, spec_field(Some(self), name@))'])
    SS = ['impl Registry', 'fn stringify_selection_set']
    u.extract_fragment(F, SS, 'let meta_input_value = parent_type', '.and_then(|field| field.args.get(name.node.as_str()));',
                       name='argument_meta',
                       header="fn argument_meta<'a>(parent_type: Option<&'a MetaType>, field: &Positioned<Field>, name: &Positioned<Name>) -> (r: Option<&'a MetaInputValue>)",
                       footer='    meta_input_value\n}',
                       rewrites=[ClosureMatch('opt.and_then', count=2)],
                       ensures=['same_opt(r, spec_arg_meta(parent_type, field.node.name.node@, name.node@))   // the secret flag consulted for an argument is the one the schema declares for THIS argument of THIS field (by name) of the enclosing type'])
    u.extract_fragment(F, SS, 'let parent_type = parent_type .and_then(|ty| ty.field_by_name(', 'self.types.get(MetaTypeName::concrete_typename(&field.ty)) });',
                       name='child_parent_type',
                       header="fn child_parent_type<'a>(reg: &'a Registry, parent_type: Option<&'a MetaType>, field: &Positioned<Field>) -> (r: Option<&'a MetaType>)",
                       footer='    parent_type\n}',
                       rewrites=[ClosureMatch('opt.and_then', count=2), Sub('self.types', 'reg.types', rule='R-self')],
                       ensures=['same_opt(r, spec_child_type(reg, parent_type, field.node.name.node@))   // a field\'s sub-selection is printed under the field\'s own (unwrapped) type'])
    u.extract_fragment(F, SS, 'let parent_type = if let Some(name) = &inline_fragment.node.type_condition {', 'parent_type };',
                       name='inline_fragment_parent_type',
                       header="fn inline_fragment_parent_type<'a>(reg: &'a Registry, output: &mut String, parent_type: Option<&'a MetaType>, inline_fragment: &Positioned<InlineFragment>) -> (r: Result<Option<&'a MetaType>, core::fmt::Error>)",
                       footer='    Ok(parent_type)\n}',
                       rewrites=[WriteMacro(count=1, infallible=True), Sub('self.types', 'reg.types', rule='R-self')],
                       ensures=['r is Ok ==> (match inline_fragment.node.type_condition { Some(tc) => same_opt(r->Ok_0, spec_type(reg, tc.node.on.node@)), None => r->Ok_0 == parent_type })   // `... on T { }` switches to T, `... { }` keeps the enclosing type'])
    u.extract_fragment(F, ['impl Registry', 'fn stringify_exec_doc'], 'let root_type = match operation_definition.node.ty {', '.and_then(|name| self.types.get(name)), };',
                       name='root_type',
                       header="fn root_type<'a>(reg: &'a Registry, operation_definition: &Positioned<OperationDefinition>) -> (r: Option<&'a MetaType>)",
                       footer='    root_type\n}',
                       rewrites=[ClosureMatch('opt.and_then', count=2), Sub('self.', 'reg.', count='+', rule='R-self')],
                       ensures=['same_opt(r, spec_root(reg, operation_definition.node.ty))   // the operation\'s selection set is printed under the root type of ITS operation kind'])
    u.assume('E2 fragments: the four meta lookups are under contract; the surrounding printing loops (and that each looked-up meta is the one passed on to stringify_input_value) are not')
    u.assume('registry BTreeMap / IndexMap represented by lookup-only shims (assumed contracts on std / indexmap); MetaTypeName::concrete_typename is uninterpreted')
    u.search_case('stringify_exec_doc.rs', 'c21_redact')
    return u


UNITS['c21_meta_lookup'] = (['C21'], lookup_unit)
SEARCH['c21_meta_lookup'] = ['c21_redact']
