"""C21 -- secrets never appear in logged query text: stringify_input_value kernel."""
from vx.unit import Unit, Sub, ReSub, WriteMacro, ClosureDesugar, LetChain
from specs.common import value_types

F = 'src/registry/stringify_exec_doc.rs'
R = 'src/registry/mod.rs'

SHIMS = r'''
// field-subset shims of the registry (conformance-checked): only what stringify_input_value reads
pub struct MetaInputValue { pub ty: String, pub is_secret: bool }
pub enum MetaType { InputObject { name: String, input_fields: StrMap<MetaInputValue> }, Other { name: String } }
pub struct Registry { pub types: StrMap<MetaType> }
pub struct MetaTypeName;
impl MetaTypeName {
    pub uninterp spec fn spec_concrete_typename(s: Seq<char>) -> Seq<char>;
    #[verifier::external_body]
    pub fn concrete_typename(s: &str) -> (r: &str) ensures r@ == Self::spec_concrete_typename(s@) { unimplemented!() }
}
pub type FmtResult = Result<(), core::fmt::Error>;
// Display for ConstValue / Name (value/src/lib.rs, partly proved in C15): opaque here
pub uninterp spec fn display_value(v: ConstValue) -> Seq<char>;
pub trait LogSink {
    fn write_value(&mut self, v: &ConstValue) -> (r: FmtResult) ensures r is Ok ==> final(self).text() == old(self).text() + display_value(*v);
    spec fn text(&self) -> Seq<char>;
}
impl LogSink for String {
    open spec fn text(&self) -> Seq<char> { self@ }
    #[verifier::external_body]
    fn write_value(&mut self, v: &ConstValue) -> (r: FmtResult) { unimplemented!() }
}
impl<V> IndexMapN<V> {
    #[verifier::external_body]
    pub fn len(&self) -> (r: usize) ensures r == self.entries().len() { unimplemented!() }
    #[verifier::external_body]
    pub fn entry(&self, i: usize) -> (r: (&Name, &V)) requires i < self.entries().len() ensures *r.0 == self.entries()[i as int].0, *r.1 == self.entries()[i as int].1 { unimplemented!() }
}
'''


def redact_unit(kf):
    u = Unit('c21_stringify_input_value', ['C21'], 'stringify_input_value prints "<secret>" for a secret input value and nothing else of it')
    u.kf = kf
    value_types(u, with_value=False)
    u.prelude('registry_shim')
    u.prelude('sdl_sink')
    u.prelude('string_write')
    u.trusted(SHIMS, 'registry / sink shims')
    u.shim_conformance(R, ['struct MetaInputValue'], [('ty', 'String'), ('is_secret', 'bool')])
    u.shim_conformance(R, ['enum MetaType'], [('name', 'String'), ('input_fields', 'IndexMap<String, MetaInputValue>')], variant='InputObject')
    u.shim_conformance(R, ['struct Registry'], [('types', 'BTreeMap<String, MetaType>')])
    u.extract_fn(F, ['impl Registry', 'fn stringify_input_value'], wrap_impl='Registry',
                 rewrites=[ClosureDesugar('map', count=1), ClosureDesugar('and_then', count=1),
                           Sub('.unwrap_or_default()', '.unwrap_or(false)', count=1, rule='R-ty'),
                           Sub('for (idx, (key, value)) in obj.iter().enumerate() {', 'for idx in it: 0..obj.len() { let (key, value) = obj.entry(idx);', rule='R-iter'),
                           Sub('for (idx, item) in list.iter().enumerate() {', 'for idx in it2: 0..list.len() { let item = &list[idx];', rule='R-iter'),
                           WriteMacro(count=3, ok='Ok::<(), core::fmt::Error>(())', arg_methods={'value': 'write_value'}),
                           ],
                 head_proof='proof { @REVEALS@ }',
                 ensures=['r is Ok && meta_input_value is Some && meta_input_value->Some_0.is_secret ==> final(output)@ == old(output)@ + "\\"<secret>\\""@   // a secret value contributes nothing but the placeholder',
                          'r is Ok && !(meta_input_value is Some && meta_input_value->Some_0.is_secret) && !(value is Object) && !(value is List) ==> final(output)@ == old(output)@ + display_value(*value)',
                          'r is Ok ==> final(output)@.len() >= old(output)@.len() && final(output)@.take(old(output)@.len() as int) == old(output)@   // append-only'],
                 loops={0: dict(prop=[], aux=['output@.len() >= old(output)@.len() && output@.take(old(output)@.len() as int) == old(output)@']),
                        1: dict(prop=[], aux=['output@.len() >= old(output)@.len() && output@.take(old(output)@.len() as int) == old(output)@'])},
                 attrs=['#[verifier::exec_allows_no_decreases_clause]', '#[verifier::loop_isolation(false)]'])
    u.assume('stringify_input_value: termination not proved (recursion through the opaque IndexMap shim)')
    u.assume('only the secret short-circuit, the leaf case and append-only-ness are under contract; that every nested value is printed through the recursive call with the meta of ITS field is NOT (object case stated only as append-only); covered by the bounded stand-in c21_redact')
    u.search_case('stringify_exec_doc.rs', 'c21_redact')
    return u


UNITS = {'c21_stringify_input_value': (['C21'], redact_unit)}
SEARCH = {'c21_stringify_input_value': ['c21_redact']}
BOUNDED = {'C21': [dict(case='c21_redact', function='src/registry/stringify_exec_doc.rs::Registry::{stringify_exec_doc, stringify_selection_set, stringify_input_value} (through ExtensionContext::stringify_execute_doc)',
                        bound='~60 generated operations (query / mutation / subscription roots, aliases, nested fields, named and typed inline fragments, literals and variables) over a schema with secret arguments and secret input-object fields; the marker secret must not occur in the logged text',
                        why='closure-heavy iterator code over the registry (and_then / map / enumerate chains, into_const_with) is outside Verus; only the stringify_input_value kernel is under contract')]}


# ----------------------------------------------------------------------------------------------------------------------
# which registry entry describes each printed argument / sub-selection: E2 fragments of stringify_selection_set and stringify_exec_doc
from vx.unit import ClosureMatch  # noqa: E402
from specs.common import ast_types  # noqa: E402

LOOKUP_SHIMS = r'''
// field-subset shims of the registry (conformance-checked): what the meta lookups of the stringifier read
pub struct MetaInputValue { pub ty: String, pub is_secret: bool }
pub struct MetaField { pub name: String, pub args: StrMap<MetaInputValue>, pub ty: String }
pub enum MetaType {
    Scalar { name: String },
    Object { name: String, fields: StrMap<MetaField> },
    Interface { name: String, fields: StrMap<MetaField> },
    Union { name: String },
    Enum { name: String },
    InputObject { name: String, input_fields: StrMap<MetaInputValue> },
}
pub struct Registry { pub types: StrMap<MetaType>, pub query_type: String, pub mutation_type: Option<String>, pub subscription_type: Option<String> }
pub struct MetaTypeName;
impl MetaTypeName {
    pub uninterp spec fn spec_concrete_typename(s: Seq<char>) -> Seq<char>;
    #[verifier::external_body]
    pub fn concrete_typename(s: &str) -> (r: &str) ensures r@ == Self::spec_concrete_typename(s@) { unimplemented!() }
}
pub type FmtResult = Result<(), core::fmt::Error>;
'''

LOOKUP_SPEC = r'''
// the schema's description of field `fname` of type `pt` (objects and interfaces have fields)
pub open spec fn spec_field(pt: Option<&MetaType>, fname: Seq<char>) -> Option<MetaField> {
    match pt {
        Some(MetaType::Object { fields, .. }) => if fields.view().contains_key(fname) { Some(fields.view()[fname]) } else { None },
        Some(MetaType::Interface { fields, .. }) => if fields.view().contains_key(fname) { Some(fields.view()[fname]) } else { None },
        _ => None,
    }
}
// the schema's description (type, secret flag) of argument `aname` of field `fname` (selected by its NAME, not its alias) of `pt`
pub open spec fn spec_arg_meta(pt: Option<&MetaType>, fname: Seq<char>, aname: Seq<char>) -> Option<MetaInputValue> {
    match spec_field(pt, fname) { Some(f) => if f.args.view().contains_key(aname) { Some(f.args.view()[aname]) } else { None }, None => None }
}
pub open spec fn spec_type(reg: &Registry, name: Seq<char>) -> Option<MetaType> { if reg.types.view().contains_key(name) { Some(reg.types.view()[name]) } else { None } }
// the type whose fields a field's sub-selection selects from: the field's declared type with list / non-null wrappers removed
pub open spec fn spec_child_type(reg: &Registry, pt: Option<&MetaType>, fname: Seq<char>) -> Option<MetaType> {
    match spec_field(pt, fname) { Some(f) => spec_type(reg, MetaTypeName::spec_concrete_typename(f.ty@)), None => None }
}
pub open spec fn spec_root(reg: &Registry, ty: OperationType) -> Option<MetaType> {
    match ty {
        OperationType::Query => spec_type(reg, reg.query_type@),
        OperationType::Mutation => match reg.mutation_type { Some(n) => spec_type(reg, n@), None => None },
        OperationType::Subscription => match reg.subscription_type { Some(n) => spec_type(reg, n@), None => None },
    }
}
pub open spec fn same_opt<T>(r: Option<&T>, s: Option<T>) -> bool { match r { Some(x) => s == Some(*x), None => s is None } }
'''


def lookup_unit(kf):
    u = Unit('c21_meta_lookup', ['C21'], 'stringify_selection_set / stringify_exec_doc look the secret flag of every printed argument up under the right type, field NAME and argument name')
    u.kf = kf
    value_types(u)
    ast_types(u)
    u.prelude('registry_shim')
    u.prelude('string_eq')
    u.prelude('sdl_sink')
    u.prelude('string_write')
    u.trusted(LOOKUP_SHIMS, 'registry shims')
    u.shim_conformance(R, ['struct MetaInputValue'], [('ty', 'String'), ('is_secret', 'bool')])
    u.shim_conformance(R, ['struct MetaField'], [('name', 'String'), ('args', 'IndexMap<String, MetaInputValue>'), ('ty', 'String')])
    u.shim_conformance(R, ['enum MetaType'], [('name', 'String'), ('fields', 'IndexMap<String, MetaField>')], variant='Object')
    u.shim_conformance(R, ['enum MetaType'], [('name', 'String'), ('fields', 'IndexMap<String, MetaField>')], variant='Interface')
    u.shim_conformance(R, ['enum MetaType'], [('name', 'String'), ('input_fields', 'IndexMap<String, MetaInputValue>')], variant='InputObject')
    u.shim_conformance(R, ['struct Registry'], [('types', 'BTreeMap<String, MetaType>'), ('query_type', 'String'), ('mutation_type', 'Option<String>'), ('subscription_type', 'Option<String>')])
    u.spec(LOOKUP_SPEC, 'meta lookup spec')
    u.extract_fn(R, ['impl MetaType', 'fn fields'], wrap_impl='MetaType',
                 sig_rewrites=[ReSub(r'IndexMap<String, MetaField>', 'StrMap<MetaField>')],
                 ensures=['match *self { MetaType::Object { fields, .. } => r == Some(&fields), MetaType::Interface { fields, .. } => r == Some(&fields), _ => r is None }'])
    u.extract_fn(R, ['impl MetaType', 'fn field_by_name'], wrap_impl='MetaType',
                 rewrites=[ClosureDesugar('and_then')],
                 ensures=['same_opt(r, spec_field(Some(self), name@))'])
    SS = ['impl Registry', 'fn stringify_selection_set']
    u.extract_fragment(F, SS, 'let meta_input_value = parent_type', '.and_then(|field| field.args.get(name.node.as_str()));',
                       name='argument_meta',
                       header="fn argument_meta<'a>(parent_type: Option<&'a MetaType>, field: &Positioned<Field>, name: &Positioned<Name>) -> (r: Option<&'a MetaInputValue>)",
                       footer='    meta_input_value\n}',
                       rewrites=[ClosureMatch('opt.and_then', count=2)],
                       ensures=['same_opt(r, spec_arg_meta(parent_type, field.node.name.node@, name.node@))   // the secret flag consulted for an argument is the one the schema declares for THIS argument of THIS field (by name) of the enclosing type'])
    u.extract_fragment(F, SS, 'let parent_type = parent_type .and_then(|ty| ty.field_by_name(', 'self.types.get(MetaTypeName::concrete_typename(&field.ty)) });',
                       name='child_parent_type',
                       header="fn child_parent_type<'a>(reg: &'a Registry, parent_type: Option<&'a MetaType>, field: &Positioned<Field>) -> (r: Option<&'a MetaType>)",
                       footer='    parent_type\n}',
                       rewrites=[ClosureMatch('opt.and_then', count=2), Sub('self.types', 'reg.types', rule='R-self')],
                       ensures=['same_opt(r, spec_child_type(reg, parent_type, field.node.name.node@))   // a field\'s sub-selection is printed under the field\'s own (unwrapped) type'])
    u.extract_fragment(F, SS, 'let parent_type = if let Some(name) = &inline_fragment.node.type_condition {', 'parent_type };',
                       name='inline_fragment_parent_type',
                       header="fn inline_fragment_parent_type<'a>(reg: &'a Registry, output: &mut String, parent_type: Option<&'a MetaType>, inline_fragment: &Positioned<InlineFragment>) -> (r: Result<Option<&'a MetaType>, core::fmt::Error>)",
                       footer='    Ok(parent_type)\n}',
                       rewrites=[WriteMacro(count=1, infallible=True), Sub('self.types', 'reg.types', rule='R-self')],
                       ensures=['r is Ok ==> (match inline_fragment.node.type_condition { Some(tc) => same_opt(r->Ok_0, spec_type(reg, tc.node.on.node@)), None => r->Ok_0 == parent_type })   // `... on T { }` switches to T, `... { }` keeps the enclosing type'])
    u.extract_fragment(F, ['impl Registry', 'fn stringify_exec_doc'], 'let root_type = match operation_definition.node.ty {', '.and_then(|name| self.types.get(name)), };',
                       name='root_type',
                       header="fn root_type<'a>(reg: &'a Registry, operation_definition: &Positioned<OperationDefinition>) -> (r: Option<&'a MetaType>)",
                       footer='    root_type\n}',
                       rewrites=[ClosureMatch('opt.and_then', count=2), Sub('self.', 'reg.', count='+', rule='R-self')],
                       ensures=['same_opt(r, spec_root(reg, operation_definition.node.ty))   // the operation\'s selection set is printed under the root type of ITS operation kind'])
    u.assume('E2 fragments: the four meta lookups are under contract; the surrounding printing loops (and that each looked-up meta is the one passed on to stringify_input_value) are not')
    u.assume('registry BTreeMap / IndexMap represented by lookup-only shims (assumed contracts on std / indexmap); MetaTypeName::concrete_typename is uninterpreted')
    u.search_case('stringify_exec_doc.rs', 'c21_redact')
    return u


UNITS['c21_meta_lookup'] = (['C21'], lookup_unit)
SEARCH['c21_meta_lookup'] = ['c21_redact']
