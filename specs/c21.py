"""C21 -- secrets never appear in logged query text: stringify_input_value kernel."""
from vx.unit import Unit, Sub, ReSub, WriteMacro, ClosureDesugar, LetChain
from specs.common import value_types

F = 'src/registry/stringify_exec_doc.rs'
R = 'src/registry/mod.rs'

SHIMS = r'''
// field-subset shims of the registry (conformance-checked): only what stringify_input_value reads
pub struct MetaInputValue { pub ty: String, pub is_secret: bool }
pub enum MetaType { InputObject { name: String, input_fields: StrMap<MetaInputValue> }, Other { name: String } }
pub struct Registry { pub types: StrMap<MetaType> }
pub struct MetaTypeName;
impl MetaTypeName {
    pub uninterp spec fn spec_concrete_typename(s: Seq<char>) -> Seq<char>;
    #[verifier::external_body]
    pub fn concrete_typename(s: &str) -> (r: &str) ensures r@ == Self::spec_concrete_typename(s@) { unimplemented!() }
}
pub type FmtResult = Result<(), core::fmt::Error>;
// Display for ConstValue / Name (value/src/lib.rs, partly proved in C15): opaque here
pub uninterp spec fn display_value(v: ConstValue) -> Seq<char>;
pub trait LogSink {
    fn write_value(&mut self, v: &ConstValue) -> (r: FmtResult) ensures r is Ok ==> final(self).text() == old(self).text() + display_value(*v);
    spec fn text(&self) -> Seq<char>;
}
impl LogSink for String {
    open spec fn text(&self) -> Seq<char> { self@ }
    #[verifier::external_body]
    fn write_value(&mut self, v: &ConstValue) -> (r: FmtResult) { unimplemented!() }
}
impl<V> IndexMapN<V> {
    #[verifier::external_body]
    pub fn len(&self) -> (r: usize) ensures r == self.entries().len() { unimplemented!() }
    #[verifier::external_body]
    pub fn entry(&self, i: usize) -> (r: (&Name, &V)) requires i < self.entries().len() ensures *r.0 == self.entries()[i as int].0, *r.1 == self.entries()[i as int].1 { unimplemented!() }
}
'''


def redact_unit(kf):
    u = Unit('c21_stringify_input_value', ['C21'], 'stringify_input_value prints "<secret>" for a secret input value and nothing else of it')
    u.kf = kf
    value_types(u, with_value=False)
    u.prelude('registry_shim')
    u.prelude('sdl_sink')
    u.prelude('string_write')
    u.trusted(SHIMS, 'registry / sink shims')
    u.shim_conformance(R, ['struct MetaInputValue'], [('ty', 'String'), ('is_secret', 'bool')])
    u.shim_conformance(R, ['enum MetaType'], [('name', 'String'), ('input_fields', 'IndexMap<String, MetaInputValue>')], variant='InputObject')
    u.shim_conformance(R, ['struct Registry'], [('types', 'BTreeMap<String, MetaType>')])
    u.extract_fn(F, ['impl Registry', 'fn stringify_input_value'], wrap_impl='Registry',
                 rewrites=[ClosureDesugar('map', count=1), ClosureDesugar('and_then', count=1),
                           Sub('.unwrap_or_default()', '.unwrap_or(false)', count=1, rule='R-ty'),
                           Sub('for (idx, (key, value)) in obj.iter().enumerate() {', 'for idx in it: 0..obj.len() { let (key, value) = obj.entry(idx);', rule='R-iter'),
                           Sub('for (idx, item) in list.iter().enumerate() {', 'for idx in it2: 0..list.len() { let item = &list[idx];', rule='R-iter'),
                           WriteMacro(count=3, ok='Ok::<(), core::fmt::Error>(())', arg_methods={'value': 'write_value'}),
                           ],
                 head_proof='proof { @REVEALS@ }',
                 ensures=['r is Ok && meta_input_value is Some && meta_input_value->Some_0.is_secret ==> final(output)@ == old(output)@ + "\\"<secret>\\""@   // a secret value contributes nothing but the placeholder',
                          'r is Ok && !(meta_input_value is Some && meta_input_value->Some_0.is_secret) && !(value is Object) && !(value is List) ==> final(output)@ == old(output)@ + display_value(*value)',
                          'r is Ok ==> final(output)@.len() >= old(output)@.len() && final(output)@.take(old(output)@.len() as int) == old(output)@   // append-only'],
                 loops={0: dict(prop=[], aux=['output@.len() >= old(output)@.len() && output@.take(old(output)@.len() as int) == old(output)@']),
                        1: dict(prop=[], aux=['output@.len() >= old(output)@.len() && output@.take(old(output)@.len() as int) == old(output)@'])},
                 attrs=['#[verifier::exec_allows_no_decreases_clause]', '#[verifier::loop_isolation(false)]'])
    u.assume('stringify_input_value: termination not proved (recursion through the opaque IndexMap shim)')
    u.assume('only the secret short-circuit, the leaf case and append-only-ness are under contract; that every nested value is printed through the recursive call with the meta of ITS field is NOT (object case stated only as append-only); covered by the bounded stand-in c21_redact')
    u.search_case('stringify_exec_doc.rs', 'c21_redact')
    return u


UNITS = {'c21_stringify_input_value': (['C21'], redact_unit)}
SEARCH = {'c21_stringify_input_value': ['c21_redact']}
BOUNDED = {'C21': [dict(case='c21_redact', function='src/registry/stringify_exec_doc.rs::Registry::{stringify_exec_doc, stringify_selection_set, stringify_input_value} (through ExtensionContext::stringify_execute_doc)',
                        bound='~60 generated operations (query / mutation / subscription roots, aliases, nested fields, named and typed inline fragments, literals and variables) over a schema with secret arguments and secret input-object fields; the marker secret must not occur in the logged text',
                        why='closure-heavy iterator code over the registry (and_then / map / enumerate chains, into_const_with) is outside Verus; only the stringify_input_value kernel is under contract')]}
