"""C20 -- cache policy combination and the static policy visitor."""
from vx.unit import Unit, Sub, StripAttrs

F = 'src/registry/cache_control.rs'


def merge_unit(kf):
    u = Unit('c20_merge', ['C20'], 'CacheControl::merge against the restrictiveness order')
    u.kf = kf
    u.extract_type(F, ['struct CacheControl'])
    u.spec('''
// Restrictiveness order taken from the property: no-cache (-1) is the most restrictive,
// 0 ("no hint") the least, any other max-age in numeric order in between.
pub open spec fn rank(a: int) -> int { if a == -1 { -0x1_0000_0000 } else if a == 0 { 0x1_0000_0000 } else { a } }
pub open spec fn spec_merge_age(a: int, b: int) -> int { if rank(a) <= rank(b) { a } else { b } }
pub open spec fn spec_merge(a: CacheControl, b: CacheControl) -> CacheControl {
    CacheControl { public: a.public && b.public, max_age: spec_merge_age(a.max_age as int, b.max_age as int) as i32 }
}
// combination laws ("does not depend on order or grouping"), for ALL i32 pairs / triples
pub proof fn lemma_merge_commutative(a: CacheControl, b: CacheControl)
    ensures spec_merge(a, b) == spec_merge(b, a) {}
pub proof fn lemma_merge_associative(a: CacheControl, b: CacheControl, c: CacheControl)
    ensures spec_merge(spec_merge(a, b), c) == spec_merge(a, spec_merge(b, c)) {}
pub proof fn lemma_merge_idempotent(a: CacheControl)
    ensures spec_merge(a, a) == a {}
pub proof fn lemma_merge_identity(a: CacheControl)
    ensures spec_merge(a, CacheControl { public: true, max_age: 0 }) == a {}
''')
    u.extract_fn(F, ['impl CacheControl', 'fn merge'], wrap_impl='CacheControl',
                 ensures=[
                     'r == spec_merge(self, *other)',
                     'r.public == (self.public && other.public)',
                     '(self.max_age == -1 || other.max_age == -1) ==> r.max_age == -1',
                     '(self.max_age != -1 && other.max_age != -1) ==> r.max_age != -1',
                     '(self.max_age > 0 ==> r.max_age <= self.max_age) && (other.max_age > 0 ==> r.max_age <= other.max_age)',
                     'r.max_age == self.max_age || r.max_age == other.max_age',
                     '(self.max_age > 0 || other.max_age > 0) ==> r.max_age != 0',
                 ])
    u.search_case('fn merge', 'c20_merge')
    return u


UNITS = {'c20_merge': (['C20'], merge_unit)}
SEARCH = {'c20_merge': ['c20_merge']}
