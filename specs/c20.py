"""C20 -- cache policy combination and the static policy visitor."""
from vx.unit import Unit, Sub, StripAttrs

F = 'src/registry/cache_control.rs'


_MERGE_SPEC = '''
// Restrictiveness order taken from the property: no-cache (-1) is the most restrictive,
// 0 ("no hint") the least, any other max-age in numeric order in between.
pub open spec fn rank(a: int) -> int { if a == -1 { -0x1_0000_0000 } else if a == 0 { 0x1_0000_0000 } else { a } }
pub open spec fn spec_merge_age(a: int, b: int) -> int { if rank(a) <= rank(b) { a } else { b } }
pub open spec fn spec_merge(a: CacheControl, b: CacheControl) -> CacheControl {
    CacheControl { public: a.public && b.public, max_age: spec_merge_age(a.max_age as int, b.max_age as int) as i32 }
}
// combination laws ("does not depend on order or grouping"), for ALL i32 pairs / triples
pub proof fn lemma_merge_commutative(a: CacheControl, b: CacheControl)
    ensures spec_merge(a, b) == spec_merge(b, a) {}
pub proof fn lemma_merge_associative(a: CacheControl, b: CacheControl, c: CacheControl)
    ensures spec_merge(spec_merge(a, b), c) == spec_merge(a, spec_merge(b, c)) {}
pub proof fn lemma_merge_idempotent(a: CacheControl)
    ensures spec_merge(a, a) == a {}
pub proof fn lemma_merge_identity(a: CacheControl)
    ensures spec_merge(a, CacheControl { public: true, max_age: 0 }) == a {}
'''


def merge_unit(kf):
    u = Unit('c20_merge', ['C20'], 'CacheControl::merge against the restrictiveness order')
    u.kf = kf
    u.extract_type(F, ['struct CacheControl'])
    u.spec(_MERGE_SPEC)
    u.extract_fn(F, ['impl CacheControl', 'fn merge'], wrap_impl='CacheControl',
                 ensures=[
                     'r == spec_merge(self, *other)',
                     'r.public == (self.public && other.public)',
                     '(self.max_age == -1 || other.max_age == -1) ==> r.max_age == -1',
                     '(self.max_age != -1 && other.max_age != -1) ==> r.max_age != -1',
                     '(self.max_age > 0 ==> r.max_age <= self.max_age) && (other.max_age > 0 ==> r.max_age <= other.max_age)',
                     'r.max_age == self.max_age || r.max_age == other.max_age',
                     '(self.max_age > 0 || other.max_age > 0) ==> r.max_age != 0',
                 ])
    u.search_case('fn merge', 'c20_merge')
    return u


UNITS = {'c20_merge': (['C20'], merge_unit)}
SEARCH = {'c20_merge': ['c20_merge']}


from specs.common import value_types, ast_types, registry_types  # noqa: E402
from vx.unit import ReSub, ClosureDesugar  # noqa: E402

VC = 'src/validation/visitors/cache_control.rs'

VISITOR_SHIM = r'''
// trusted shim: validation::visitor::VisitorContext -- only its type stack accessors (the stack discipline itself lives in the
// unverified visit_* driver)
pub struct VisitorContext { pub cur: Option<MetaType>, pub par: Option<MetaType> }
impl VisitorContext {
    pub fn current_type(&self) -> (r: Option<&MetaType>) ensures r == (match self.cur { Some(t) => Some(&t), None => None }) { self.cur.as_ref() }
    pub fn parent_type(&self) -> (r: Option<&MetaType>) ensures r == (match self.par { Some(t) => Some(&t), None => None }) { self.par.as_ref() }
}
pub struct CacheControlCalculate<'a> { pub cache_control: &'a mut CacheControl }
'''


def visitor_unit(kf):
    u = Unit('c20_visitor', ['C20'], 'CacheControlCalculate folds every visited object type and field policy with merge')
    u.kf = kf
    value_types(u)
    ast_types(u)
    registry_types(u)
    u.spec(_MERGE_SPEC, 'merge spec')
    u.extract_fn(F, ['impl CacheControl', 'fn merge'], wrap_impl='CacheControl', ensures=['r == spec_merge(self, *other)'], canary=False,
                 label=F + '::impl CacheControl::fn merge (callee, proved in c20_merge)')
    u.trusted(VISITOR_SHIM, 'VisitorContext shim')
    abstract = u.carve('C20-abstract-types-ignored', '!(old(ctx).cur is Some && (old(ctx).cur->Some_0 is Interface || old(ctx).cur->Some_0 is Union))')
    u.extract_fn(VC, ["impl Visitor<'_> for CacheControlCalculate<'_>", 'fn enter_selection_set'], wrap_impl="<'a> CacheControlCalculate<'a>",
                 sig_rewrites=[ReSub(r"VisitorContext<'_>", 'VisitorContext')],
                 rewrites=[Sub('if let Some(MetaType::Object { cache_control, .. }) = ctx.current_type() {', 'match ctx.current_type() { Some(MetaType::Object { cache_control, .. }) => {', rule='R-iflet'),
                           Sub('*self.cache_control = self.cache_control.merge(cache_control); }', '*self.cache_control = self.cache_control.merge(cache_control); } _ => {} }', rule='R-iflet')],
                 requires=abstract,
                 ensures=['match old(ctx).cur { Some(MetaType::Object { cache_control, .. }) => *final(self).cache_control == spec_merge(*old(self).cache_control, cache_control), '
                          'Some(MetaType::Interface { .. }) | Some(MetaType::Union { .. }) => false, '
                          '_ => *final(self).cache_control == *old(self).cache_control }   // abstract current type: the policy of every possible object type must be merged (the code merges nothing): known finding'])
    u.extract_fn(VC, ["impl Visitor<'_> for CacheControlCalculate<'_>", 'fn enter_field'], wrap_impl="<'a> CacheControlCalculate<'a>",
                 sig_rewrites=[ReSub(r"VisitorContext<'_>", 'VisitorContext')],
                 rewrites=[ClosureDesugar('and_then')],
                 ensures=['match old(ctx).par { Some(MetaType::Object { fields, .. }) | Some(MetaType::Interface { fields, .. }) => '
                          '(if fields.view().contains_key(field.node.name.node@) { *final(self).cache_control == spec_merge(*old(self).cache_control, fields.view()[field.node.name.node@].cache_control) } '
                          'else { *final(self).cache_control == *old(self).cache_control }), _ => *final(self).cache_control == *old(self).cache_control }'])
    u.search_case('cache_control.rs', 'c20_policy')
    return u


UNITS['c20_visitor'] = (['C20'], visitor_unit)
SEARCH['c20_visitor'] = ['c20_policy']


# ----------------------------------------------------------------------------------------------------------------------
# the policy of a batch response: the merge over ALL its items
from vx.unit import IterFold  # noqa: E402

RS = 'src/response.rs'

BATCH_SHIMS = r'''
// field-subset shim of Response (conformance-checked): only the policy matters here
pub struct Response { pub cache_control: CacheControl }
pub fn cache_control_default() -> (r: CacheControl) ensures r == (CacheControl { public: true, max_age: 0 }) { CacheControl { public: true, max_age: 0 } }
'''

BATCH_SPEC = r'''
pub open spec fn batch_policy(items: Seq<Response>, n: nat) -> CacheControl decreases n {
    if n == 0 || n > items.len() { CacheControl { public: true, max_age: 0 } } else { spec_merge(batch_policy(items, (n - 1) as nat), items[n - 1].cache_control) }
}
pub proof fn lemma_batch_wf(items: Seq<Response>, n: nat)
    requires n <= items.len(), forall|j: int| 0 <= j < n ==> (#[trigger] items[j]).cache_control.max_age >= -1
    ensures batch_policy(items, n).max_age >= -1 decreases n
{ if n > 0 { lemma_batch_wf(items, (n - 1) as nat); } }
// the property itself, as a consequence of the fold: the batch policy is never looser than any item's
pub proof fn lemma_batch_not_looser(items: Seq<Response>, n: nat, i: int)
    requires 0 <= i < n <= items.len(), forall|j: int| 0 <= j < n ==> (#[trigger] items[j]).cache_control.max_age >= -1   // well-formed policies: -1 (no-cache), 0 (no hint) or a positive max-age
    ensures (!items[i].cache_control.public ==> !batch_policy(items, n).public),
            (items[i].cache_control.max_age == -1 ==> batch_policy(items, n).max_age == -1),
            (items[i].cache_control.max_age > 0 ==> batch_policy(items, n).max_age == -1 || (0 < batch_policy(items, n).max_age <= items[i].cache_control.max_age))
    decreases n
{
    let prev = batch_policy(items, (n - 1) as nat); let x = items[n - 1].cache_control;
    assert(batch_policy(items, n) == spec_merge(prev, x));
    lemma_batch_wf(items, (n - 1) as nat);
    if i < n - 1 { lemma_batch_not_looser(items, (n - 1) as nat, i); }
}
'''


def batch_unit(kf):
    u = Unit('c20_batch', ['C20'], 'BatchResponse::cache_control is the merge over all responses of the batch, hence never looser than any of them')
    u.kf = kf
    u.extract_type(F, ['struct CacheControl'], keep_derives=['Clone', 'Copy'])
    u.spec(_MERGE_SPEC, 'merge spec')
    u.extract_fn(F, ['impl CacheControl', 'fn merge'], wrap_impl='CacheControl', ensures=['r == spec_merge(self, *other)'], canary=False,
                 label=F + '::impl CacheControl::fn merge (callee, proved in c20_merge)')
    u.trusted(BATCH_SHIMS, 'Response shim')
    u.shim_conformance(RS, ['struct Response'], [('cache_control', 'CacheControl')])
    u.extract_type(RS, ['enum BatchResponse'])
    u.spec(BATCH_SPEC, 'batch policy spec + not-looser lemma')
    u.extract_fn(RS, ['impl BatchResponse', 'fn cache_control'], wrap_impl='BatchResponse',
                 rewrites=[IterFold(), Sub('CacheControl::default()', 'cache_control_default()', rule='R-ty')],
                 ensures=['match *self { BatchResponse::Single(resp) => r == resp.cache_control, BatchResponse::Batch(resp) => r == batch_policy(resp@, resp@.len()) }'],
                 loops={0: dict(prop=['acc == batch_policy(resp@, itf.index@ as nat)'], aux=[],
                                head='proof { assert(*item == resp@[itf.index@ as int]); }')})
    u.assume('CacheControl::default() is { public: true, max_age: 0 } (derive(Default) on the real struct with `public` defaulting to true: see impl Default)')
    u.search_case('response.rs', 'c20_policy')
    return u


UNITS['c20_batch'] = (['C20'], batch_unit)
SEARCH['c20_batch'] = ['c20_policy']

BOUNDED = {'C20': [dict(case='c20_policy', function='the policy attached to a response end to end: derive-emitted cache_control hints (Object, SimpleObject incl. generic `concrete` instantiations, fields), validation::visitors::CacheControlCalculate through the visit_* driver, Schema::execute / execute_batch, BatchResponse::cache_control',
                        bound='32 hand-written (query or batch, expected policy) pairs on a derive-built schema: aliases, fragments, private / no-cache / max-age hints on objects and fields, generic SimpleObjects, partial responses, batches',
                        why='ties the merge / visitor / batch kernels to the derive macros and the visitor driver, which are proc-macro output and closure-heavy traversal code outside Verus and Kani')]}
