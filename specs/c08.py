"""C08 -- built-in validators accept exactly their predicate.

Engine K (complete, loop-free, full-domain): maximum / minimum / multiple_of on the real compiled
functions, for every (T, N) pair `derive/src/validators.rs` can generate (N is `i64` for an integer
literal and `f64` for a float literal; T is the argument's Rust number type).
Engine V: the length validators (max/min_items, max/min_length, chars_max/min_length).
"""
from vx.unit import Unit, Sub, MacroCall, ReSub

INTS = ['i8', 'i16', 'i32', 'i64', 'isize', 'u8', 'u16', 'u32', 'u64', 'usize']
FLOATS = ['f32', 'f64']
WIDE = ['i64', 'u64', 'isize', 'usize']
BYTES = dict(i8=1, i16=2, i32=4, i64=8, isize=8, u8=1, u16=2, u32=4, u64=8, usize=8, f32=4, f64=8)

KF_WRAP = 'C08-unsigned-wrap'
KF_TRUNC = 'C08-float-to-i64-truncation'
KF_ROUND = 'C08-wide-int-to-f64-rounding'

HELPERS = r'''
use async_graphql::validators::{maximum, minimum, multiple_of};
const P63: f64 = 9223372036854775808.0;
const P64: f64 = 18446744073709551616.0;
// exact comparisons between an integer (as i128, |v| < 2^64) and an f64
fn floor_i128(n: f64) -> i128 { let t = n as i128; if (t as f64) > n { t - 1 } else { t } }   // requires |n| < 2^64
fn ceil_i128(n: f64) -> i128 { let t = n as i128; if (t as f64) < n { t + 1 } else { t } }
fn int_le_f64(v: i128, n: f64) -> bool { if n != n { false } else if n >= P64 { true } else if n < -P63 { false } else { v <= floor_i128(n) } }
fn int_ge_f64(v: i128, n: f64) -> bool { if n != n { false } else if n >= P64 { false } else if n < -P63 { true } else { v >= ceil_i128(n) } }
fn f64_le_int(v: f64, n: i128) -> bool { if v != v { false } else if v >= P64 { false } else if v < -P63 { true } else { ceil_i128(v) <= n } }
fn f64_ge_int(v: f64, n: i128) -> bool { if v != v { false } else if v >= P64 { true } else if v < -P63 { false } else { floor_i128(v) >= n } }
'''


def expected(fn, T, N):
    """Exact-arithmetic predicate text over `v: T`, `n: N` (the property's 'exact arithmetic for its declared Rust type')."""
    ti, ni = T in INTS, N == 'i64'
    if fn in ('maximum', 'minimum'):
        le = fn == 'maximum'
        if ti and ni:
            return f'(v as i128) {"<=" if le else ">="} (n as i128)'
        if ti and not ni:
            return f'{"int_le_f64" if le else "int_ge_f64"}(v as i128, n)'
        if not ti and ni:
            return f'{"f64_le_int" if le else "f64_ge_int"}(v as f64, n as i128)'
        return f'(v as f64) {"<=" if le else ">="} n'
    # multiple_of: v != 0 (zero is excluded: pinned by the repository's own unit test) and v mod n == 0 exactly
    if ti and ni:
        return '(v as i128) != 0 && (v as i128) % (n as i128) == 0'
    # IEEE-754 fmod is exact, and the conversion of v is exact under the stated domain => this IS exact arithmetic
    return '(v as f64) != 0.0 && (v as f64) % (n as f64) == 0.0'


def carve(fn, T, N):
    """(finding id, assume-expression) for the open known findings that cover this instantiation."""
    out = []
    if T in ('u64', 'usize') and N == 'i64':
        out.append((KF_WRAP, f'v <= i64::MAX as {T}'))
    if T in FLOATS and N == 'i64':
        # integer-valued, finite and inside the i64 range: the only floats on which `as i64` is exact
        out.append((KF_TRUNC, 'v == v && (v as f64) < P63 && (v as f64) >= -P63 && ((v as f64) as i64) as f64 == (v as f64)'))
    if T in WIDE and N == 'f64':
        out.append((KF_ROUND, '(v as i128) <= (1i128 << 53) && (v as i128) >= -(1i128 << 53)'))
    return out


def pre(fn, T, N):
    if fn == 'multiple_of' and N == 'i64':
        # configuration input (schema author's literal); `x % 0` panics. i64::MIN % -1 overflows likewise.
        return ['n != 0', 'n != -1']
    return []


def KANI(kf_all):
    src = [HELPERS]
    hs = []
    for fn in ('maximum', 'minimum'):
        for T in INTS + FLOATS:
            for N in ('i64', 'f64'):
                name = f'{fn}__{T}__{N}'
                assumes = list(pre(fn, T, N))
                carved = []
                for fid, expr in carve(fn, T, N):
                    if fid in kf_all:
                        assumes.append(expr); carved.append(fid)
                exp = expected(fn, T, N)
                body_pre = ''.join(f'    kani::assume({a});\n' for a in assumes)
                desc = f'contract: {fn}::<{T},{N}>(v, n).is_ok() <=> {exp}'
                for variant in ('', '__canary'):
                    if variant and not assumes:
                        continue
                    check = f'assert!(ok == ({exp}), "{desc}");' if not variant else 'assert!(false, "canary: assumptions are satisfiable and the call returns");'
                    src.append(f'''
#[kani::proof]
#[kani::stub(alloc::fmt::format, fmt_stub)]
pub fn {name}{variant}() {{
    let v: {T} = kani::any();
    let n: {N} = kani::any();
{body_pre}    let r = {fn}(&v, n);
    let ok = r.is_ok();
    core::mem::forget(r);
    {check}
}}
''')
                    hs.append(dict(
                        name=name + variant, props=['C08'], kind='complete', tier='quick', canary=bool(variant),
                        function=f'src/validators/{fn}.rs::{fn}::<{T},{N}>',
                        contract=desc + (f'  [assuming {" && ".join(assumes)}]' if assumes else ''),
                        carved=carved, assumes=assumes,
                        replay_case='c08_num',
                        decode=(lambda vals, fn=fn, T=T, N=N: dict(fn=fn, T=T, N=N, v=_dec(vals[0], T), n=_dec(vals[1], N)))))
    return '\n'.join(src), hs


def _dec(bs, ty):
    x = int.from_bytes(bytes(bs), 'little', signed=False)
    if ty in FLOATS:
        return dict(bits=x)
    if ty.startswith('i') and x >= 1 << (8 * len(bs) - 1):
        x -= 1 << (8 * len(bs))
    return str(x)


REM_LEMMAS = r'''
use vstd::arithmetic::div_mod::*;
pub proof fn lemma_multiple_mod_zero(b: int, k: int)
    requires b != 0
    ensures (b * k) % b == 0
{
    let x = b * k;
    let r = x % b;
    let q = x / b;
    assert(x == b * q + r && 0 <= r && (b > 0 ==> r < b) && (b < 0 ==> r < -b)) by (nonlinear_arith) requires b != 0, r == x % b, q == x / b;
    let m = k - q;
    assert(b * m == r) by (nonlinear_arith) requires x == b * k, x == b * q + r, m == k - q;
    if m >= 1 {
        assert(false) by (nonlinear_arith) requires m >= 1, b * m == r, 0 <= r, (b > 0 ==> r < b), (b < 0 ==> r < -b), b != 0;
    } else if m <= -1 {
        assert(false) by (nonlinear_arith) requires m <= -1, b * m == r, 0 <= r, (b > 0 ==> r < b), (b < 0 ==> r < -b), b != 0;
    } else {
        assert(r == 0) by (nonlinear_arith) requires m == 0, b * m == r;
    }
}
pub proof fn lemma_mod_zero_is_multiple(a: int, b: int)
    requires b != 0, a % b == 0
    ensures a == b * (a / b)
{
    assert(a == b * (a / b) + a % b) by (nonlinear_arith) requires b != 0;
}
pub proof fn lemma_rem_zero(a: int, b: int)
    requires b != 0
    ensures (rust_rem(a, b) == 0) <==> (a % b == 0)
{
    if a == 0 {
        lemma_multiple_mod_zero(b, 0);
        assert(b * 0 == 0) by (nonlinear_arith);
    } else if a < 0 {
        if a % b == 0 {
            lemma_mod_zero_is_multiple(a, b);
            let q = a / b;
            assert(-a == b * (-q)) by (nonlinear_arith) requires a == b * q;
            lemma_multiple_mod_zero(b, -q);
        }
        if (-a) % b == 0 {
            lemma_mod_zero_is_multiple(-a, b);
            let q = (-a) / b;
            assert(a == b * (-q)) by (nonlinear_arith) requires -a == b * q;
            lemma_multiple_mod_zero(b, -q);
        }
    }
}
'''

# ------------------------------------------------------------------ engine V: length validators
IVE = '''
// shim (trusted): async_graphql::InputValueError<T> is only constructed here (from a message), never inspected
pub struct InputValueError { pub message: String }
#[verifier::external_body]
pub fn verif_msg() -> (r: InputValueError) { unimplemented!() }
'''


def length_unit(kf):
    u = Unit('c08_lengths', ['C08'], 'length validators: is_ok <=> len <= / >= bound')
    u.kf = kf
    u.trusted(IVE, 'InputValueError shim')
    u.trusted('''
// assumed contracts on std (vstd has no spec for these): str::len is the UTF-8 byte length, chars().count() the number of scalar values
pub uninterp spec fn utf8_len(s: Seq<char>) -> nat;
#[verifier::external_body]
pub fn str_len(s: &str) -> (r: usize) ensures r as nat == utf8_len(s@) { s.len() }
#[verifier::external_body]
pub fn chars_count(s: &str) -> (r: usize) ensures r as nat == s@.len() { s.chars().count() }
''', 'std string length specs')
    u.assume('str::len() == UTF-8 byte length and str::chars().count() == number of scalar values (std, assumed)')
    common = [MacroCall('format', 'verif_msg()', rule='R-msg', count=1),
              Sub('.into()', '', count=1, rule='R-msg')]
    sigs = {
        'items': [ReSub(r'<T: Deref<Target = \[E\]> \+ InputType, E>', '<E>'), ReSub(r'value: &T', 'value: &Vec<E>'),
                  ReSub(r'InputValueError<T>', 'InputValueError')],
        'str': [ReSub(r'<T: AsRef<str> \+ InputType>', ''), ReSub(r'value: &T', 'value: &str'),
                ReSub(r'InputValueError<T>', 'InputValueError')],
    }
    for name, kind, op in [('max_items', 'items', '<='), ('min_items', 'items', '>=')]:
        u.extract_fn(f'src/validators/{name}.rs', [f'fn {name}'],
                     sig_rewrites=[ReSub(r'<T: Deref<Target = \[E\]> \+ InputType, E>', '<E>'), ReSub(r'value: &T', 'value: &Vec<E>'),
                                   ReSub(r'InputValueError<T>', 'InputValueError')],
                     rewrites=[Sub('value.deref().len()', 'value.len()', count=2, rule='R-inst')] + common,
                     ensures=[f'r.is_ok() <==> value@.len() {op} len'])
    for name, op in [('max_length', '<='), ('min_length', '>=')]:
        u.extract_fn(f'src/validators/{name}.rs', [f'fn {name}'],
                     sig_rewrites=[ReSub(r'<T: AsRef<str> \+ InputType>', ''), ReSub(r'value: &T', 'value: &str'),
                                   ReSub(r'InputValueError<T>', 'InputValueError')],
                     rewrites=[Sub('value.as_ref().len()', 'str_len(value)', count=2, rule='R-inst')] + common,
                     ensures=[f'r.is_ok() <==> utf8_len(value@) {op} len'])
    for name, op in [('chars_max_length', '<='), ('chars_min_length', '>=')]:
        u.extract_fn(f'src/validators/{name}.rs', [f'fn {name}'],
                     sig_rewrites=[ReSub(r'<T: AsRef<str> \+ InputType>', ''), ReSub(r'value: &T', 'value: &str'),
                                   ReSub(r'InputValueError<T>', 'InputValueError')],
                     rewrites=[Sub('value.as_ref().chars().count()', 'chars_count(value)', count=2, rule='R-inst')] + common,
                     ensures=[f'r.is_ok() <==> value@.len() {op} len'])
    u.search_case('src/validators/', 'c08_len')
    return u



def multiple_of_unit(kf):
    """multiple_of::<T, i64> for every integer T, by textual instantiation (R-inst). CBMC cannot decide 64-bit
    symbolic remainder in reasonable time (measured: > 15 min), Z3 through Verus can."""
    u = Unit('c08_multiple_of', ['C08'], 'multiple_of::<T,i64>: is_ok <=> v != 0 && v mod n == 0 (exact)')
    u.kf = kf
    u.trusted(IVE, 'InputValueError shim')
    u.spec(REM_LEMMAS, 'divisibility lemmas (Rust truncated remainder is zero iff the Euclidean one is)')
    for T in INTS:
        req = ['n != 0', 'n != -1'] + (u.carve(KF_WRAP, f'*value <= i64::MAX as {T}') if T in ('u64', 'usize') else [])
        u.extract_fn('src/validators/multiple_of.rs', ['fn multiple_of'], name=f'multiple_of__{T}__i64',
                     label=f'src/validators/multiple_of.rs::fn multiple_of::<{T},i64>',
                     sig_rewrites=[ReSub(r'<T, N>', ''), ReSub(r'value: &T', f'value: &{T}'), ReSub(r'n: N', 'n: i64'),
                                   ReSub(r'InputValueError<T>', 'InputValueError'), ReSub(r'where[\s\S]*$', '')],
                     rewrites=[Sub('value.as_()', '(*value as i64)', rule='R-inst'),
                               Sub('value.is_zero()', '(value == 0)', rule='R-inst'),
                               Sub('N::zero()', '0', rule='R-inst'),
                               MacroCall('format', 'verif_msg()', rule='R-msg', count=1),
                               Sub('.into()', '', count=1, rule='R-msg')],
                     inserts=[('before', 'if !(value == 0)', 'proof { lemma_rem_zero(value as int, n as int); }')],
                     requires=req,
                     ensures=['r.is_ok() <==> (*value as int) != 0 && (*value as int) % (n as int) == 0'])
    u.assume('multiple_of: n != 0 and n != -1 are preconditions (n is the schema author\'s literal; `x % 0` and `i64::MIN % -1` panic) -- configuration, not client input')
    u.assume('multiple_of excludes 0 (`!value.is_zero()`); pinned by the repository\'s own unit test, so the contract states it rather than reporting it')
    u.assume('multiple_of with a float operand (T or N = f32/f64) is NOT under contract: IEEE remainder is outside both Verus (floats uninterpreted) and CBMC (no result in 15 min)')
    u.search_case('fn multiple_of', 'c08_num_search_multiple_of')
    return u


UNITS = {'c08_lengths': (['C08'], length_unit), 'c08_multiple_of': (['C08'], multiple_of_unit)}
SEARCH = {'c08_lengths': ['c08_len'], 'c08_multiple_of': ['c08_num_search_multiple_of']}

BOUNDED = {'C08': [dict(case='c08_derive', function='derive/src/validators.rs code generation (list mode, nullable elements, several validators per argument) and src/validators/regex.rs, through Schema::execute',
                        bound='37 (query, accepted?) pairs over 9 annotated arguments, run against one schema in 4 orders (as written, reversed, 2 seeded shuffles)',
                        why='the wiring of validators to arguments is proc-macro output; regex delegates to the regex crate; order-dependence (process-wide state) is a history property no per-call contract sees'),
                   dict(case='c08_len', function='max_length / min_length / chars_* / max_items / min_items validators through their public functions', bound='boundary lengths around n for ASCII and multi-byte strings and small vectors', why='concrete cross-check of the length kernels (which are proved) on the compiled code')]}
