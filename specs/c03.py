"""C03 -- an error nulls the nearest nullable position and is reported once: <Option<T> as OutputType>::resolve kernel (await-erased)."""
from vx.unit import Unit, Sub, ReSub, AwaitErase

F = 'src/types/external/optional.rs'

SHIMS = r'''
// trusted shims. R-await: `x.await` is a call run to completion (sequential reading only; sound for "what this function does in
// program order", says nothing about concurrent siblings). R-interior: ctx.add_error pushes into QueryEnv.errors behind a Mutex;
// modelled as a &mut context whose error list is ghost-visible.
pub struct ServerError { pub id: u64 }
pub type ServerResult<T> = Result<T, ServerError>;
pub enum Value { Null, Other(u64) }                     // only Null matters to this kernel
pub struct Field { pub id: u64 }
pub struct Positioned<T> { pub node: T }
pub struct ContextSelectionSet { pub errors: Vec<ServerError> }
impl ContextSelectionSet {
    pub fn add_error(&mut self, error: ServerError)
        ensures final(self).errors@ == old(self).errors@.push(error)
    { self.errors.push(error); }
}
pub trait OutputType: Sized {
    spec fn spec_resolve(&self, field: Field) -> ServerResult<Value>;
    // the inner value's own resolution: its result is opaque; errors it records itself are its own business (frame assumed empty here)
    fn resolve(&self, ctx: &mut ContextSelectionSet, field: &Positioned<Field>) -> (r: ServerResult<Value>)
        ensures r == self.spec_resolve(field.node), final(ctx).errors@ == old(ctx).errors@;
}
'''


def option_unit(kf):
    u = Unit('c03_option_resolve', ['C03'], 'a nullable position absorbs the error of its value: Ok(Null) and the error recorded exactly once')
    u.kf = kf
    u.trusted(SHIMS, 'context / OutputType shims (await-erased)')
    u.extract_fn(F, ['impl<T: OutputType + Sync> OutputType for Option<T>', 'fn resolve'], name='option_resolve',
                 label=F + '::impl OutputType for Option<T>::fn resolve',
                 sig_rewrites=[AwaitErase(), ReSub(r'fn resolve\(', 'fn resolve<T: OutputType>('), ReSub(r'&self', 'this: &Option<T>'),
                               ReSub(r"&ContextSelectionSet<'_>", '&mut ContextSelectionSet')],
                 rewrites=[AwaitErase(), Sub('= self {', '= this {', rule='R-self')],
                 ensures=['this is None ==> (r == Ok::<Value, ServerError>(Value::Null) && final(ctx).errors@ == old(ctx).errors@)',
                          'this is Some && this->Some_0.spec_resolve(field.node) is Ok ==> (r == this->Some_0.spec_resolve(field.node) && final(ctx).errors@ == old(ctx).errors@)',
                          'this is Some && this->Some_0.spec_resolve(field.node) is Err ==> (r == Ok::<Value, ServerError>(Value::Null) '
                          '&& final(ctx).errors@ == old(ctx).errors@.push(this->Some_0.spec_resolve(field.node)->Err_0))   // nulled here, reported once, not propagated'])
    u.assume('R-await (await-erasure) and R-interior (Mutex-guarded error list as &mut state): sequential reading only')
    u.assume('the inner value\'s resolve is abstract (uninterpreted result; assumed not to touch the error list in this kernel)')
    u.search_case('optional.rs', 'c03_errors')
    return u



TAIL_SHIMS = r'''
// trusted shims for the tail of Schema::execute_once (E2 fragment): Response, and QueryEnv's Mutex-guarded lists (R-interior)
pub struct RespValue { pub id: u64 }
pub struct Response { pub data: Option<RespValue>, pub errors: Vec<ServerError> }
impl Response {
    pub fn new(v: RespValue) -> (r: Response) ensures r.data == Some(v), r.errors@ == Seq::<ServerError>::empty() { Response { data: Some(v), errors: Vec::new() } }
    pub fn from_errors(e: Vec<ServerError>) -> (r: Response) ensures r.data is None, r.errors@ == e@ { Response { data: None, errors: e } }
}
pub fn vec_one(e: ServerError) -> (r: Vec<ServerError>) ensures r@ == seq![e] { let mut v = Vec::new(); v.push(e); v }
pub struct QueryEnv { pub errors: Vec<ServerError> }
impl QueryEnv {
    // std::mem::take(&mut *env.errors.lock().unwrap())
    #[verifier::external_body]
    pub fn take_errors(&mut self) -> (r: Vec<ServerError>) ensures r@ == old(self).errors@, final(self).errors@ == Seq::<ServerError>::empty() { unimplemented!() }
}
#[verifier::external_body]
pub fn extend_errors(dst: &mut Vec<ServerError>, src: Vec<ServerError>) ensures final(dst)@ == old(dst)@ + src@ { unimplemented!() }
'''


def tail_unit(kf):
    u = Unit('c03_execute_once_tail', ['C03'], 'the response carries the propagated error (if any) followed by every error captured at nullable positions')
    u.kf = kf
    u.trusted(SHIMS, 'context shims')
    u.trusted(TAIL_SHIMS, 'Response / QueryEnv shims')
    u.extract_fragment('src/schema.rs', ['impl<Query, Mutation, Subscription> Schema<Query, Mutation, Subscription>', 'fn execute_once'],
                       'let mut resp = match res {', 'resp.errors .extend(std::mem::take(&mut *env.errors.lock().unwrap()));',
                       name='execute_once_tail',
                       header='fn execute_once_tail(res: Result<RespValue, ServerError>, env: &mut QueryEnv) -> (resp: Response)',
                       footer='    resp\n}',
                       rewrites=[Sub('.http_headers(std::mem::take(&mut *env.http_headers.lock().unwrap()))', '', rule='R-interior'),
                                 Sub('Response::from_errors(vec![err])', 'Response::from_errors(vec_one(err))', rule='R-ty'),
                                 Sub('resp.errors .extend(std::mem::take(&mut *env.errors.lock().unwrap()));', 'extend_errors(&mut resp.errors, env.take_errors());', rule='R-interior')],
                       ensures=['resp.errors@ == (match res { Ok(_) => Seq::<ServerError>::empty(), Err(e) => seq![e] }) + old(env).errors@   // captured errors are reported whether or not the root resolved',
                                'match res { Ok(v) => resp.data == Some(v), Err(_) => resp.data is None }',
                                'final(env).errors@ == Seq::<ServerError>::empty()'])
    u.assume('execute_once: only the response-assembly fragment (E2) is under contract; http headers dropped; the Mutex-guarded error list is modelled as &mut state (R-interior)')
    u.search_case('schema.rs', 'c03_errors')
    return u


WEAK_SHIMS = r'''
// std::sync::Weak<T>: upgrade() yields the live value or None (Arc<T> is a transparent OutputType wrapper: R-ty)
pub struct Weak<T> { pub live: Option<T> }
impl<T> Weak<T> { pub fn upgrade(&self) -> (r: &Option<T>) ensures *r == self.live { &self.live } }
'''


def weak_unit(kf):
    u = Unit('c03_weak_resolve', ['C03'], 'Weak<T> is a nullable position like Option<T>: a dangling weak is null, an error below a live weak is absorbed and recorded once')
    u.kf = kf
    u.trusted(SHIMS, 'context / OutputType shims (await-erased)')
    u.trusted(WEAK_SHIMS, 'Weak shim')
    opt_ens = lambda this: [f'{this} is None ==> (r == Ok::<Value, ServerError>(Value::Null) && final(ctx).errors@ == old(ctx).errors@)',
                            f'{this} is Some && {this}->Some_0.spec_resolve(field.node) is Ok ==> (r == {this}->Some_0.spec_resolve(field.node) && final(ctx).errors@ == old(ctx).errors@)',
                            f'{this} is Some && {this}->Some_0.spec_resolve(field.node) is Err ==> (r == Ok::<Value, ServerError>(Value::Null) '
                            f'&& final(ctx).errors@ == old(ctx).errors@.push({this}->Some_0.spec_resolve(field.node)->Err_0))   // nulled here, reported once, not propagated']
    # Option<T>::resolve: proved in c03_option_resolve; here only its contract (modular)
    u.trusted('''
#[verifier::external_body]
fn option_resolve<T: OutputType>(this: &Option<T>, ctx: &mut ContextSelectionSet, field: &Positioned<Field>) -> (r: ServerResult<Value>)
    ensures
        ''' + ',\n        '.join(c.split('   //')[0] for c in opt_ens('this')) + '''
{ unimplemented!() }''', 'Option<T>::resolve contract (proved in c03_option_resolve)')
    u.extract_fn('src/base.rs', ['impl<T: OutputType + ?Sized> OutputType for Weak<T>', 'fn resolve'], name='weak_resolve',
                 label='src/base.rs::impl OutputType for Weak<T>::fn resolve',
                 sig_rewrites=[AwaitErase(), ReSub(r'fn resolve\(', 'fn resolve<T: OutputType>('), ReSub(r'&self', 'this: &Weak<T>'),
                               ReSub(r"&ContextSelectionSet<'_>", '&mut ContextSelectionSet')],
                 rewrites=[AwaitErase(), Sub('self.upgrade().resolve(ctx, field)', 'option_resolve(this.upgrade(), ctx, field)', count='*', rule='R-self'),
                           Sub('self.upgrade()', 'this.upgrade()', count='*', rule='R-self')],
                 ensures=opt_ens('this.live'))
    u.assume('Weak<T> / Arc<T> represented by the (possibly absent) target value (R-ty); Option<T>::resolve is used through its contract (proved in c03_option_resolve)')
    u.search_case('base.rs', 'c03_errors')
    return u


UNITS = {'c03_option_resolve': (['C03'], option_unit), 'c03_execute_once_tail': (['C03'], tail_unit), 'c03_weak_resolve': (['C03'], weak_unit)}
SEARCH = {'c03_option_resolve': ['c03_errors'], 'c03_execute_once_tail': ['c03_errors'], 'c03_weak_resolve': ['c03_errors']}
BOUNDED = {'C03': [dict(case='c03_errors', function='error capture through src/resolver_utils/{container,list}.rs, src/types/external/optional.rs, src/dynamic/resolve.rs (static and dynamic schemas, through Schema::execute)',
                        bound='~40 queries over one static and one dynamic schema whose resolvers fail at chosen positions (nullable / non-null fields, nested objects, list items); response data, error count and error paths compared with the GraphQL spec\'s error propagation',
                        why='the executor is async over dyn Future / try_join_all and derive-generated resolve_field; only the Option<T> absorption kernel is under contract')]}
