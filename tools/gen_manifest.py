#!/usr/bin/env python3
"""Regenerates /verif/MANIFEST.json from the table below (claimed checks + not_applicable with reasons)."""
import json, os, subprocess
ROOT = os.path.dirname(os.path.dirname(os.path.abspath(__file__)))
TECH_V = 'contract-based deductive verification: Verus (Z3) on functions mechanically extracted from /repo on every run, contracts spliced from /verif/specs'
TECH_K = 'contract-based deductive verification: Kani/CBMC complete (loop-free, full-domain) harness-contracts on the real compiled crates'
CLAIMED = {
 'C01': dict(engine='verus', tech=TECH_V + ' (E2 fragment); bounded response table stand-in (labelled bounded, never counted)', text='Kernel contract only: the type-condition expression of Fields::add_set is proved equal to the spec\'s DoesFragmentTypeApply (same object type, implemented interface, or union membership) for every registry -- except for union conditions on a concrete object, which it misses (open known finding, carved out and re-confirmed on every run). Collection, merging, ordering and pruning are only sampled by a hand-written response table.',
             note='Trusted: registry field-subset shims, String equality axiom; the fragment\'s free variables are parameters (surrounding control flow unverified). Not covered: the async collection loop, create_value_object / insert_value, remove_skipped_selection, resolve_list, derive output.'),
 'C03': dict(engine='verus', tech=TECH_V + ' (await-erased); bounded response table stand-in (labelled bounded, never counted)', text='Kernel contract only: <Option<T> as OutputType>::resolve (await-erased) is proved to turn an inner error into Ok(Null) with the error recorded exactly once, and to leave successful values and the error list untouched. Error propagation through the executor is only sampled by a hand-written response table (three open known findings).',
             note='Trusted: await-erasure (sequential reading), Mutex-guarded error list as &mut state, abstract inner resolve. Not covered: try_join_all short-circuiting, list items, derive-generated resolve_field, dynamic executor, subscriptions.'),
 'C06': dict(engine='verus', tech=TECH_V + '; bounded coercion-table stand-in (labelled bounded, never counted)', text='Kernel contracts only: <Option<T> as InputType>::parse and <MaybeUndefined<T> as InputType>::parse are proved to map omitted / null / value exactly as CoerceArgumentValues prescribes (omitted and null -> None; Undefined / Null / Value), delegating non-null values to the wrapped type. Variable substitution and defaults are only sampled by a hand-written coercion table on a static and a dynamic schema.',
             note='Trusted: wrapped type parse abstract. Not covered: context.rs::{var_value, resolve_input_value_inner, get_param_value} (closure chains), derive-generated InputObject parse, dynamic collect_field argument block.'),
 'C07': dict(engine='verus', tech=TECH_V, text='Kernel contracts only: ScalarType::{parse,to_value,is_valid} of the integer scalars are proved, for all values, to accept exactly the type\'s integer range and to round-trip (parse(to_value(x)) == Ok(x)).',
             note='Trusted: serde_json::Number model (as_i64/as_u64/From), 64-bit usize, extraction rewrites R-self/R-msg/R-closure/R-from. Not covered: the #[Scalar] macro wrapper, floats, derive-generated enums.'),
 'C08': dict(engine='verus+kani', tech=TECH_K + '; ' + TECH_V, text='Kernel contracts only: maximum/minimum for every (T,N) the derive can generate are proved on the compiled real code against exact arithmetic (Kani, complete); multiple_of::<int,i64> and the six length validators are proved with Verus. Three open known findings are carved out and re-confirmed on every run.',
             note='Trusted: CBMC/Kani, fmt::format stub, std str length specs. Not covered: derive/src/validators.rs code generation (list mode), multiple_of with float operands, regex.'),
 'C09': dict(engine='verus', tech=TECH_V + '; bounded validity-table stand-in (labelled bounded, never counted)', text='Kernel contract only: the composite visitor VisitorCons is proved to forward every hook of trait Visitor (method list read from the real trait on every run) to both members in order with the same arguments -- except the two input-value hooks, which it does not forward (open known finding, re-confirmed on every run). The rules themselves are only sampled by a hand-labelled validity table.',
             note='Trusted: hook effects modelled by uninterpreted functions; parameter types opaque. Not covered: the 22 individual rules and the visit_* driver; MetaTypeName::is_subtype; is_valid_input_value.'),
 'C10': dict(engine='verus', tech=TECH_V, text='Kernel contracts only: the recursion-depth walker of check_recursive_depth is proved (unbounded, incl. termination on cyclic fragments and overflow freedom) to reject exactly the documents whose selection nesting, with fragments inlined, exceeds the limit.',
             note='Trusted: HashMap lookup shim, ServerError shim, AST types extracted verbatim. Not covered yet: depth/complexity visitors, check_rules limit comparison, the visitor driver, generated compute_complexity.'),
 'C12': dict(engine='verus', tech=TECH_V + '; bounded replay enumeration stand-in for the parser builders (labelled bounded, never counted)', text='Kernel contracts only: Upload::parse is proved panic-free for every Option<Value>; the recursion-depth walker (shared unit with C10) is proved overflow-free and terminating on every document incl. cyclic fragments. The parser builders are only exercised by a bounded enumeration (no panic; nesting beyond the limit rejected).',
             note='Trusted: str::strip_prefix / str::parse specs. Not covered: stack depth of the pest-generated parser, serde/multer/tungstenite decoders, progress (hang), Upload::value indexing (needs Context).'),
 'C14': dict(engine='verus', tech=TECH_V, text='Kernel contract only: PositionCalculator::step is proved (unbounded loop invariant) to advance (line, column) exactly as the property\'s line-terminator semantics prescribe for the consumed text; composition over any number of steps by lemma.',
             note='Trusted: pest span offsets on char boundaries, str byte slicing spec, pairs stepped in document order. Not covered: that every AST node takes its pos from step on the right pair; pest\'s own error positions.'),
 'C15': dict(engine='verus', tech=TECH_V, text='Kernel contract only: write_quoted prints a quoted string whose body decodes (crate string grammar semantics) to exactly the value, for all strings.',
             note='Trusted: Formatter sink shim, {:04x} rendering, char::is_control spec. Not covered: numbers (serde_json Display), lists/objects rendering, JSON conversion, re-parse by the pest grammar.'),
 'C17': dict(engine='verus', tech=TECH_V, text='Kernel contract only: export_sdl::escape_string(s) decodes back to s for all strings (unbounded loop invariant).',
             note='Trusted: String fmt::Write spec. Not covered: export_type/export_fields (writeln! over the registry), block-string descriptions.'),
 'C19': dict(engine='verus', tech=TECH_V + ' (await-erased, payloads abstracted to trace events); bounded mode-matrix stand-in (labelled bounded, never counted)', text='Kernel contract only: the gating control flow of QueryRoot::resolve_field is proved, for every combination of the two introspection modes, field name and federation flags, to run exactly the payload the property allows (introspection objects only when neither mode is Disabled; Ok(None) -- no user, entity or service payload -- when either mode is IntrospectionOnly). One open known finding (_service SDL with introspection disabled) is carved out and re-confirmed on every run.',
             note='Trusted: await-erasure; every branch payload is one opaque trace event (R-payload); String equality axiom. Not covered: __typename (Fields::add_set), execute_once mutation substitution, dynamic collect_fields, subscriptions -- only sampled by the bounded matrix (static schema).'),
 'C20': dict(engine='verus', tech=TECH_V, text='Kernel contract only: CacheControl::merge equals the restrictiveness-order combination for all i32/bool pairs; commutativity, associativity, idempotence proved as lemmas.',
             note='Trusted: nothing beyond Verus/Z3 and the extraction. Not covered: that the visitor driver visits every selection; derive-emitted cache hints.'),
 'C21': dict(engine='verus', tech=TECH_V + '; bounded logged-text stand-in (labelled bounded, never counted)', text='Kernel contract only: Registry::stringify_input_value is proved to print exactly "<secret>" for a secret input value (nothing of the value), the plain rendering for non-secret leaves, and to be append-only. That nested values are printed with the meta of their own field, and the selection-set walk, are only sampled by a bounded enumeration of operations with a secret marker.',
             note='Trusted: registry field-subset shims, IndexMap entry shim, Display of ConstValue opaque; termination of the recursion not proved. Not covered: stringify_selection_set / stringify_exec_doc (closure chains), logger/tracing call sites.'),
 'C22': dict(engine='verus', tech=TECH_V, text='Kernel contracts only: look_ahead::filter is proved (unbounded loop invariant, recursion through inline fragments and spreads) to append exactly the sub-fields named `name` in document order, and Lookahead::field to concatenate that over all parent fields -- for every document with a finite fragment expansion.',
             note='Trusted: HashMap lookup shim, String equality axiom; termination of filter not proved (cyclic fragments are rejected by validation, unverified). Not covered: SelectionFieldsIter (context.rs), resolved argument values, @skip/@include pruning (C01 kernel, not composed).'),
 'C29': dict(engine='verus', tech=TECH_V + '; bounded history stand-in for the async DataLoader API (labelled bounded, never counted)', text='Kernel contracts only: get/insert/remove/clear of HashMapCacheImpl, LruCacheImpl and NoCacheImpl are proved against an abstract map view stated over the whole map (LRU: hit refreshes recency, insert at capacity evicts exactly the least recently used). The async DataLoader operations are only exercised on bounded single-threaded histories.',
             note='Trusted: std HashMap and lru::LruCache shims with their documented semantics; K = V = u64 instantiation. Not covered: DataLoader::{load_many, feed_many, enable_cache, ...} (async, scc::HashMap, dyn Any) beyond the bounded histories; interleavings (C28).'),
 'C31': dict(engine='verus', tech=TECH_V + ' (await-erased); bounded history stand-in (labelled bounded, never counted)', text='Kernel contract only: the persisted-queries prepare_request (await-erased) is proved to hand on a parsed document only if it is the stored document for the given hash (empty query) or the parse of the sent query whose SHA-256 equals the hash; every rejection leaves the store unchanged; the invariant "every stored document is the parse of a text with that hash" is preserved by the call, hence holds after every history.',
             note='Trusted: await-erasure, identity continuation, storage modelled as a map with eviction, SHA-256 and parse_query uninterpreted, from_value opaque. Not covered: that execute uses parsed_query (schema.rs::prepare_request, async); LruCacheStorage itself.'),
 'C32': dict(engine='verus', tech=TECH_V + ' (await-erased); bounded stand-in for the cursor codecs (labelled bounded, never counted)', text='Kernel contract only: connection::query_with (await-erased) is proved to return a validation error for a negative first/last, a decode error for an undecodable cursor, and otherwise exactly the result of the user function applied to the decoded cursors and the losslessly cast first/last.',
             note='Trusted: await-erasure; user callback and CursorType::decode_cursor abstract; error values reduced to their origin. Not covered: cursor.rs codecs (std FromStr/Display, base64+serde), page_info, Edge/Connection assembly.'),
 'C33': dict(engine='verus', tech=TECH_V, text='Kernel contracts only: TypeRef::is_subtype equals the spec\'s IsValidImplementationFieldType (named types identical), is_nullable/type_name/typeref_nonnullable_name against their definitions, for all type-reference trees.',
             note='Trusted: String equality axiom, Cow<str> represented as String. Not covered: the IndexMap-driven check_* loops of dynamic/check.rs, post-build robustness.'),
}
NA = {}
def main():
    props = [json.loads(l) for l in open(os.path.join(ROOT, 'properties.jsonl'))]
    na_file = os.path.join(ROOT, 'tools', 'not_applicable.json')
    na = json.load(open(na_file)) if os.path.exists(na_file) else {}
    hooks = subprocess.run(['git', '-C', '/repo', 'log', '--format=%h %s'], capture_output=True, text=True).stdout.splitlines()
    hook_commits = [l.split()[0] for l in hooks if l.split(' ', 1)[1].startswith('verif hooks')]
    checks = []
    for p in props:
        i = p['id']
        if i in CLAIMED:
            c = CLAIMED[i]
            checks.append({"property_id": i, "quick_cmd": f"./check {i}", "thorough_cmd": f"./check {i} --tier thorough",
                           "evidence_file": f"evidence/{i}.json", "replay_cmd_template": f"./check {i} --replay {{path}}", "engine": c['engine'],
                           "level_claimed": {"category": c.get('level', 'proof'), "text": c['text'], "design_ref": f"DESIGN.md §6 {i}"},
                           "level_note": c['note'], "technique": c['tech']})
    m = {"version": 1, "setup_cmd": "./setup.sh",
         "hooks": {"guard": "cargo feature `verif-hooks` (async-graphql and async-graphql-parser), off by default",
                   "enable": "path dependency with features=[\"verif-hooks\"] in /verif/replay (and /verif/kani when a private kernel is needed); engine V reads source text and needs no hook",
                   "baseline_off_cmd": "cd /repo && cargo nextest run --workspace --no-fail-fast --tool-config-file pb:/w/lib/nextest.toml --profile pb --test-threads 8 --offline",
                   "source_commits": hook_commits, "add_only": True},
         "engines": [{"name": "V", "path": "vx/ + specs/", "serves_properties": sorted(CLAIMED), "kind_free_text": "Verus 0.2026.09.13 on mechanically extracted real functions"},
                     {"name": "K", "path": "kani/ (generated from specs/*.py KANI tables)", "serves_properties": ["C08"], "kind_free_text": "Kani 0.68 complete harness-contracts on the compiled real crates"},
                     {"name": "replay", "path": "replay/", "serves_properties": sorted(CLAIMED), "kind_free_text": "concrete replay of contracts / witnesses against the real code (repo toolchain)"}],
         "checks": checks,
         "notes": "Exit codes of ./check: 0 held, 1 VIOLATION line printed, 2 undecided (lost anchor, unsupported construct, proof-only failure) -- never an alarm.",
         "not_applicable": [{"property_id": p['id'], "reason": na.get(p['id'], 'not yet under contract in this revision (see DESIGN.md §6); no check is claimed')} for p in props if p['id'] not in CLAIMED]}
    json.dump(m, open(os.path.join(ROOT, 'MANIFEST.json'), 'w'), indent=1)
    print('claimed', len(checks), 'n/a', len(m['not_applicable']))
if __name__ == '__main__':
    main()
