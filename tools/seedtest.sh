#!/bin/bash
# seedtest.sh <PROP> <patch.diff> : apply a seeded change to /repo, run the property's quick check, undo the change.
P=$1; D=$2
cd /repo && git status --short | grep -v '^??' | grep -q . && { echo "repo dirty"; exit 2; }
git -C /repo apply $D || { echo "patch does not apply"; exit 2; }
git -C /repo reset -q 2>/dev/null
cd /verif && ./check $P --no-evidence; rc=$?
git -C /repo reset -q --hard HEAD
echo "seedtest $P $(basename $D): exit=$rc"
exit $rc
