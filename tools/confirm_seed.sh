#!/bin/bash
# confirm_seed.sh <PROP> <N>: in the scratch worktree /tmp/wt/<PROP>, confirm that mutation N
#  (a) applies, (b) the full existing suite passes with it, (c) the demo fails with it, (d) the demo passes without it.
# Writes /tmp/wt-out/<PROP>/mutN.confirm.log ; prints a one-line verdict.
P=$1; N=$2; W=/tmp/wt/$P; O=/tmp/wt-out/$P; L=$O/mut$N.confirm.log
cd $W || exit 2
git checkout -q -- . ; : > $L
dest=$(head -1 $O/mut$N.demo/where.txt | grep -o '[a-zA-Z_/]*tests/[A-Za-z0-9_]*\.rs' | head -1)
demo=$(ls $O/mut$N.demo/*.rs | head -1)
[ -z "$dest" ] && dest=tests/$(basename $demo)
cp $demo $W/$dest
tname=$(basename $dest .rs)
pkg=""; case "$dest" in parser/*) pkg="-p async-graphql-parser";; value/*) pkg="-p async-graphql-value";; esac
feat=$(grep -o -- '--features[ =][A-Za-z0-9_,-]*' $O/mut$N.demo/where.txt | head -1); pkg="$pkg $feat"
echo "== demo without mutation" >> $L
cargo test --offline $pkg --test $tname >> $L 2>&1; d0=$?
git apply $O/mut$N.patch.diff >> $L 2>&1 || { echo "$P mut$N: PATCH DOES NOT APPLY"; exit 1; }
echo "== demo with mutation" >> $L
cargo test --offline $pkg --test $tname >> $L 2>&1; d1=$?
rm -f $W/$dest
echo "== full suite with mutation" >> $L
cargo nextest run --workspace --no-fail-fast --offline --test-threads 8 >> $L 2>&1; s=$?
summary=$(grep -E "^\s+Summary" $L | tail -1)
git checkout -q -- .
echo "$P mut$N: demo_without=$d0 demo_with=$d1 suite_with=$s [$summary]" | tee -a $L
