#!/usr/bin/env python3
"""keep_seed.py <PROP> <N> <patch> <result: caught|missed|undecided> <detail...>  -- store a confirmed seeded change under /verif/seeded/."""
import json, os, shutil, sys, glob
P, N, patch, result = sys.argv[1:5]
detail = ' '.join(sys.argv[5:])
src = f'/tmp/wt-out/{P}'
dst = f'/verif/seeded/{P}-{N}'
os.makedirs(dst, exist_ok=True)
shutil.copy(patch, f'{dst}/patch.diff')
for f in glob.glob(f'{src}/mut{N}.demo/*'):
    shutil.copy(f, dst)
notes = open(f'{src}/mut{N}.notes.md').read() if os.path.exists(f'{src}/mut{N}.notes.md') else ''
if notes: open(f'{dst}/notes.md', 'w').write(notes)
confirm = ''
cl = f'{src}/mut{N}.confirm.log'
if os.path.exists(cl):
    confirm = open(cl).read().strip().splitlines()[-1]
meta = dict(property=P, seed=f'{P}-{N}', origin='independent sub-agent given only the property text and a scratch worktree',
            breaks=notes.split('\n\n')[0][:600] if notes else '', needs_to_manifest='see notes.md',
            confirmed_by_me=confirm, ran=['tools/confirm_seed.sh %s %s (scratch worktree: demo without / with mutation, full suite with mutation)' % (P, N),
                                         'tools/seedtest.sh %s seeded/%s-%s/patch.diff (apply to /repo, ./check, revert)' % (P, P, N)],
            check_result=result, check_detail=detail,
            rebased='patch regenerated against the current /repo HEAD (fix: commits changed the context)' if 'rebased' in patch else '')
json.dump(meta, open(f'{dst}/meta.json', 'w'), indent=1)
print('kept', dst)
