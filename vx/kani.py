"""Engine K: runs Kani harnesses of /verif/kani against the real crates (filled in below)."""
def harnesses_for(prop, tier):
    return []
def run_harnesses(hs, kf_open, tier):
    return dict(results=[], trusted=[], assumptions=[])
