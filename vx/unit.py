"""Engine V unit assembler: mechanical extraction of real functions from /repo + contract splicing.

A *unit* is one Verus file assembled on every run from
  - trusted prelude shims (vx/prelude/*.rs) and unit-local trusted shims  -> tag 'trusted'
  - spec functions / lemmas written for the unit                          -> tag 'spec'
  - items whose text is copied out of /repo at check time                 -> tag 'real'
Every rewrite applied to real text is a named, counted, token-level rule (see DESIGN.md §3.2);
the hit counts are reported in the evidence.
"""
import os
import re
from dataclasses import dataclass, field

from .rustlex import (AnchorLost, code_tokens, tokenize, find_seq, pat_tokens, locate,
                      loops_in, match_close, OPEN, CLOSE)

REPO = os.environ.get('VERIF_REPO', '/repo')
HERE = os.path.dirname(os.path.abspath(__file__))


# ----------------------------------------------------------------------------- rewrites
class Rewrite:
    rule = 'R-?'
    def apply(self, text, log): raise NotImplementedError


def _splice(text, edits):
    """edits: list of (start, end, replacement) non-overlapping."""
    for s, e, r in sorted(edits, key=lambda x: -x[0]):
        text = text[:s] + r + text[e:]
    return text


class Sub(Rewrite):
    """Token-level substitution: `old` is matched as a token sequence (whitespace/comments ignored).

    count: exact int, '+' (>=1) or '*' (>=0). A count mismatch is a lost anchor (exit 2)."""
    def __init__(self, old, new, count=1, rule='R-sub', why=''):
        self.old, self.new, self.count, self.rule, self.why = old, new, count, rule, why

    def apply(self, text, log):
        toks = code_tokens(text)
        hits = find_seq(toks, pat_tokens(self.old))
        n = len(hits)
        ok = (self.count == '*') or (self.count == '+' and n >= 1) or (self.count == n)
        if not ok:
            raise AnchorLost(f'rewrite {self.rule} expected {self.count} occurrence(s) of `{self.old}` but found {n}')
        log.append((self.rule, f'{self.old} => {self.new}', n))
        return _splice(text, [(toks[a].start, toks[b - 1].end, self.new) for a, b in hits])


class StripAttrs(Rewrite):
    """R-attr: delete #[...] / #![...] attributes and all comments (incl. doc comments)."""
    rule = 'R-attr'
    def apply(self, text, log):
        all_toks = tokenize(text)
        edits = []
        ncom = 0
        for t in all_toks:
            if t.kind == 'comment':
                edits.append((t.start, t.end, '')); ncom += 1
        toks = [t for t in all_toks if t.kind not in ('ws', 'comment')]
        i = 0; nat = 0
        while i < len(toks):
            if toks[i].text == '#':
                j = i + 1
                if j < len(toks) and toks[j].text == '!': j += 1
                if j < len(toks) and toks[j].text == '[':
                    c = match_close(toks, j)
                    edits.append((toks[i].start, toks[c].end, '')); nat += 1
                    i = c + 1; continue
            i += 1
        log.append((self.rule, 'attributes removed', nat))
        log.append((self.rule, 'comments removed', ncom))
        return _splice(text, edits)


class AwaitErase(Rewrite):
    """R-await: `.await` removed; `async fn` -> `fn`; `async move {` / `async {` -> `{`."""
    rule = 'R-await'
    def apply(self, text, log):
        toks = code_tokens(text)
        edits = []; n = 0
        for i, t in enumerate(toks):
            if t.text == 'await' and i > 0 and toks[i - 1].text == '.':
                edits.append((toks[i - 1].start, t.end, '')); n += 1
            elif t.text == 'async':
                j = i + 1
                if j < len(toks) and toks[j].text == 'move': j += 1
                if j < len(toks) and toks[j].text in ('fn', '{'):
                    edits.append((t.start, toks[j].start, '')); n += 1
        log.append((self.rule, 'await/async erased', n))
        return _splice(text, edits)


class MacroCall(Rewrite):
    """Replace every `name!( ... )` by `new` (R-msg for format!, etc.)."""
    def __init__(self, name, new, rule='R-msg', count='*'):
        self.name, self.new, self.rule, self.count = name, new, rule, count
    def apply(self, text, log):
        toks = code_tokens(text)
        edits = []; n = 0
        i = 0
        while i < len(toks) - 2:
            if toks[i].text == self.name and toks[i + 1].text == '!' and toks[i + 2].text in OPEN:
                c = match_close(toks, i + 2)
                edits.append((toks[i].start, toks[c].end, self.new)); n += 1
                i = c + 1; continue
            i += 1
        ok = (self.count == '*') or (self.count == '+' and n >= 1) or (self.count == n)
        if not ok:
            raise AnchorLost(f'rewrite {self.rule} expected {self.count} `{self.name}!` but found {n}')
        log.append((self.rule, f'{self.name}!(..) => {self.new}', n))
        return _splice(text, edits)



class WriteMacro(Rewrite):
    """R-write: `write!(w, "lit{}lit{:04x}", a, b)` => `{ w.write_str("lit")?; w.write_disp(a)?; w.write_str("lit")?; w.write_hex04(b)?; Ok(()) }`
    produced by a tiny format-string compiler ({} {:04} {:04x} {:x} only; anything else is a lost anchor => exit 2).
    `writeln!` appends a final write_str("\n"). The per-placeholder shim methods carry trusted specs."""
    rule = 'R-write'
    METHODS = {'': 'write_disp', ':04': 'write_dec04', ':04x': 'write_hex04', ':x': 'write_hex', ':?': None}

    def __init__(self, count='*', ok='Ok(())', infallible=False, arg_methods=None):
        # infallible: the sink is a String (fmt::Write for String never fails): no `?`, each piece `.ok();`
        # arg_methods: {argument text (whitespace-free): method} -- type-directed choice of the `{}` shim method
        self.count, self.ok, self.infallible, self.arg_methods = count, ok, infallible, arg_methods or {}

    def apply(self, text, log):
        toks = code_tokens(text)
        edits = []; n = 0
        i = 0
        while i < len(toks) - 2:
            if toks[i].text in ('write', 'writeln') and toks[i + 1].text == '!' and toks[i + 2].text == '(':
                c = match_close(toks, i + 2)
                # split args at depth-0 commas
                args, cur, d = [], [], 0
                for t in toks[i + 3:c]:
                    if t.text in OPEN: d += 1
                    elif t.text in CLOSE: d -= 1
                    if t.text == ',' and d == 0:
                        args.append(cur); cur = []
                    else:
                        cur.append(t)
                if cur: args.append(cur)
                if len(args) < 2 or len(args[1]) != 1 or args[1][0].kind != 'str' or not args[1][0].text.startswith('"'):
                    raise AnchorLost('R-write: unsupported write! shape')
                w = text[args[0][0].start:args[0][-1].end]
                fmt = args[1][0].text[1:-1]
                vals = [text[a[0].start:a[-1].end] for a in args[2:]]
                parts = re.split(r'(\{[^{}]*\})', fmt.replace('{{', '\x00').replace('}}', '\x01'))
                out = []
                vi = 0
                for part in parts:
                    if part.startswith('{') and part.endswith('}'):
                        spec = part[1:-1]
                        if re.fullmatch(r'[A-Za-z_][A-Za-z0-9_]*', spec):   # inline named argument `{name}`
                            m = self.arg_methods.get(spec, 'write_disp')
                            out.append(f'{w}.{m}({"&" if self.infallible else ""}{spec})' + ('.ok();' if self.infallible else '?;'))
                            continue
                        m = self.METHODS.get(spec)
                        if m is None or vi >= len(vals):
                            raise AnchorLost(f'R-write: unsupported placeholder {part}')
                        if spec == '':
                            m = self.arg_methods.get(''.join(vals[vi].split()), m)
                        out.append(f'{w}.{m}({"&" if self.infallible else ""}({vals[vi]}))' + ('.ok();' if self.infallible else '?;')); vi += 1
                    elif part != '':
                        lit = part.replace('\x00', '{').replace('\x01', '}')
                        out.append(f'{w}.write_str("{lit}")' + ('.ok();' if self.infallible else '?;'))
                if toks[i].text == 'writeln':
                    out.append(f'{w}.write_str("\\n")' + ('.ok();' if self.infallible else '?;'))
                if vi != len(vals):
                    raise AnchorLost('R-write: argument count mismatch')
                # implicit named arguments `{name}` in the format string
                edits.append((toks[i].start, toks[c].end, '{ ' + ' '.join(out) + ' ' + (('Ok::<(), core::fmt::Error>(())') if self.infallible else self.ok) + ' }')); n += 1
                i = c + 1; continue
            i += 1
        ok = (self.count == '*') or (self.count == '+' and n >= 1) or (self.count == n)
        if not ok:
            raise AnchorLost(f'rewrite R-write expected {self.count} write!/writeln! but found {n}')
        log.append((self.rule, 'write!/writeln! compiled to write_* calls', n))
        return _splice(text, edits)


class CallSub(Rewrite):
    """Replace every call `path(...)` (path given as token text, e.g. 'InputValueError::from') by `new`."""
    def __init__(self, path, new, rule='R-msg', count='*'):
        self.path, self.new, self.rule, self.count = path, new, rule, count
    def apply(self, text, log):
        toks = code_tokens(text)
        pat = pat_tokens(self.path)
        edits = []; n = 0
        for a, b in find_seq(toks, pat):
            if b < len(toks) and toks[b].text == '(':
                c = match_close(toks, b)
                edits.append((toks[a].start, toks[c].end, self.new)); n += 1
        ok = (self.count == '*') or (self.count == '+' and n >= 1) or (self.count == n)
        if not ok:
            raise AnchorLost(f'rewrite {self.rule} expected {self.count} call(s) of `{self.path}` but found {n}')
        log.append((self.rule, f'{self.path}(..) => {self.new}', n))
        return _splice(text, edits)


class ClosureDesugar(Rewrite):
    """R-closure: `RECV.and_then(|p| BODY)` => `(match RECV { Some(p) => BODY, None => None })` (Option::and_then's definition);
    `RECV.map(|p| BODY)` on an Option => `(match RECV { Some(p) => Some(BODY), None => None })`. RECV is the maximal postfix
    chain (idents, `.`, `::`, balanced brackets, `?`) to the left. Verus accepts closures only with explicit contracts."""
    rule = 'R-closure'
    def __init__(self, method='and_then', count='+'):
        self.method, self.count = method, count
    def apply(self, text, log):
        n = 0
        while True:
            toks = code_tokens(text)
            hit = None
            for i, t in enumerate(toks):
                if t.text == self.method and i > 0 and toks[i - 1].text == '.' and i + 4 < len(toks) and toks[i + 1].text == '(' \
                        and toks[i + 2].text == '|' and toks[i + 3].kind == 'ident' and toks[i + 4].text == '|':
                    hit = i; break
            if hit is None:
                break
            i = hit
            close = match_close(toks, i + 1)
            param = toks[i + 3].text
            body = text[toks[i + 4].end:toks[close].start].strip()
            # receiver: walk left over a postfix chain
            j = i - 1   # the '.'
            k = j - 1
            while k >= 0:
                t = toks[k]
                if t.text in (')', ']'):
                    d = 0
                    while k >= 0:
                        if toks[k].text in (')', ']', '}'): d += 1
                        elif toks[k].text in ('(', '[', '{'):
                            d -= 1
                            if d == 0: break
                        k -= 1
                    k -= 1; continue
                if t.kind in ('ident', 'num') and t.text not in ('let', 'return', 'if', 'match', 'in', 'else', 'mut'):
                    k -= 1; continue
                if t.text in ('.', '::', '?'):
                    k -= 1; continue
                break
            start = toks[k + 1].start
            recv = text[start:toks[j].start].strip()
            if self.method == 'and_then':
                new = f'(match {recv} {{ Some({param}) => {body}, None => None }})'
            elif self.method == 'is_some_and':
                new = f'(match {recv} {{ Some({param}) => {body}, None => false }})'
            elif self.method == 'is_none_or':
                new = f'(match {recv} {{ Some({param}) => {body}, None => true }})'
            else:
                new = f'(match {recv} {{ Some({param}) => Some({body}), None => None }})'
            text = text[:start] + new + text[toks[close].end:]
            n += 1
        ok = (self.count == '*') or (self.count == '+' and n >= 1) or (self.count == n)
        if not ok:
            raise AnchorLost(f'rewrite R-closure expected {self.count} `.{self.method}(|x| ..)` but found {n}')
        log.append((self.rule, f'.{self.method}(|x| ..) desugared to match', n))
        return text


def _receiver_start(toks, dot):
    """toks[dot] is the `.` of a method call; index of the first token of the receiver (maximal postfix chain)."""
    k = dot - 1
    while k >= 0:
        t = toks[k]
        if t.text in (')', ']'):
            d = 0
            while k >= 0:
                if toks[k].text in (')', ']', '}'): d += 1
                elif toks[k].text in ('(', '[', '{'):
                    d -= 1
                    if d == 0: break
                k -= 1
            k -= 1; continue
        if t.kind in ('ident', 'num') and t.text not in ('let', 'return', 'if', 'match', 'in', 'else', 'mut'):
            k -= 1; continue
        if t.text in ('.', '::', '?'):
            k -= 1; continue
        if t.text == '&' and k + 1 < dot and toks[k + 1].kind == 'ident' and (k == 0 or toks[k - 1].text in ('(', ',', '=', '{', ';')):
            k -= 1; continue     # `&x.y` as a whole receiver (call argument position)
        break
    return k + 1


class ClosureMatch(Rewrite):
    """R-closure (general): `RECV.method(|PAT| BODY)` => the `match` that defines the std combinator, with the closure's
    pattern and body copied verbatim. kind selects the combinator's definition:
      opt.map opt.and_then opt.or_else opt.ok_or_else opt.unwrap_or_else opt.is_some_and opt.is_none_or res.map res.map_err res.and_then
    Laziness of BODY is preserved (it sits in a match arm). A combinator call whose argument is not a closure literal is left alone."""
    rule = 'R-closure'
    TEMPLATES = {
        'opt.map': '(match {recv} {{ Some({pat}) => Some({body}), None => None }})',
        'opt.and_then': '(match {recv} {{ Some({pat}) => {body}, None => None }})',
        'opt.or_else': '(match {recv} {{ Some(x__) => Some(x__), None => {body} }})',
        'opt.ok_or_else': '(match {recv} {{ Some(x__) => Ok(x__), None => Err({body}) }})',
        'opt.unwrap_or_else': '(match {recv} {{ Some(x__) => x__, None => {body} }})',
        'opt.filter': '(match {recv} {{ Some(x__) => {{ let {pat} = &x__; if {body} {{ Some(x__) }} else {{ None }} }}, None => None }})',
        'opt.is_some_and': '(match {recv} {{ Some({pat}) => {body}, None => false }})',
        'opt.is_none_or': '(match {recv} {{ Some({pat}) => {body}, None => true }})',
        'res.map': '(match {recv} {{ Ok({pat}) => Ok({body}), Err(e__) => Err(e__) }})',
        'res.map_err': '(match {recv} {{ Ok(x__) => Ok(x__), Err({pat}) => Err({body}) }})',
        'res.and_then': '(match {recv} {{ Ok({pat}) => {body}, Err(e__) => Err(e__) }})',
    }
    def __init__(self, kind, count=1, nth=None):
        self.kind, self.count, self.nth = kind, count, nth
        self.method = kind.split('.')[1]
    def _hits(self, toks):
        out = []
        for i, t in enumerate(toks):
            if t.text == self.method and i > 0 and toks[i - 1].text == '.' and i + 2 < len(toks) and toks[i + 1].text == '(' and toks[i + 2].text == '|':
                out.append(i)
        return out
    def apply(self, text, log):
        n = 0
        while True:
            toks = code_tokens(text)
            hits = self._hits(toks)
            if self.nth is not None:
                hits = hits[self.nth:self.nth + 1] if n == 0 else []
            if not hits:
                break
            i = hits[0]
            close = match_close(toks, i + 1)
            # closure parameter pattern: tokens between the two `|`
            j = i + 3; d = 0
            while not (toks[j].text == '|' and d == 0):
                if toks[j].text in OPEN: d += 1
                elif toks[j].text in CLOSE: d -= 1
                j += 1
            pat = text[toks[i + 3].start:toks[j - 1].end].strip() if j > i + 3 else ''
            body = text[toks[j].end:toks[close].start].strip()
            start = toks[_receiver_start(toks, i - 1)].start
            recv = text[start:toks[i - 1].start].strip()
            new = self.TEMPLATES[self.kind].format(recv=recv, pat=pat, body=body)
            text = text[:start] + new + text[toks[close].end:]
            n += 1
        ok = (self.count == '*') or (self.count == '+' and n >= 1) or (self.count == n)
        if not ok:
            raise AnchorLost(f'rewrite R-closure expected {self.count} `.{self.method}(|..| ..)` [{self.kind}] but found {n}')
        log.append((self.rule, f'.{self.method}(|..| ..) [{self.kind}] desugared to its defining match', n))
        return text


class IterFind(Rewrite):
    """R-find: `RECV.iter().find(|PAT| BODY)` => `HELPER(REF RECV, |p__: &&T| -> (b: bool) ensures b == (SPEC) { let PAT = p__; BODY })`.
    HELPER is a trusted shim carrying std's contract of Iterator::find on a slice iterator (first element satisfying the
    predicate); the closure body is the real text and is verified against the spliced closure contract SPEC (over `p__`)."""
    rule = 'R-find'
    def __init__(self, helper, elem_ty, spec, ref='', count=1):
        self.helper, self.elem_ty, self.spec, self.ref, self.count = helper, elem_ty, spec, ref, count
    def apply(self, text, log):
        toks = code_tokens(text)
        hits = [i for i, t in enumerate(toks) if t.text == 'find' and i >= 5 and [x.text for x in toks[i - 5:i]] == ['.', 'iter', '(', ')', '.']]
        hits = [i for i in hits if i + 2 < len(toks) and toks[i + 1].text == '(' and toks[i + 2].text == '|']
        if len(hits) != self.count:
            raise AnchorLost(f'rewrite R-find expected {self.count} `.iter().find(|..| ..)` but found {len(hits)}')
        i = hits[0]
        close = match_close(toks, i + 1)
        j = i + 3; d = 0
        while not (toks[j].text == '|' and d == 0):
            if toks[j].text in OPEN: d += 1
            elif toks[j].text in CLOSE: d -= 1
            j += 1
        pat = text[toks[i + 3].start:toks[j - 1].end].strip()
        body = text[toks[j].end:toks[close].start].strip()
        dot_iter = i - 5
        start = toks[_receiver_start(toks, dot_iter)].start
        recv = text[start:toks[dot_iter].start].strip()
        new = (f'{self.helper}({self.ref}{recv}, |p__: &&{self.elem_ty}| -> (b: bool) ensures b == ({self.spec}) '
               f'{{ let {pat} = p__; {body} }})')
        log.append((self.rule, f'.iter().find(|{pat}| ..) => {self.helper}(.., closure with contract)', 1))
        return text[:start] + new + text[toks[close].end:]


class IterFold(Rewrite):
    """R-fold: `RECV.iter().fold(INIT, |ACC, ITEM| BODY)` => `{ let mut ACC = INIT; for ITEM in itf: RECV { ACC = BODY; } ACC }` --
    Iterator::fold's definition on a slice iterator; the closure body is copied verbatim (loop contract spliced by ordinal)."""
    rule = 'R-fold'
    def __init__(self, count=1, iter_name='itf'):
        self.count, self.iter_name = count, iter_name
    def apply(self, text, log):
        toks = code_tokens(text)
        hits = [i for i, t in enumerate(toks) if t.text == 'fold' and i >= 5 and [x.text for x in toks[i - 5:i]] == ['.', 'iter', '(', ')', '.'] and toks[i + 1].text == '(']
        if len(hits) != self.count:
            raise AnchorLost(f'rewrite R-fold expected {self.count} `.iter().fold(..)` but found {len(hits)}')
        i = hits[0]
        close = match_close(toks, i + 1)
        # INIT up to the depth-0 comma
        j = i + 2; d = 0
        while not (toks[j].text == ',' and d == 0):
            if toks[j].text in OPEN: d += 1
            elif toks[j].text in CLOSE: d -= 1
            j += 1
        init = text[toks[i + 2].start:toks[j - 1].end]
        if toks[j + 1].text != '|':
            raise AnchorLost('R-fold: fold argument is not a closure literal')
        k = j + 2
        while toks[k].text != '|': k += 1
        params = text[toks[j + 2].start:toks[k - 1].end]
        acc, item = [x.strip() for x in params.split(',')]
        body = text[toks[k].end:toks[close].start].strip().rstrip(',')
        start = toks[_receiver_start(toks, i - 5)].start
        recv = text[start:toks[i - 5].start].strip()
        new = f'{{ let mut {acc} = {init}; for {item} in {self.iter_name}: {recv} {{ {acc} = {body}; }} {acc} }}'
        log.append((self.rule, '.iter().fold(init, |acc, item| ..) => its defining loop', 1))
        return text[:start] + new + text[toks[close].end:]


class PostfixCall(Rewrite):
    """`RECV.method()` => `helper(RECV)` for a no-argument method (e.g. Option<&T>::cloned => opt_cloned): the helper is the
    method's definition with a Verus contract."""
    def __init__(self, method, helper, count=1, rule='R-closure'):
        self.method, self.helper, self.count, self.rule = method, helper, count, rule
    def apply(self, text, log):
        n = 0
        while True:
            toks = code_tokens(text)
            hit = None
            for i, t in enumerate(toks):
                if t.text == self.method and i > 0 and toks[i - 1].text == '.' and i + 2 < len(toks) and toks[i + 1].text == '(' and toks[i + 2].text == ')':
                    hit = i; break
            if hit is None: break
            start = toks[_receiver_start(toks, hit - 1)].start
            recv = text[start:toks[hit - 1].start].strip()
            text = text[:start] + f'{self.helper}({recv})' + text[toks[hit + 2].end:]
            n += 1
        ok = (self.count == '*') or (self.count == '+' and n >= 1) or (self.count == n)
        if not ok:
            raise AnchorLost(f'rewrite {self.rule} expected {self.count} `.{self.method}()` but found {n}')
        log.append((self.rule, f'.{self.method}() => {self.helper}(..)', n))
        return text


class LetChain(Rewrite):
    """R-letchain: `if let P1 = E1 && let P2 = E2 && C { A } [else { B }]` =>
    `match E1 { P1 => match E2 { P2 => if C { A } else { B }, _ => { B } }, _ => { B } }` -- the language-defined meaning of a
    let-chain (B is repeated textually; exactly one copy runs). Verus rejects let-chains even with --edition 2024 (measured).
    Only chains that contain a top-level `&&` are rewritten; plain `if let` is left alone."""
    rule = 'R-letchain'
    def __init__(self, count='*'):
        self.count = count

    def _one(self, text):
        toks = code_tokens(text)
        for i, t in enumerate(toks):
            if t.text != 'if' or i + 1 >= len(toks):
                continue
            # parse conditions
            conds = []
            j = i + 1
            ok = True
            has_let = False
            while True:
                if toks[j].text == 'let':
                    has_let = True
                    k = j + 1; d = 0
                    while not (toks[k].text == '=' and d == 0 and toks[k + 1].text != '=' ):
                        if toks[k].text in OPEN: d += 1
                        elif toks[k].text in CLOSE: d -= 1
                        k += 1
                    pat = text[toks[j + 1].start:toks[k - 1].end]
                    e0 = k + 1
                    k = e0; d = 0
                    while not (d == 0 and (toks[k].text == '{' or (toks[k].text == '&' and toks[k + 1].text == '&' and toks[k + 1].start == toks[k].end))):
                        if toks[k].text in ('(', '['): d += 1
                        elif toks[k].text in (')', ']'): d -= 1
                        elif toks[k].text == '{' : d += 1
                        elif toks[k].text == '}': d -= 1
                        k += 1
                    conds.append(('let', pat, text[toks[e0].start:toks[k - 1].end]))
                else:
                    e0 = j; k = j; d = 0
                    while not (d == 0 and (toks[k].text == '{' or (toks[k].text == '&' and toks[k + 1].text == '&' and toks[k + 1].start == toks[k].end))):
                        if toks[k].text in ('(', '['): d += 1
                        elif toks[k].text in (')', ']'): d -= 1
                        k += 1
                    conds.append(('bool', None, text[toks[e0].start:toks[k - 1].end]))
                if toks[k].text == '{':
                    body_open = k; break
                j = k + 2
            if not has_let or len(conds) < 2:
                continue
            body_close = match_close(toks, body_open)
            body = text[toks[body_open].start:toks[body_close].end]
            end = toks[body_close].end
            els = '{}'
            if body_close + 1 < len(toks) and toks[body_close + 1].text == 'else':
                if toks[body_close + 2].text != '{':
                    raise AnchorLost('R-letchain: `else if` after a let-chain is not supported')
                ec = match_close(toks, body_close + 2)
                els = text[toks[body_close + 2].start:toks[ec].end]
                end = toks[ec].end
            out = body
            for kind, pat, expr in reversed(conds):
                if kind == 'let':
                    out = f'match {expr} {{ {pat} => {out}, _ => {els} }}'
                else:
                    out = f'{{ if {expr} {{ {out} }} else {els} }}'
            return text[:t.start] + out + text[end:], True
        return text, False

    def apply(self, text, log):
        n = 0
        while True:
            text, did = self._one(text)
            if not did: break
            n += 1
        ok = (self.count == '*') or (self.count == '+' and n >= 1) or (self.count == n)
        if not ok:
            raise AnchorLost(f'rewrite R-letchain expected {self.count} let-chain(s) but found {n}')
        log.append((self.rule, 'let-chain desugared to nested match', n))
        return text


class ReplaceRange(Rewrite):
    """R-payload: the token range from the first `start` (after the previous replacement) to the next `end` is replaced by `new`.
    Used to abstract a branch's payload (what a branch DOES) to a trace event so that only the gating control flow is verified."""
    rule = 'R-payload'
    def __init__(self, ranges, rule='R-payload'):
        self.ranges, self.rule = ranges, rule     # [(start_pat, end_pat, new)]
    def apply(self, text, log):
        pos_tok = 0
        n = 0
        for start, end, new in self.ranges:
            toks = code_tokens(text)
            # resume after the character offset of the previous replacement
            lo = 0
            while lo < len(toks) and toks[lo].start < pos_tok: lo += 1
            hs = find_seq(toks, pat_tokens(start), lo)
            if not hs:
                raise AnchorLost(f'{self.rule}: payload start `{start}` not found')
            he = find_seq(toks, pat_tokens(end), hs[0][0])
            if not he:
                raise AnchorLost(f'{self.rule}: payload end `{end}` not found')
            a, b = toks[hs[0][0]].start, toks[he[0][1] - 1].end
            text = text[:a] + new + text[b:]
            pos_tok = a + len(new)
            n += 1
        log.append((self.rule, 'branch payloads abstracted to trace events', n))
        return text


class DropNestedFn(Rewrite):
    """Remove a nested `fn name` item from a body (it is extracted separately, hoisted)."""
    rule = 'R-hoist'
    def __init__(self, name): self.name = name
    def apply(self, text, log):
        toks = code_tokens(text)
        for i, t in enumerate(toks):
            if t.text == 'fn' and i + 1 < len(toks) and toks[i + 1].text == self.name:
                j = i
                while toks[j].text != '{': j += 1
                c = match_close(toks, j)
                log.append((self.rule, f'nested fn {self.name} hoisted', 1))
                return text[:t.start] + text[toks[c].end:]
        raise AnchorLost(f'nested fn {self.name} not found')


class ReSub(Rewrite):
    """Regex substitution on text (used only on signatures; counted)."""
    def __init__(self, pat, new, count=1, rule='R-sig'):
        self.pat, self.new, self.count, self.rule = pat, new, count, rule
    def apply(self, text, log):
        out, n = re.subn(self.pat, self.new, text)
        ok = (self.count == '*') or (self.count == '+' and n >= 1) or (self.count == n)
        if not ok:
            raise AnchorLost(f'rewrite {self.rule} expected {self.count} match(es) of /{self.pat}/ but found {n}')
        log.append((self.rule, f'/{self.pat}/ => {self.new}', n))
        return out


def _clause(c):
    """contract clause text -> `code, // comment`"""
    code, sep, com = c.strip().partition('   //')
    if '\n' in com:
        code, sep, com = c.strip(), '', ''
    return code.strip().rstrip(',') + ',' + ('   //' + com if sep else '')


def apply_all(text, rewrites, log):
    for r in rewrites:
        text = r.apply(text, log)
    return text


def name_return(sig, r):
    """`-> T` => `-> (r: T)` on a signature (text before the body); where-clause is kept after."""
    toks = code_tokens(sig)
    d = 0
    arrow = None
    for i, t in enumerate(toks):
        if t.text in ('(', '[', '{'): d += 1
        elif t.text in (')', ']', '}'): d -= 1
        elif t.text == '->' and d == 0: arrow = i
    if arrow is None:
        return sig
    end = len(sig)
    d = 0
    for t in toks[arrow + 1:]:
        if t.text in ('(', '['): d += 1
        elif t.text in (')', ']'): d -= 1
        elif t.text == 'where' and d == 0:
            end = t.start; break
    ty = sig[toks[arrow].end:end].strip()
    return sig[:toks[arrow].end] + f' ({r}: {ty}) ' + sig[end:]


# ----------------------------------------------------------------------------- chunks
@dataclass
class Chunk:
    tag: str            # trusted | spec | real
    label: str
    lines: list = field(default_factory=list)    # list of (text_line, part)
    meta: dict = field(default_factory=dict)

    def add(self, text, part):
        for ln in text.split('\n'):
            self.lines.append((ln, part))


class Unit:
    def __init__(self, name, props, title=''):
        self.name, self.props, self.title = name, props, title
        self.chunks = []
        self.rewrite_log = []      # (fn label, rule, desc, hits)
        self.real_fns = []         # labels
        self.assumptions = []      # free text, listed in evidence
        self.carveouts = []        # (finding id, clause)
        self.kf = {}               # finding id -> entry (open findings only), set by driver
        self.canary_skip = set()
        self.search_cases = []     # (label substring, replay case) for witness search after a Verus failure

    # -- trusted / spec text
    def prelude(self, name, tag='trusted'):
        p = os.path.join(HERE, 'prelude', name + '.rs')
        c = Chunk(tag, 'prelude/' + name)
        c.add(open(p).read(), tag)
        self.chunks.append(c)

    def trusted(self, text, label='unit-local shim'):
        c = Chunk('trusted', label); c.add(text.strip('\n'), 'trusted'); self.chunks.append(c)

    def spec(self, text, label='spec'):
        c = Chunk('spec', label); c.add(text.strip('\n'), 'spec'); self.chunks.append(c)

    def search_case(self, label_substr, case):
        self.search_cases.append((label_substr, case))

    def assume(self, text):
        self.assumptions.append(text)

    def carve(self, finding_id, clause):
        """Region of an OPEN known finding, used as an extra precondition (DESIGN §4.3)."""
        if finding_id in self.kf:
            self.carveouts.append((finding_id, clause))
            return [clause]
        return []

    # -- real text
    def _read(self, file):
        p = os.path.join(REPO, file)
        if not os.path.exists(p):
            raise AnchorLost(f'file missing: {file}')
        return open(p, encoding='utf-8').read()

    def extract_type(self, file, path, rewrites=(), label=None, post=None, keep_derives=(), structural=False):
        """Copy a struct/enum definition (attributes and comments stripped; `keep_derives` are re-attached
        only if the real item derives them)."""
        it = locate(self._read(file), path)
        log = []
        text = apply_all(it.text, [StripAttrs()] + list(rewrites), log)
        if keep_derives:
            head = ''.join(t.text for t in code_tokens(it.src[it.start:it.decl]))
            for d in keep_derives:
                if not re.search(r'derive\([^)]*\b' + d + r'\b', head):
                    raise AnchorLost(f'{file}::{"::".join(path)} no longer derives {d}')
            # structural=True: Verus' marker that the (derived) PartialEq is structural equality -- true of every #[derive(PartialEq)]
            text = '#[derive(' + ', '.join(list(keep_derives) + (['Structural'] if structural and 'PartialEq' in keep_derives else [])) + ')]\n' + text
            log.append(('R-attr', 'derives kept: ' + ', '.join(keep_derives), len(keep_derives)))
        label = label or f'{file}::{"::".join(path)}'
        c = Chunk('real', label, meta=dict(file=file, line=it.line, kind=it.kind))
        c.add(text, 'typedef')
        self.chunks.append(c)
        for r in log: self.rewrite_log.append((label,) + r)
        return text


    def shim_conformance(self, file, path, fields, variant=None):
        """Shim-conformance check (DESIGN §3.4): every (field, type text) of a field-subset shim must occur in the real
        definition (inside `variant { .. }` for an enum) with the same type text. Mismatch => AnchorLost (exit 2)."""
        it = locate(self._read(file), path)
        toks = code_tokens(it.body)
        lo, hi = 0, len(toks)
        if variant:
            hits = [i for i, t in enumerate(toks) if t.text == variant and i + 1 < len(toks) and toks[i + 1].text == '{']
            if len(hits) != 1:
                raise AnchorLost(f'shim conformance: variant {variant} not found in {file}::{"::".join(path)}')
            lo = hits[0] + 1; hi = match_close(toks, lo)
        texts = [t.text for t in toks]
        for name, ty in fields:
            pat = [name, ':'] + pat_tokens(ty)
            ok = False
            for a, b in find_seq(toks, pat, lo, hi):
                if b < len(toks) and texts[b] in (',', '}'):
                    ok = True
            if not ok:
                raise AnchorLost(f'shim conformance: `{name}: {ty}` not found in real {file}::{"::".join(path)}' + (f'::{variant}' if variant else ''))
        self.rewrite_log.append((f'{file}::{"::".join(path)}' + (f'::{variant}' if variant else ''), 'shim-conformance', f'{len(fields)} shim field(s) match the real definition', len(fields)))

    def extract_fn(self, file, path, *, name=None, sig_rewrites=(), rewrites=(), ret='r',
                   requires=(), ensures=(), decreases=None, loops=None, head_proof=None,
                   inserts=(), attrs=(), wrap_impl=None, canary=True, fallback_path=None,
                   label=None, sig_override=None, returns=None):
        """Copy a fn out of /repo, apply rewrites, splice the contract.

        loops: {ordinal: dict(prop=[..], aux=[..], decreases='..', head='proof text', iter='it')}
        inserts: [(before|after, token-pattern, text)] proof text anchored on real tokens.
        fallback_path: used when `path` does not exist (E1: trait default method when the impl has no override).
        """
        src = self._read(file)
        used_path = path
        try:
            it = locate(src, path)
        except AnchorLost:
            if fallback_path is None: raise
            it = locate(src, fallback_path); used_path = fallback_path
        if not it.has_body:
            raise AnchorLost(f'{file}::{"::".join(used_path)} has no body')
        label = label or f'{file}::{"::".join(path)}'
        log = []
        sig = apply_all(it.sig, [StripAttrs()] + list(sig_rewrites), log)
        if sig_override is not None:
            sig = sig_override
        if name:
            sig, n = re.subn(r'\bfn\s+[A-Za-z_0-9]+', 'fn ' + name, sig, count=1)
        if ret:
            sig = name_return(sig, ret)
        body = apply_all(it.body, [StripAttrs()] + list(rewrites), log)
        # loop contracts
        loops = loops or {}
        lp = loops_in(body)
        if loops and max(loops) >= len(lp):
            raise AnchorLost(f'{label}: loop #{max(loops)} not found ({len(lp)} loops in body)')
        M = '\x00'   # marker protocol: \x00<part>\x01text\x02
        edits = []
        for k, spec in loops.items():
            kw, ob, cb = lp[k]
            ins = ''
            cl = [('inv:prop[%d.%d]' % (k, i), c) for i, c in enumerate(spec.get('prop', []))] + \
                 [('inv:aux[%d.%d]' % (k, i), c) for i, c in enumerate(spec.get('aux', []))]
            if cl:
                ins += '\n' + M + 'invkw\x01invariant\x02'
                for part, c in cl:
                    ins += '\n' + M + part + '\x01    ' + _clause(c) + '\x02'
            if spec.get('decreases'):
                ins += '\n' + M + 'dec\x01decreases ' + spec['decreases'] + ',\x02'
            ins += '\n'
            edits.append((ob, ob, ins))
            if spec.get('head'):
                edits.append((ob + 1, ob + 1, '\n' + M + 'proof\x01' + spec['head'].strip('\n') + '\x02\n'))
            if spec.get('tail'):     # last thing in the loop body (before its closing brace)
                edits.append((cb - 1, cb - 1, '\n' + M + 'proof\x01' + spec['tail'].strip('\n') + '\x02\n'))
            if spec.get('after'):
                edits.append((cb, cb, '\n' + M + 'proof\x01' + spec['after'].strip('\n') + '\x02\n'))
        toks = code_tokens(body)
        for where, pat, text in inserts:
            hits = find_seq(toks, pat_tokens(pat))
            if len(hits) != 1:
                raise AnchorLost(f'{label}: insert anchor `{pat}` found {len(hits)} times')
            a, b = hits[0]
            pos = toks[a].start if where == 'before' else toks[b - 1].end
            edits.append((pos, pos, '\n' + M + 'proof\x01' + text.strip('\n') + '\x02\n'))
        if head_proof:
            edits.append((1, 1, '\n' + M + 'proof\x01' + head_proof.strip('\n') + '\x02\n'))
        # @REVEALS@ in spliced proof text => reveal_strlit(..) for every string literal of the (rewritten) real body
        lits = []
        for t in toks:
            if t.kind == 'str' and t.text.startswith('"') and t.text not in lits:
                lits.append(t.text)
        reveals = ' '.join(f'reveal_strlit({l});' for l in lits)
        edits = [(a, b, x.replace('@REVEALS@', reveals)) for a, b, x in edits]
        body = _splice(body, edits)

        c = Chunk('real', label, meta=dict(file=file, line=it.line, kind='fn', path=list(used_path),
                                           fn_name=name or used_path[-1].split()[-1],
                                           wrap_impl=wrap_impl, canary=canary))
        for a in attrs: c.add(a, 'attr')
        if wrap_impl: c.add(f'impl {wrap_impl} {{', 'wrap')
        c.add(sig, 'sig')
        if requires:
            c.add('    requires', 'kw')
            for i, r in enumerate(requires): c.add('        ' + _clause(r), f'requires[{i}]')
        if ensures or True:
            if ensures: c.add('    ensures', 'kw')
            c.meta['ensures_at'] = len(c.lines)
            for i, r in enumerate(ensures): c.add('        ' + _clause(r), f'ensures[{i}]')
        if returns:
            c.add('    returns ' + returns + ',', 'returns')
        if decreases:
            c.add('    decreases ' + decreases + ',', 'decreases')
        # body with markers -> lines with parts ('\n' was inserted around every marker)
        segs = re.split(r'\x00([^\x01]*)\x01(.*?)\x02', body, flags=re.S)
        for i in range(0, len(segs), 3):
            txt = segs[i].strip('\n')
            if txt != '':
                c.add(txt, 'body')
            if i + 2 < len(segs):
                c.add(segs[i + 2], segs[i + 1])
        if wrap_impl: c.add('}', 'wrap')
        c.meta['has_contract'] = bool(requires or ensures)
        self.chunks.append(c)
        self.real_fns.append(label)
        for r in log: self.rewrite_log.append((label,) + r)
        return c

    def extract_fragment(self, file, path, start_pat, end_pat, *, header, footer='}', rewrites=(),
                         requires=(), ensures=(), label=None, name=None, canary=True, end_exclusive=False):
        """E2: a contiguous token range inside a function, wrapped into a function whose
        parameters (header) are the fragment's free variables. Surrounding control flow is NOT verified."""
        src = self._read(file)
        it = locate(src, path)
        body = it.body
        toks = code_tokens(body)
        hs = find_seq(toks, pat_tokens(start_pat))
        if len(hs) != 1:
            raise AnchorLost(f'fragment start `{start_pat}` found {len(hs)} times in {file}::{"::".join(path)}')
        he = find_seq(toks, pat_tokens(end_pat), lo=hs[0][0])
        if len(he) < 1:
            raise AnchorLost(f'fragment end `{end_pat}` not found after start in {file}::{"::".join(path)}')
        # end_exclusive: the fragment stops just BEFORE end_pat (robust when the fragment's own last tokens may change)
        frag = body[toks[hs[0][0]].start:(toks[he[0][0] - 1].end if end_exclusive else toks[he[0][1] - 1].end)]
        label = label or f'{file}::{"::".join(path)}#fragment({name})'
        log = []
        frag = apply_all(frag, [StripAttrs()] + list(rewrites), log)
        line = src.count('\n', 0, it.body_open + toks[hs[0][0]].start) + 1
        c = Chunk('real', label, meta=dict(file=file, line=line, kind='fragment', fn_name=name, canary=canary,
                                           wrap_impl=None, path=list(path)))
        c.add(header, 'sig')
        if requires:
            c.add('    requires', 'kw')
            for i, r in enumerate(requires): c.add('        ' + _clause(r), f'requires[{i}]')
        if ensures: c.add('    ensures', 'kw')
        c.meta['ensures_at'] = len(c.lines)
        for i, r in enumerate(ensures): c.add('        ' + _clause(r), f'ensures[{i}]')
        c.add('{', 'wrap')
        c.add(frag, 'body')
        c.add(footer, 'wrap')
        c.meta['has_contract'] = True
        self.chunks.append(c)
        self.real_fns.append(label)
        for r in log: self.rewrite_log.append((label,) + r)
        return c

    # -- assembly
    def assemble(self, canary=False):
        """Returns (text, linemap) ; linemap[line_no(1-based)] = (chunk_index, part, is_canary_copy)."""
        out = ['use vstd::prelude::*;', '#[allow(unused_imports)] use vstd::std_specs::iter::IteratorSpec;', '#[allow(unused_imports)] use std::fmt::Write;', '#[allow(unused_imports)] use std::fmt;', 'verus! {', '']
        lm = {}
        def emit(ci, ch, rename=None, extra_ensures=None):
            lines = list(ch.lines)
            if rename:
                new = []
                done = False
                for k, (ln, part) in enumerate(lines):
                    if part == 'sig' and not done:
                        ln2, n = re.subn(r'\bfn\s+' + re.escape(ch.meta['fn_name']) + r'\b', 'fn ' + rename, ln, count=1)
                        if n: done = True
                        ln = ln2
                    new.append((ln, part))
                lines = new
                at = ch.meta['ensures_at']
                has_ens = any(p.startswith('ensures[') for _, p in lines)
                ins = ([] if has_ens else [('    ensures', 'kw')]) + [('        false,', 'canary')]
                # insert after existing ensures clauses
                k = at
                while k < len(lines) and lines[k][1].startswith('ensures['): k += 1
                lines = lines[:k] + ins + lines[k:]
            for ln, part in lines:
                out.append(ln)
                lm[len(out)] = (ci, part, bool(rename))
            out.append('')
        for ci, ch in enumerate(self.chunks):
            emit(ci, ch)
        if canary:
            for ci, ch in enumerate(self.chunks):
                if ch.tag == 'real' and ch.meta.get('kind') in ('fn', 'fragment') and ch.meta.get('canary'):
                    emit(ci, ch, rename='canary__' + ch.meta['fn_name'])
        out += ['} // verus!', 'fn main() {}', '']
        return '\n'.join(out), lm
