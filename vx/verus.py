"""Run Verus on an assembled unit and map its results back to chunks / contract clauses."""
import json
import os
import re
import subprocess
import time
from dataclasses import dataclass, field

VERUS = os.environ.get('VERIF_VERUS', 'verus')

VERIF_MSGS = [
    ('postcondition not satisfied', 'post'),
    ('precondition not satisfied', 'pre'),
    ('invariant not satisfied before loop', 'inv'),
    ('invariant not satisfied at end of loop body', 'inv'),
    ('assertion failed', 'assert'),
    ('possible arithmetic underflow/overflow', 'safety'),
    ('possible division by zero', 'safety'),
    ('possible bit shift underflow/overflow', 'safety'),
    ('index out of bounds', 'safety'),
    ('could not prove termination', 'term'),
    ('decreases not satisfied', 'term'),
    ('unable to prove assertion safely', 'assert'),
    ('while loop: Resource limit', 'rlimit'),
    ('Resource limit (rlimit) exceeded', 'rlimit'),
    ('loop invariant', 'inv'),
    ('recommendation not met', 'recommends'),
]


@dataclass
class Failure:
    kind: str            # post pre inv assert safety term rlimit recommends other
    message: str
    chunk: str           # label of chunk containing the primary span
    tag: str             # trusted | spec | real | ?
    part: str            # part of the primary span
    clause: str          # for post/pre/inv: the contract clause text blamed (secondary span) if any
    clause_part: str
    clause_chunk: str
    canary: bool
    rendered: str
    line: int = 0

    def obligation(self):
        base = self.chunk
        if self.kind == 'post':
            return f'{base}::{self.clause_part or "ensures"}'
        if self.kind == 'pre':
            return f'{base}::call-precondition[{self.clause_chunk}::{self.clause_part}]'
        if self.kind == 'inv':
            return f'{base}::{self.part}'
        return f'{base}::{self.kind}@{self.part}'


@dataclass
class UnitResult:
    unit: str
    file: str
    ok: bool = False
    compile_error: str = ''
    ledger: list = field(default_factory=list)     # dicts function, mode, ms, rlimit, success
    failures: list = field(default_factory=list)
    verified: int = 0
    errors: int = 0
    wall_s: float = 0.0
    smt_ms: int = 0
    cmd: str = ''
    stderr: str = ''


def run_verus(unit_name, text, linemap, chunks, outdir, suffix='', rlimit=None, timeout=600):
    os.makedirs(outdir, exist_ok=True)
    path = os.path.join(outdir, unit_name + suffix + '.rs')
    with open(path, 'w') as f:
        f.write(text)
    cmd = [VERUS, '--edition', '2024', path, '--output-json', '--time', '--error-format=json',
           '--multiple-errors', '4', '--log-dir', os.path.join(outdir, '.verus-log')]
    if rlimit:
        cmd += ['--rlimit', str(rlimit)]
    res = UnitResult(unit_name, path, cmd=' '.join(cmd))
    t0 = time.time()
    try:
        p = subprocess.run(cmd, capture_output=True, text=True, timeout=timeout, cwd=outdir)
    except subprocess.TimeoutExpired:
        res.compile_error = f'verus timed out after {timeout}s'
        res.wall_s = time.time() - t0
        return res
    res.wall_s = time.time() - t0
    res.stderr = p.stderr
    out = p.stdout
    js = None
    k = out.find('{')
    if k >= 0:
        try:
            js = json.loads(out[k:])
        except Exception:
            js = None
    diags = []
    for ln in p.stderr.splitlines():
        ln = ln.strip()
        if ln.startswith('{') and '"$message_type"' in ln:
            try:
                diags.append(json.loads(ln))
            except Exception:
                pass
    if js is None:
        res.compile_error = 'verus produced no JSON result: ' + (p.stderr[-2000:] or out[-2000:])
        return res
    vr = js.get('verification-results', {})
    res.verified = vr.get('verified', 0)
    res.errors = vr.get('errors', 0)
    try:
        for m in js['times-ms']['smt']['smt-run-module-times']:
            for fb in m.get('function-breakdown', []):
                res.ledger.append(dict(function=fb['function'], mode=fb.get('mode:', fb.get('mode', '?')),
                                       us=fb.get('time-micros', 0), rlimit=fb.get('rlimit', 0),
                                       success=bool(fb.get('success'))))
        res.smt_ms = js['times-ms']['smt'].get('total', 0)
    except Exception:
        pass

    def span_info(sp):
        ln = sp.get('line_start', 0)
        ci, part, is_canary = linemap.get(ln, (None, '?', False))
        if ci is None:
            return ('<frame>', '?', '?', False, ln)
        ch = chunks[ci]
        return (ch.label, ch.tag, part, is_canary, ln)

    hard = []
    for d in diags:
        if d.get('level') != 'error':
            continue
        msg = d.get('message', '')
        if msg.startswith('aborting due to'):
            continue
        kind = None
        for pat, k in VERIF_MSGS:
            if pat in msg:
                kind = k; break
        spans = d.get('spans', [])
        if kind is None:
            if vr.get('encountered-vir-error') or not spans or True:
                hard.append(d.get('rendered', msg))
            continue
        prim = [s for s in spans if s.get('is_primary')] or spans
        sec = [s for s in spans if not s.get('is_primary')]
        # children notes can carry spans too
        for c in d.get('children', []):
            sec += c.get('spans', [])
        label, tag, part, is_canary, ln = span_info(prim[0]) if prim else ('<none>', '?', '?', False, 0)
        clause = clause_part = clause_chunk = ''
        if kind == 'post':
            # the primary span may itself be the ensures clause or the fn; blame = span lying on an ensures/canary line
            for s in spans:
                l2, t2, p2, c2, _ = span_info(s)
                if p2.startswith('ensures[') or p2 == 'canary' or p2 == 'trusted' or p2 == 'spec' or p2 == 'returns':
                    clause_part, clause_chunk = p2, l2
                    clause = ' '.join(x.get('text', '').strip() for x in s.get('text', []))
                    if s.get('is_primary') is False or True:
                        pass
            # function blamed = chunk holding the non-clause span, else the clause's chunk
            for s in spans:
                l2, t2, p2, c2, ln2 = span_info(s)
                if p2 in ('body', 'sig', 'wrap') or p2.startswith('ensures[') or p2 == 'canary':
                    label, tag, is_canary, ln = l2, t2, c2, ln2
                    if p2 in ('body', 'sig', 'wrap'):
                        part = p2
                        break
        elif kind == 'pre':
            for s in sec:
                l2, t2, p2, c2, _ = span_info(s)
                clause_part, clause_chunk = p2, l2
                clause = ' '.join(x.get('text', '').strip() for x in s.get('text', []))
        elif kind == 'inv':
            clause = ' '.join(x.get('text', '').strip() for x in prim[0].get('text', [])) if prim else ''
            clause_part, clause_chunk = part, label
        res.failures.append(Failure(kind, msg, label, tag, part, clause, clause_part, clause_chunk,
                                    is_canary, d.get('rendered', ''), ln))
    if hard:
        res.compile_error = '\n'.join(hard)[:6000]
    res.ok = (p.returncode == 0 and vr.get('success') is True and not res.failures and not hard)
    return res


TRUST_PATTERNS = [
    (r'#\[verifier::external_body\]', 'external_body'),
    (r'\bassume_specification\b', 'assume_specification'),
    (r'\badmit\s*\(', 'admit'),
    (r'\bassume\s*\(', 'assume'),
    (r'\baxiom\s+fn\b', 'axiom fn'),
    (r'#\[verifier::external_type_specification\]', 'external_type_specification'),
    (r'#\[verifier::external\]', 'external'),
    (r'exec_allows_no_decreases_clause', 'no-decreases (termination not proved)'),
    (r'\buninterp\s+spec\s+fn\b', 'uninterp spec fn'),
    (r'#\[verifier::accept_recursive_types', 'accept_recursive_types'),
]


def scan_trusted(text, linemap, chunks):
    """Mechanical scan of the assembled file for every assumption construct."""
    out = []
    lines = text.split('\n')
    for i, ln in enumerate(lines, 1):
        for pat, name in TRUST_PATTERNS:
            if re.search(pat, ln):
                # describe by the following non-attribute line
                desc = ''
                for j in range(i - 1, min(i + 6, len(lines))):
                    s = lines[j].strip()
                    if s and not s.startswith('#['):
                        desc = s[:140]; break
                ci = linemap.get(i, (None,))[0]
                where = chunks[ci].label if ci is not None else '?'
                out.append(f'{name}: {desc} [{where}]')
    return out
