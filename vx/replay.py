"""Python side of the concrete replay crate (/verif/replay): build, run a case, search for a witness."""
import json
import os
import shutil
import subprocess
import threading

ROOT = os.path.dirname(os.path.dirname(os.path.abspath(__file__)))
CRATE = os.path.join(ROOT, 'replay')
BIN = os.path.join(ROOT, '.cache', 'replay-target', 'debug', 'verif-replay')
REPO = os.environ.get('VERIF_REPO', '/repo')
_lock = threading.Lock()
_built = {'ok': None, 'log': ''}

# Verus unit -> {extracted item label suffix -> replay case used for witness search}
SEARCH_CASES = {}


def register_search(unit, fn_label_substr, case):
    SEARCH_CASES.setdefault(unit, []).append((fn_label_substr, case))


def sync_lock(crate):
    src = os.path.join(REPO, 'Cargo.lock')
    dst = os.path.join(crate, 'Cargo.lock')
    if os.path.exists(src) and (not os.path.exists(dst) or os.path.getmtime(src) > os.path.getmtime(dst)):
        shutil.copy(src, dst)


def build():
    """(Re)build the replay binary against /repo's current working tree (incremental)."""
    with _lock:
        if _built['ok'] is not None:
            return _built['ok']
        sync_lock(CRATE)
        env = dict(os.environ, CARGO_NET_OFFLINE='true')
        env.pop('RUSTFLAGS', None)
        p = subprocess.run(['cargo', 'build', '--offline', '-q'], cwd=CRATE, env=env, capture_output=True, text=True)
        _built['ok'] = p.returncode == 0 and os.path.exists(BIN)
        _built['log'] = (p.stderr or '')[-3000:]
        return _built['ok']


def _call(args, timeout=300):
    if not build():
        return None, 'replay crate does not build against the current tree: ' + _built['log'][-800:]
    try:
        p = subprocess.run([BIN] + args, capture_output=True, text=True, timeout=timeout)
    except subprocess.TimeoutExpired:
        return None, 'replay timed out'
    out = p.stdout.strip().splitlines()
    if not out:
        return None, f'replay produced no output (exit {p.returncode}): {p.stderr[-400:]}'
    try:
        return json.loads(out[-1]), ''
    except Exception as e:
        return None, f'bad replay output: {out[-1][:200]}'


def run_case(case, args):
    return _call(['run', case, json.dumps(args)])


def confirm_finding(f):
    """Re-run the recorded witness of an open known finding on the real code."""
    w = f.get('witness') or {}
    js, err = run_case(w.get('case', ''), w.get('args'))
    if js is None or 'error' in js:
        return dict(reproduced=None, observed=err or js.get('error', ''))
    return dict(reproduced=not js['holds'], observed=f"observed {js['observed']}, contract says {js['expected']}")


def search_witness(unit, failure, seed):
    """After a Verus failure: look for a concrete input on which the real code violates the contract."""
    case = None
    for sub, c in getattr(unit, 'search_cases', []):
        if sub in failure.chunk:
            case = c
    if case is None:
        return dict(reproduced=False, note='no executable contract registered for this function; no witness search')
    js, err = _call(['search', case, str(seed), ','.join(getattr(unit, 'kf', {}).keys())], timeout=600)
    if js is None or 'error' in js:
        return dict(reproduced=False, note='witness search unavailable: ' + (err or js.get('error', '')))
    if js.get('found'):
        return dict(reproduced=True, case=case, input=js['input'], observed=js['observed'], expected=js['expected'],
                    tried=js['tried'], replay_cmd=f"{BIN} run {case} '{json.dumps(js['input'])}'")
    return dict(reproduced=False, case=case, tried=js.get('tried'), note='contract held on every enumerated / random input')


def search_case(case, seed, open_ids):
    js, err = _call(['search', case, str(seed), ','.join(open_ids)], timeout=600)
    if js is None and err and ('does not build' not in err):
        # the search process itself died or hung (stack overflow / abort / no progress inside the real code): find the input that does it by
        # running every input in its own process; a crash or a hang of the real code on a concrete input is a witness
        lst, lerr = _call(['list', case, str(seed), ','.join(open_ids)], timeout=120)
        if isinstance(lst, list):
            for n, inp in enumerate(lst):
                j2, e2 = _call(['run', case, json.dumps(inp)], timeout=60)
                if j2 is None:
                    return dict(reproduced=True, case=case, input=inp, observed='the process running the real code died or hung on this input: ' + (e2 or '')[:300],
                                expected='an answer (no crash, no hang)', tried=n + 1, replay_cmd=f"{BIN} run {case} '{json.dumps(inp)}'")
                if not j2.get('holds', True):
                    return dict(reproduced=True, case=case, input=inp, observed=j2['observed'], expected=j2['expected'], tried=n + 1, replay_cmd=f"{BIN} run {case} '{json.dumps(inp)}'")
    if js is None or 'error' in js:
        return dict(reproduced=False, note='witness search unavailable: ' + (err or js.get('error', '')))
    if js.get('found'):
        return dict(reproduced=True, case=case, input=js['input'], observed=js['observed'], expected=js['expected'],
                    tried=js['tried'], replay_cmd=f"{BIN} run {case} '{json.dumps(js['input'])}'")
    return dict(reproduced=False, case=case, tried=js.get('tried'), samples=js.get('samples', []))


def replay_kani_counterexample(h, seed):
    cx = h.get('counterexample')
    case = h.get('replay_case')
    if not cx or not case:
        return None
    js, err = run_case(case, cx)
    if js is None or 'error' in js:
        return dict(reproduced=None, note=err or js.get('error'))
    return dict(reproduced=not js['holds'], case=case, input=cx, observed=js['observed'], expected=js['expected'],
                replay_cmd=f"{BIN} run {case} '{json.dumps(cx)}'")


def replay_file(path):
    """./check --replay <file>: re-run the witness (if any) on the real code and print what the file says."""
    d = json.load(open(path))
    print(f"property={d['property']} unit={d['unit']} engine={d['engine']}")
    print(f"failed obligation: {d['obligation']}")
    print('verifier output:\n' + (d.get('verifier_output') or '')[:4000])
    w = d.get('witness') or {}
    if w.get('reproduced') and w.get('case'):
        js, err = run_case(w['case'], w['input'])
        print('witness input:', json.dumps(w['input']))
        if js is None:
            print('replay failed:', err); return 2
        print(f"real code: observed {js['observed']}; contract says {js['expected']}; holds={js['holds']}")
        return 1 if not js['holds'] else 0
    print('no concrete failing input recorded (no-failing-input-found); re-run the check to re-verify the obligation')
    return 1
