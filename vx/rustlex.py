"""Small Rust tokenizer + item locator used by the extractor (engine V).

Not a parser: it understands comments (nested block comments), string / raw string /
byte string / char literals, lifetimes, identifiers, numbers and bracket nesting -- enough
to find an item by name, its signature and its body, and to match token sequences
independent of whitespace and comments.
"""
import re
from dataclasses import dataclass


class AnchorLost(Exception):
    """An item / fragment / rewrite anchor was not found (or was ambiguous) in /repo.

    Always mapped to exit 2 (undecided): never a pass, never an alarm."""


@dataclass
class Tok:
    kind: str   # ws comment str char lifetime ident num punct
    text: str
    start: int
    end: int


_IDENT = re.compile(r'[A-Za-z_][A-Za-z0-9_]*')
_NUM = re.compile(r'0[xX][0-9a-fA-F_]+[a-zA-Z0-9_]*|0[bB][01_]+[a-zA-Z0-9_]*|0[oO][0-7_]+[a-zA-Z0-9_]*|'
                  r'[0-9][0-9_]*(?:\.(?![.a-zA-Z_])[0-9_]*)?(?:[eE][+-]?[0-9_]+)?[a-zA-Z0-9_]*')
_RAWSTR = re.compile(r'(?:b|c)?r(#*)"')
_MERGED = ('->', '=>', '::')


def tokenize(src: str):
    toks = []
    i, n = 0, len(src)
    while i < n:
        c = src[i]
        if c.isspace():
            j = i + 1
            while j < n and src[j].isspace():
                j += 1
            toks.append(Tok('ws', src[i:j], i, j)); i = j; continue
        if src.startswith('//', i):
            j = src.find('\n', i)
            j = n if j < 0 else j
            toks.append(Tok('comment', src[i:j], i, j)); i = j; continue
        if src.startswith('/*', i):
            depth, j = 1, i + 2
            while j < n and depth:
                if src.startswith('/*', j): depth += 1; j += 2
                elif src.startswith('*/', j): depth -= 1; j += 2
                else: j += 1
            toks.append(Tok('comment', src[i:j], i, j)); i = j; continue
        m = _RAWSTR.match(src, i)
        if m:
            close = '"' + m.group(1)
            j = src.find(close, m.end())
            if j < 0: raise ValueError('unterminated raw string')
            j += len(close)
            toks.append(Tok('str', src[i:j], i, j)); i = j; continue
        if c == '"' or (c in 'bc' and i + 1 < n and src[i + 1] == '"'):
            j = i + (1 if c == '"' else 2)
            while j < n and src[j] != '"':
                j += 2 if src[j] == '\\' else 1
            j += 1
            toks.append(Tok('str', src[i:j], i, j)); i = j; continue
        if c == "'" or (c == 'b' and i + 1 < n and src[i + 1] == "'"):
            k = i + (1 if c == "'" else 2)
            # char literal?
            if k < n and src[k] == '\\':
                j = k + 2
                while j < n and src[j] != "'":
                    j += 1
                j += 1
                toks.append(Tok('char', src[i:j], i, j)); i = j; continue
            if k + 1 < n and src[k + 1] == "'" and src[k] != "'":
                j = k + 2
                toks.append(Tok('char', src[i:j], i, j)); i = j; continue
            if c == "'":
                m = _IDENT.match(src, k)
                if m:
                    toks.append(Tok('lifetime', src[i:m.end()], i, m.end())); i = m.end(); continue
        if src.startswith('r#', i):
            m = _IDENT.match(src, i + 2)
            if m:
                toks.append(Tok('ident', src[i:m.end()], i, m.end())); i = m.end(); continue
        m = _IDENT.match(src, i)
        if m:
            toks.append(Tok('ident', m.group(0), i, m.end())); i = m.end(); continue
        if c.isdigit():
            m = _NUM.match(src, i)
            toks.append(Tok('num', m.group(0), i, m.end())); i = m.end(); continue
        for mg in _MERGED:
            if src.startswith(mg, i):
                toks.append(Tok('punct', mg, i, i + len(mg))); i += len(mg); break
        else:
            toks.append(Tok('punct', c, i, i + 1)); i += 1
    return toks


def code_tokens(src):
    """Tokens without whitespace and comments."""
    return [t for t in tokenize(src) if t.kind not in ('ws', 'comment')]


OPEN = {'(': ')', '[': ']', '{': '}'}
CLOSE = {')', ']', '}'}


def match_close(toks, i):
    """toks[i] is an opening bracket; return index of its matching close."""
    depth = 0
    for j in range(i, len(toks)):
        t = toks[j]
        if t.kind == 'punct':
            if t.text in OPEN: depth += 1
            elif t.text in CLOSE:
                depth -= 1
                if depth == 0:
                    return j
    raise AnchorLost('unbalanced brackets')


def find_seq(toks, pat, lo=0, hi=None):
    """All non-overlapping occurrences (start_idx, end_idx_exclusive) of token-text sequence."""
    hi = len(toks) if hi is None else hi
    out = []
    if not pat:
        return out
    texts = [t.text for t in toks]
    i = lo
    m = len(pat)
    while i + m <= hi:
        if texts[i:i + m] == pat:
            out.append((i, i + m)); i += m
        else:
            i += 1
    return out


def pat_tokens(s):
    return [t.text for t in code_tokens(s)]


_MODIFIERS = {'pub', 'async', 'const', 'unsafe', 'extern', 'default', 'crate', 'super', 'in', 'self'}


@dataclass
class Item:
    src: str          # whole file text
    kind: str         # fn impl struct enum trait mod const
    start: int        # char offset incl. attributes / doc comments
    decl: int         # char offset of first modifier / keyword (after attributes)
    body_open: int    # char offset of '{' (or -1)
    end: int          # char offset one past the closing '}' or ';'
    toks: list = None
    tlo: int = 0      # token index range of body interior in code token list
    thi: int = 0

    @property
    def text(self): return self.src[self.decl:self.end]
    @property
    def sig(self): return self.src[self.decl:self.body_open].rstrip() if self.body_open >= 0 else self.src[self.decl:self.end]
    @property
    def body(self): return self.src[self.body_open:self.end] if self.body_open >= 0 else None
    @property
    def line(self): return self.src.count('\n', 0, self.decl) + 1
    @property
    def has_body(self): return self.body_open >= 0


def _norm(s):
    return ''.join(t.text for t in code_tokens(s))


def _item_start(src, toks, k):
    """Walk back from keyword index k over modifiers and attributes; returns (start_with_attrs, decl)."""
    j = k
    while j > 0:
        p = toks[j - 1]
        if p.kind == 'ident' and p.text in _MODIFIERS: j -= 1; continue
        if p.kind == 'str' and j >= 2 and toks[j - 2].text == 'extern': j -= 1; continue
        if p.text == ')' :
            # pub(crate) / pub(in path)
            d = 0; q = j - 1
            while q >= 0:
                if toks[q].text == ')': d += 1
                elif toks[q].text == '(':
                    d -= 1
                    if d == 0: break
                q -= 1
            if q >= 1 and toks[q - 1].text == 'pub': j = q; continue
        break
    decl = toks[j].start
    # attributes
    a = j
    while a >= 1 and toks[a - 1].text == ']':
        d = 0; q = a - 1
        while q >= 0:
            if toks[q].text == ']': d += 1
            elif toks[q].text == '[':
                d -= 1
                if d == 0: break
            q -= 1
        if q >= 1 and toks[q - 1].text == '#': a = q - 1
        elif q >= 2 and toks[q - 1].text == '!' and toks[q - 2].text == '#': a = q - 2
        else: break
    return toks[a].start, decl


def _find_level(toks, lo, hi, sel, parent_kind):
    """All matches (kw_index, body_or_end_index) of one selector inside token range."""
    kind = re.match(r'[a-z]+', sel).group(0)
    rest = sel[len(kind):]
    found = []
    depth = 0
    want = _norm(rest)
    i = lo
    while i < hi:
        t = toks[i]
        if t.kind == 'punct' and t.text in OPEN: depth += 1
        elif t.kind == 'punct' and t.text in CLOSE: depth -= 1
        elif t.kind == 'ident' and t.text == kind and (depth == 0 or parent_kind == 'fn'):
            if kind == 'impl':
                j = i + 1; d = 0
                while j < hi:
                    x = toks[j]
                    if x.text in ('(', '['): d += 1
                    elif x.text in (')', ']'): d -= 1
                    elif x.text == '{' and d == 0: break
                    elif x.text == ';' and d == 0: break
                    j += 1
                if j < hi and toks[j].text == '{':
                    header = ''.join(x.text for x in toks[i + 1:j])
                    if header == want or header.split('where')[0] == want:
                        found.append((i, j))
            elif i + 1 < hi and toks[i + 1].kind == 'ident' and toks[i + 1].text == rest.strip():
                j = i + 2; d = 0
                while j < hi:
                    x = toks[j]
                    if x.text in ('(', '['): d += 1
                    elif x.text in (')', ']'): d -= 1
                    elif d == 0 and x.text == '{': break
                    elif d == 0 and x.text == ';': break
                    elif d == 0 and x.text == '=' and kind in ('const', 'static', 'type'):
                        dd = 0
                        while j < hi:
                            y = toks[j]
                            if y.text in OPEN: dd += 1
                            elif y.text in CLOSE: dd -= 1
                            elif y.text == ';' and dd == 0: break
                            j += 1
                        break
                    j += 1
                found.append((i, j))
        i += 1
    return found


def _locate_rec(src, toks, lo, hi, path, parent_kind):
    sel = path[0]
    kind = re.match(r'[a-z]+', sel).group(0)
    out = []
    for k, j in _find_level(toks, lo, hi, sel, parent_kind):
        start, decl = _item_start(src, toks, k)
        if j < len(toks) and toks[j].text == '{':
            c = match_close(toks, j)
            item = Item(src, kind, start, decl, toks[j].start, toks[c].end, toks, j + 1, c)
        else:
            item = Item(src, kind, start, decl, -1, toks[j].end, toks, j, j)
        if len(path) == 1:
            out.append(item)
        else:
            out.extend(_locate_rec(src, toks, item.tlo, item.thi, path[1:], kind))
    return out


def locate(src, path):
    """Locate an item by a path of selectors, e.g. ['impl CacheControl', 'fn merge'].

    Selector forms: 'fn NAME', 'struct NAME', 'enum NAME', 'trait NAME', 'mod NAME',
    'const NAME', 'static NAME', 'type NAME', 'impl <header text up to {>' (compared with
    whitespace and comments removed; a where-clause may be omitted). Items nested in a fn are
    found at any block depth; otherwise only direct children are considered. The whole path
    must identify exactly one item."""
    toks = code_tokens(src)
    found = _locate_rec(src, toks, 0, len(toks), list(path), None)
    if not found:
        raise AnchorLost(f'item not found: {" / ".join(path)}')
    if len(found) > 1:
        raise AnchorLost(f'item ambiguous ({len(found)} matches): {" / ".join(path)}')
    return found[0]


def loops_in(body_src):
    """Return list of (keyword_tok, open_brace_offset) for each for/while/loop in token order.

    body_src is the text of a block. Closures' and nested fns' loops are counted too (in token order)."""
    toks = code_tokens(body_src)
    out = []
    for i, t in enumerate(toks):
        if t.kind == 'ident' and t.text in ('for', 'while', 'loop'):
            if t.text == 'for' and i + 1 < len(toks) and toks[i + 1].text == '<':
                continue  # for<'a> HRTB
            d = 0
            j = i + 1
            while j < len(toks):
                x = toks[j]
                if x.text in ('(', '['): d += 1
                elif x.text in (')', ']'): d -= 1
                elif x.text == '{' and d == 0: break
                j += 1
            if j >= len(toks):
                raise AnchorLost('loop body not found')
            out.append((t, toks[j].start, toks[match_close(toks, j)].end))
    return out
