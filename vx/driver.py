"""./check driver: runs every unit / harness mapped to a property, classifies, writes evidence."""
import argparse
import concurrent.futures as cf
import importlib
import json
import os
import pkgutil
import sys
import time
import traceback

ROOT = os.path.dirname(os.path.dirname(os.path.abspath(__file__)))
sys.path.insert(0, ROOT)

from vx.rustlex import AnchorLost            # noqa: E402
from vx.verus import run_verus, scan_trusted  # noqa: E402
from vx import kani as kani_engine            # noqa: E402
from vx import replay as replay_engine        # noqa: E402

OUT = os.path.join(ROOT, 'out')
EVID = os.path.join(ROOT, 'evidence')
VIOLATION_KINDS = {'post', 'pre', 'safety'}
SEARCH_FALLBACK = {}   # unit -> replay search cases usable when the verifier is undecided
BOUNDED = {}           # prop -> [dict(case, function, bound, why)] : enumeration stand-ins for functions outside the verifier's reach


def load_known_findings():
    p = os.path.join(ROOT, 'known_findings.json')
    if not os.path.exists(p):
        return []
    return json.load(open(p))['findings']


def load_units():
    import specs
    units = {}
    for m in pkgutil.iter_modules(specs.__path__):
        mod = importlib.import_module('specs.' + m.name)
        for name, (props, builder) in getattr(mod, 'UNITS', {}).items():
            units[name] = (props, builder, m.name)
            SEARCH_FALLBACK[name] = getattr(mod, 'SEARCH', {}).get(name, [])
        for prop, lst in getattr(mod, 'BOUNDED', {}).items():
            BOUNDED.setdefault(prop, [])
            for b in lst:
                if b not in BOUNDED[prop]: BOUNDED[prop].append(b)
    return units


class UnitOutcome:
    def __init__(self, name):
        self.name = name
        self.status = 'ok'          # ok | violation | undecided
        self.reason = ''
        self.unit = None
        self.main = None
        self.canary = None
        self.violations = []        # Failure objects
        self.undecided = []         # strings
        self.text = ''
        self.trusted = []
        self.wall = 0.0
        self.unstable = []


def classify(f):
    """DESIGN §4.1: which failures speak about the property (violation) and which only about the proof."""
    if f.tag != 'real':
        return 'undecided'
    if f.kind == 'post':
        return 'violation' if f.part in ('body', 'sig', 'wrap') or f.clause_part.startswith('ensures') else 'undecided'
    if f.kind in ('pre', 'safety'):
        return 'violation' if f.part == 'body' else 'undecided'
    if f.kind == 'inv':
        return 'violation' if f.part.startswith('inv:prop') else 'undecided'
    if f.kind == 'assert':
        return 'violation' if f.part == 'body' else 'undecided'
    return 'undecided'


def run_unit(name, builder, kf_open, tier):
    o = UnitOutcome(name)
    t0 = time.time()
    try:
        u = builder(kf_open)
        o.unit = u
        text, lm = u.assemble(canary=False)
        o.text = text
        o.trusted = scan_trusted(text, lm, u.chunks)
        o.main = run_verus(u.name, text, lm, u.chunks, os.path.join(OUT, 'units'))
        ctext, clm = u.assemble(canary=True)
        o.canary = run_verus(u.name, ctext, clm, u.chunks, os.path.join(OUT, 'units'), suffix='__canary')
    except AnchorLost as e:
        o.status, o.reason = 'undecided', f'anchor lost: {e}'
        o.wall = time.time() - t0
        return o
    except Exception as e:   # machinery defect: never an alarm
        o.status, o.reason = 'undecided', 'machinery error: ' + ''.join(traceback.format_exception_only(type(e), e)).strip()
        o.wall = time.time() - t0
        return o
    m = o.main
    if m.compile_error:
        o.status, o.reason = 'undecided', 'verus rejected the unit (unsupported construct / type error): ' + m.compile_error[:1500]
    for f in m.failures:
        c = classify(f)
        if c == 'violation':
            o.violations.append(f)
        else:
            o.undecided.append(f'{f.kind} in {f.chunk} [{f.part}]: {f.message}')
    if o.violations:
        o.status = 'violation'
    elif o.undecided and o.status == 'ok':
        o.status, o.reason = 'undecided', 'proof-only obligation failed: ' + '; '.join(o.undecided[:4])
    elif not m.ok and o.status == 'ok':
        o.status, o.reason = 'undecided', 'verus did not report success'
    # vacuity guards (DESIGN §4.2)
    if o.status == 'ok':
        expected = ['canary__' + ch.meta['fn_name'] for ch in u.chunks
                    if ch.tag == 'real' and ch.meta.get('kind') in ('fn', 'fragment') and ch.meta.get('canary')]
        c = o.canary
        if c.compile_error:
            o.status, o.reason = 'undecided', 'canary file rejected: ' + c.compile_error[:800]
        else:
            failed = {l['function'].split('::')[-1] for l in c.ledger if not l['success']}
            missing = [e for e in expected if e not in failed]
            if missing:
                o.status, o.reason = 'undecided', f'vacuity guard: `ensures false` verified for {missing} (contradictory precondition or unchecked body)'
            real_exec = [l for l in m.ledger if l['mode'] == 'exec']
            if not real_exec or not m.ledger:
                o.status, o.reason = 'undecided', 'vacuity guard: no exec obligations generated'
    if tier == 'thorough' and o.status == 'ok':
        # stability: same unit at half the resource limit (reported, never an alarm)
        r2 = run_verus(u.name, o.text, lm, u.chunks, os.path.join(OUT, 'units'), suffix='__rl5', rlimit=5)
        if not r2.ok:
            o.unstable.append('does not verify at --rlimit 5 (default 10): proof is near the limit')
    o.wall = time.time() - t0
    return o


def write_replay(prop, unit_name, idx, payload):
    d = os.path.join(OUT, 'replay')
    os.makedirs(d, exist_ok=True)
    p = os.path.join(d, f'{prop}-{unit_name}-{idx}.json')
    json.dump(payload, open(p, 'w'), indent=1)
    return p


def main(argv=None):
    ap = argparse.ArgumentParser()
    ap.add_argument('prop')
    ap.add_argument('--tier', default=os.environ.get('VERIF_TIER', 'quick'), choices=['quick', 'thorough'])
    ap.add_argument('--replay')
    ap.add_argument('--unit', action='append')
    ap.add_argument('--no-kani', action='store_true')
    ap.add_argument('--no-evidence', action='store_true')
    a = ap.parse_args(argv)
    if a.replay:
        return replay_engine.replay_file(a.replay)
    prop = a.prop
    seed = int(os.environ.get('VERIF_SEED', '0') or 0)
    t0 = time.time()
    findings = load_known_findings()
    kf_open = {f['id']: f for f in findings if f['property'] == prop and f['status'] == 'open'}
    units = {n: v for n, v in load_units().items() if prop in v[0] and (not a.unit or n in a.unit)}
    harnesses = [] if a.no_kani else kani_engine.harnesses_for(prop, a.tier)
    if a.unit:
        harnesses = [h for h in harnesses if h['name'] in a.unit]
    if not units and not harnesses and not BOUNDED.get(prop):
        print(f'no units registered for {prop}')
        return 2

    outcomes = []
    with cf.ThreadPoolExecutor(max_workers=8) as ex:
        futs = {ex.submit(run_unit, n, b, kf_open, a.tier): n for n, (p, b, modname) in units.items()}
        kfut = ex.submit(kani_engine.run_harnesses, harnesses, kf_open, a.tier) if harnesses else None
        for f in cf.as_completed(futs):
            outcomes.append(f.result())
        kres = kfut.result() if kfut else None
    outcomes.sort(key=lambda o: o.name)

    exit_code = 0
    lines = []
    nviol = 0
    replay_paths = []
    # --- engine V verdicts
    for o in outcomes:
        if o.status == 'violation':
            groups = {}
            for f in o.violations:
                groups.setdefault(f.chunk, []).append(f)
            for i, (chunk, fs) in enumerate(groups.items()):
                f = fs[0]
                witness = replay_engine.search_witness(o.unit, f, seed)
                meta = {}
                for c in o.unit.chunks:
                    if c.label == chunk: meta = dict(c.meta)
                payload = dict(property=prop, unit=o.name, engine='verus', obligation=f.obligation(),
                               all_failed_obligations=[dict(obligation=x.obligation(), kind=x.kind, message=x.message, clause=x.clause) for x in fs],
                               kind=f.kind, message=f.message, clause=f.clause,
                               verifier_output='\n'.join(x.rendered for x in fs),
                               extracted_from=meta, unit_file=o.main.file, witness=witness,
                               how_to_replay=f'./check {prop} --replay <this file>')
                p = write_replay(prop, o.name, i, payload)
                replay_paths.append(p)
                tail = '' if witness and witness.get('reproduced') else ' no-failing-input-found'
                for x in fs:
                    print(f'  failed obligation: {x.obligation()}  ({x.message}) clause: {x.clause[:160]}')
                if witness and witness.get('reproduced'):
                    print(f'  witness on the real code: input={json.dumps(witness["input"])} observed={witness["observed"]} contract says {witness["expected"]}')
                lines.append(f'VIOLATION property={prop} replay={p}{tail}')
                nviol += 1
            exit_code = 1
        elif o.status == 'undecided':
            print(f'UNDECIDED unit={o.name}: {o.reason}')
            # the verifier decided nothing (lost anchor / unsupported construct / proof-only failure). A concrete input on which the
            # REAL code violates the executable contract is still a sound refutation: search for one; report only if it replays.
            found = None
            for case in SEARCH_FALLBACK.get(o.name, []):
                w = replay_engine.search_case(case, seed, list(kf_open.keys()))
                if w and w.get('reproduced'):
                    found = w; break
            if found:
                payload = dict(property=prop, unit=o.name, engine='replay-search (verifier undecided)',
                               obligation=f'{o.name}: executable contract `{found["case"]}`', verifier_output='verifier undecided: ' + o.reason,
                               witness=found, how_to_replay=f'./check {prop} --replay <this file>')
                p = write_replay(prop, o.name, 'search', payload)
                print(f'  witness on the real code: input={json.dumps(found["input"])} observed={found["observed"]} contract says {found["expected"]}')
                lines.append(f'VIOLATION property={prop} replay={p}')
                nviol += 1
                exit_code = 1
                o.status = 'violation'
            elif exit_code == 0:
                exit_code = 2
    # --- engine K verdicts
    if kres:
        for h in kres['results']:
            if h['status'] == 'violation':
                w = replay_engine.replay_kani_counterexample(h, seed)
                payload = dict(property=prop, unit=h['name'], engine='kani', obligation=h['obligation'],
                               verifier_output=h.get('output_tail', ''), counterexample=h.get('counterexample'),
                               witness=w, how_to_replay=f'./check {prop} --replay <this file>')
                p = write_replay(prop, h['name'], 0, payload)
                replay_paths.append(p)
                if w and w.get('reproduced'):
                    lines.append(f'VIOLATION property={prop} replay={p}')
                    exit_code = 1; nviol += 1
                elif w and w.get('reproduced') is False:
                    print(f'UNDECIDED harness={h["name"]}: Kani counterexample does not reproduce on the real build (stub artefact)')
                    if exit_code == 0: exit_code = 2
                else:
                    lines.append(f'VIOLATION property={prop} replay={p} no-failing-input-found')
                    exit_code = 1; nviol += 1
            elif h['status'] == 'undecided':
                print(f'UNDECIDED harness={h["name"]}: {h.get("reason", "")}')
                if exit_code == 0: exit_code = 2
    # --- bounded stand-ins (replay enumeration of the executable contract on the real code; never counted as proved)
    bounded_results = []
    for b in BOUNDED.get(prop, []):
        w = replay_engine.search_case(b['case'], seed, list(kf_open.keys()))
        if a.tier == 'thorough' and not w.get('reproduced') and not w.get('note'):
            # thorough tier: seven more seeds for the seeded generators (hand-written tables repeat; exhaustive enumerations are seed-independent)
            total = w.get('tried') or 0
            for extra in range(1, 8):
                w2 = replay_engine.search_case(b['case'], seed + extra, list(kf_open.keys()))
                total += w2.get('tried') or 0
                if w2.get('reproduced') or w2.get('note'):
                    w = w2; break
            if not w.get('reproduced'): w['tried'] = total
        rec = dict(b, status='ok', tried=w.get('tried'), samples=w.get('samples', []))
        if w.get('reproduced'):
            rec['status'] = 'violation'
            payload = dict(property=prop, unit=b['case'], engine='bounded replay enumeration', obligation=f"executable contract `{b['case']}` of {b['function']}",
                           verifier_output='(no deductive verifier reaches this function: ' + b['why'] + ')', witness=w,
                           how_to_replay=f'./check {prop} --replay <this file>')
            p = write_replay(prop, b['case'], 'bounded', payload)
            print(f'  witness on the real code: input={json.dumps(w["input"])} observed={w["observed"]} contract says {w["expected"]}')
            lines.append(f'VIOLATION property={prop} replay={p}')
            nviol += 1; exit_code = 1
        elif w.get('note'):
            rec['status'] = 'undecided'; rec['note'] = w['note']
            print(f'UNDECIDED bounded={b["case"]}: {w["note"][:300]}')
            if exit_code == 0: exit_code = 2
        bounded_results.append(rec)
    # --- known findings: re-confirm each open one on the real code
    kf_lines = []
    kf_notes = []
    for fid, f in kf_open.items():
        r = replay_engine.confirm_finding(f)
        if r['reproduced']:
            kf_lines.append(f'KNOWN-FINDING: property={prop} {f["what"]} [{fid}; observed: {r["observed"][:160]}]')
        elif r['reproduced'] is None:
            kf_notes.append(f'{fid}: witness could not be run ({r["observed"][:200]})')
            print(f'UNDECIDED finding={fid}: witness could not be run: {r["observed"][:300]}')
            if exit_code == 0: exit_code = 2
        else:
            kf_notes.append(f'{fid}: recorded witness no longer fails on this tree ({r["observed"][:200]}); carve-out still applied')
            print(f'NOTE finding={fid}: recorded witness no longer reproduces')
    for l in kf_lines: print(l)
    for l in lines: print(l)

    wall = time.time() - t0
    if not a.no_evidence:
        write_evidence(prop, a.tier, seed, outcomes, kres, kf_open, kf_lines, kf_notes, nviol, exit_code, wall, findings, bounded_results)
    status = {0: 'HELD', 1: 'VIOLATION', 2: 'UNDECIDED'}[exit_code]
    nobl = sum(len(o.main.ledger) for o in outcomes if o.main)
    print(f'{prop}: {status} ({len(outcomes)} verus unit(s), {nobl} verus obligations, '
          f'{len(kres["results"]) if kres else 0} kani harness(es), {wall:.1f}s)')
    return exit_code


def write_evidence(prop, tier, seed, outcomes, kres, kf_open, kf_lines, kf_notes, nviol, exit_code, wall, findings, bounded_results=()):
    os.makedirs(EVID, exist_ok=True)
    obligations = discharged = 0
    fns = []
    rewrites = []
    trusted = []
    assumptions = []
    samples = []
    per_unit = []
    smt_ms = 0
    for o in outcomes:
        pu = dict(unit=o.name, status=o.status, reason=o.reason, wall_s=round(o.wall, 2))
        if o.main:
            obligations += len(o.main.ledger)
            discharged += sum(1 for l in o.main.ledger if l['success'])
            smt_ms += o.main.smt_ms
            pu['verus_cmd'] = o.main.cmd
            pu['verus_verified'] = o.main.verified
            pu['verus_errors'] = o.main.errors
            pu['ledger'] = [dict(function=l['function'], mode=l['mode'], solver_ms=round(l['us'] / 1000, 2),
                                 rlimit=l['rlimit'], discharged=l['success']) for l in o.main.ledger]
            for l in o.main.ledger[:3]:
                samples.append(dict(engine='verus', unit=o.name, obligation=l['function'], mode=l['mode'], discharged=l['success']))
        if o.canary:
            pu['canary'] = dict(expected_failures=[l['function'] for l in o.canary.ledger if 'canary__' in l['function']],
                                all_failed=all(not l['success'] for l in o.canary.ledger if 'canary__' in l['function']))
        if o.unit:
            u = o.unit
            for ch in u.chunks:
                if ch.tag == 'real':
                    entry = dict(item=ch.label, file=ch.meta.get('file'), line=ch.meta.get('line'), kind=ch.meta.get('kind'))
                    if ch.meta.get('kind') in ('fn', 'fragment'):
                        entry['contract_clauses'] = sum(1 for _, p in ch.lines if p.startswith(('requires[', 'ensures[', 'inv:')))
                        fns.append(entry)
                    elif ch.meta.get('kind') == 'impl':     # a whole trait impl extracted method by method (generated contracts: one per method)
                        entry['methods_under_contract'] = sum(1 for _, p in ch.lines if p == 'sig')
                        fns.append(entry)
                    else:
                        pu.setdefault('types_extracted', []).append(entry)
            agg = {}
            for label, rule, desc, hits in u.rewrite_log:
                if hits:
                    agg.setdefault(rule, []).append(f'{label}: {desc} x{hits}')
            pu['rewrite_rules_applied'] = agg
            pu['carveouts'] = [dict(finding=fid, extra_precondition=cl) for fid, cl in u.carveouts]
            for fid, cl in u.carveouts:
                assumptions.append(f'[{o.name}] open known finding {fid}: contract checked under the extra precondition `{cl}`')
            for t in o.trusted:
                trusted.append(f'[{o.name}] {t}')
            for s in u.assumptions:
                assumptions.append(f'[{o.name}] {s}')
        if o.unstable:
            pu['unstable'] = o.unstable
        per_unit.append(pu)
    kani_complete = kani_bounded = 0
    bounded = []
    if kres:
        for h in kres['results']:
            rec = dict(engine='kani', harness=h['name'], contract=h.get('contract'), kind=h['kind'],
                       status=h['status'], checks=h.get('checks'), failed_checks=h.get('failed'), solver_s=h.get('time_s'))
            if h.get('canary'):
                rec['role'] = 'vacuity canary (must fail)'
            elif h['kind'] == 'complete':
                n = h.get('checks') or 1
                obligations += n
                discharged += n - (h.get('failed') or 0) if h['status'] == 'ok' else 0
                kani_complete += 1
                fns.append(dict(item=h.get('function'), engine='kani', harness=h['name']))
            else:
                kani_bounded += 1
                bounded.append(dict(harness=h['name'], bound=h.get('bound'), status=h['status'], function=h.get('function'),
                                    note='bounded stand-in: NOT counted in obligations/discharged'))
            per_unit.append(rec)
            samples.append(dict(engine='kani', harness=h['name'], contract=h.get('contract'), status=h['status']))
        trusted += kres.get('trusted', [])
        assumptions += kres.get('assumptions', [])
    for b in bounded_results:
        bounded.append(dict(stand_in='replay enumeration', case=b['case'], function=b['function'], bound=b['bound'], inputs_tried=b.get('tried'), status=b['status'], samples=b.get('samples', [])[:3],
                            why_not_deductive=b['why'], note='bounded stand-in: NOT counted in obligations/discharged'))
    for n in kf_notes: assumptions.append('known finding note: ' + n)
    level = 'proof'
    man = json.load(open(os.path.join(ROOT, 'MANIFEST.json')))
    for c in man['checks']:
        if c['property_id'] == prop:
            level = c['level_claimed']['category']
    cov = dict(
        obligations=obligations, discharged=discharged,
        checker_cmd='verus --edition 2024 <assembled unit>.rs --output-json --time (Verus 0.2026.09.13, Z3) per unit; '
                    'cargo kani -Z function-contracts -Z stubbing --harness <h> (Kani 0.68 / CBMC 6.11) per harness',
        trusted_base=sorted(set(trusted)),
        explanation=('obligation = one (function, mode) verification condition set reported by Verus '
                     '(exec = extracted real function incl. all its ensures / callee-precondition / overflow / loop-invariant conditions; '
                     'proof/spec = lemmas and termination of spec functions) plus one per property check of a COMPLETE (loop-free, full-domain) Kani harness. '
                     'Bounded Kani stand-ins are listed under `bounded` and never counted.'),
        functions_under_contract=fns,
        units=per_unit,
        bounded=bounded,
        solver_time_ms=smt_ms,
        samples=samples[:12] or [dict(note='no obligations generated')],
        known_findings_reported=kf_lines,
        fixed_findings=[f for f in findings if f['property'] == prop and f['status'].startswith('fixed')],
        exhaustive=False,
        verdict={0: 'held', 1: 'violation', 2: 'undecided'}[exit_code],
    )
    if level != 'proof':
        # bounded-only claim: evaluations = inputs the replay enumerations ran on the real code; an input counts as non-trivial when the
        # case reports it (`N inputs agree with the reference (M non-trivial)` for exhaustive sub-enumerations, else 1 per input)
        import re as _re
        ev_n = nt_n = 0
        smp = []
        for b in bounded_results:
            ev_n += b.get('tried') or 0
            nt_n += b.get('tried') or 0
            for sm in b.get('samples', []):
                m = _re.search(r'(\d+) inputs agree with the reference \((\d+) non-trivial\)', sm.get('observed', ''))
                if m:
                    ev_n += int(m.group(1)) - 1; nt_n += int(m.group(2)) - 1
                smp.append(sm)
        cov['evaluations'] = ev_n
        cov['distinct_nontrivial'] = nt_n
        cov['rule'] = ('inputs are enumerated by the replay cases listed under `bounded` (exhaustive over the stated alphabets / lengths, or hand-written tables); '
                       'distinct by construction (each word / table row once); non-trivial = exercises the feature under test (an escape, a line terminator, a valid number, a table row), as counted by the case itself')
        cov['samples'] = smp[:8] or cov['samples']
    ev = dict(property_id=prop, tier=tier, seed=seed, level=level, coverage=cov,
              assumptions=sorted(set(assumptions)), wall_s=round(wall, 2), violations=nviol)
    json.dump(ev, open(os.path.join(EVID, prop + '.json'), 'w'), indent=1)


if __name__ == '__main__':
    sys.exit(main())
