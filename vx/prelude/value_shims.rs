// ---- trusted shims for the external / large types that async_graphql_value::ConstValue mentions (R-ty)
// serde_json::Number (without arbitrary_precision): an integer in i64::MIN..=u64::MAX or a finite f64.
// Axioms below are serde_json's documented behaviour of as_i64/as_u64/as_f64/is_i64/is_u64/From<i64>/From<u64>.
#[verifier::external_body]
pub struct Number { _p: u8 }
impl Number {
    pub uninterp spec fn is_int(&self) -> bool;           // integer representation (PosInt / NegInt)
    pub uninterp spec fn int_val(&self) -> int;           // meaningful when is_int()
    pub open spec fn spec_as_i64(&self) -> Option<i64> { if self.is_int() && i64::MIN <= self.int_val() <= i64::MAX { Some(self.int_val() as i64) } else { None } }
    pub open spec fn spec_as_u64(&self) -> Option<u64> { if self.is_int() && 0 <= self.int_val() <= u64::MAX { Some(self.int_val() as u64) } else { None } }
    #[verifier::external_body]
    pub fn as_i64(&self) -> (r: Option<i64>) ensures r == self.spec_as_i64() { unimplemented!() }
    #[verifier::external_body]
    pub fn as_u64(&self) -> (r: Option<u64>) ensures r == self.spec_as_u64() { unimplemented!() }
    #[verifier::external_body]
    pub fn is_i64(&self) -> (r: bool) ensures r == self.spec_as_i64().is_some() { unimplemented!() }
    #[verifier::external_body]
    pub fn is_u64(&self) -> (r: bool) ensures r == self.spec_as_u64().is_some() { unimplemented!() }
    #[verifier::external_body]
    pub fn from_i64(n: i64) -> (r: Number) ensures r.is_int(), r.int_val() == n { unimplemented!() }
    #[verifier::external_body]
    pub fn from_u64(n: u64) -> (r: Number) ensures r.is_int(), r.int_val() == n { unimplemented!() }
}
pub broadcast axiom fn axiom_number_range(n: Number)
    requires #[trigger] n.is_int() ensures i64::MIN <= n.int_val() <= u64::MAX;
#[verifier::external_body]
pub struct Bytes { _p: u8 }
// async_graphql_value::Name: a validated GraphQL name, Deref<Target = str>; represented as String (R-ty) so that
// `&name`, `&*name`, `name.as_str()` and `==` keep their meaning. Only its text matters to the kernels.
pub type Name = String;
// InputValueError<T>: constructed from a message only (R-msg), never inspected by the kernels
pub struct InputValueError { pub message: String }
pub type InputValueResult<T> = Result<T, InputValueError>;
#[verifier::external_body]
pub fn verif_msg() -> (r: String) { String::new() }
impl InputValueError {
    pub fn from_msg() -> InputValueError { InputValueError { message: verif_msg() } }
    pub fn expected_type(actual: Value) -> InputValueError { InputValueError { message: verif_msg() } }
    pub fn custom_msg() -> InputValueError { InputValueError { message: verif_msg() } }
}
