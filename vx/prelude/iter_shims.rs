// ---- trusted shims (assumed contracts on std): Iterator::find on a slice / Vec iterator returns the FIRST element for which the
// predicate holds (closure contract via f.ensures), Option<&T>::cloned clones the referent.
#[verifier::external_body]
pub fn vec_find<'a, T, F: Fn(&&'a T) -> bool>(v: &'a Vec<T>, f: F) -> (r: Option<&'a T>)
    requires forall|x: &&'a T| #[trigger] f.requires((x,)),
    ensures match r {
        Some(x) => exists|i: int| 0 <= i < v@.len() && *x == v@[i] && f.ensures((&&v@[i],), true) && forall|j: int| 0 <= j < i ==> f.ensures((&&v@[j],), false),
        None => forall|j: int| 0 <= j < v@.len() ==> f.ensures((&&v@[j],), false),
    }
{ unimplemented!() }
#[verifier::external_body]
pub fn slice_find<'a, T, F: Fn(&&'a T) -> bool>(v: &'a [T], f: F) -> (r: Option<&'a T>)
    requires forall|x: &&'a T| #[trigger] f.requires((x,)),
    ensures match r {
        Some(x) => exists|i: int| 0 <= i < v@.len() && *x == v@[i] && f.ensures((&&v@[i],), true) && forall|j: int| 0 <= j < i ==> f.ensures((&&v@[j],), false),
        None => forall|j: int| 0 <= j < v@.len() ==> f.ensures((&&v@[j],), false),
    }
{ unimplemented!() }
pub fn opt_cloned<T: Clone>(o: Option<&T>) -> (r: Option<T>)
    ensures match o { Some(x) => r is Some && cloned(*x, r->Some_0), None => r is None }
{ match o { Some(x) => Some(x.clone()), None => None } }
