// trusted: vstd specifies `==` on &str but leaves String's obeys_eq_spec open (measured); this axiom states
// that `String == String` compares the character sequences (std's documented behaviour).
pub axiom fn string_eq_axiom()
    ensures <String as vstd::std_specs::cmp::PartialEqSpec>::obeys_eq_spec(),
            forall|a: String, b: String| #[trigger] vstd::std_specs::cmp::PartialEqSpec::eq_spec(&a, &b) == (a@ == b@);
