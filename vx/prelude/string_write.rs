// trusted: std's `impl fmt::Write for String` appends and never fails (vstd has no spec for it)
pub assume_specification [ <String as core::fmt::Write>::write_str ] (s: &mut String, x: &str) -> (r: Result<(), core::fmt::Error>)
    ensures final(s)@ == old(s)@ + x@, r.is_ok();
pub assume_specification [ <String as core::fmt::Write>::write_char ] (s: &mut String, c: char) -> (r: Result<(), core::fmt::Error>)
    ensures final(s)@ == old(s)@.push(c), r.is_ok();
