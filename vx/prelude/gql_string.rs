// ---- shared spec vocabulary: the crate grammar's `string_content` semantics (GraphQL StringValue, non-block)
pub open spec fn hexval(c: char) -> int {
    if '0' <= c && c <= '9' { c as int - '0' as int }
    else if 'a' <= c && c <= 'f' { c as int - 'a' as int + 10 }
    else if 'A' <= c && c <= 'F' { c as int - 'A' as int + 10 }
    else { -1 }
}
pub open spec fn simple_escape(c: char) -> Option<char> {
    if c == '"' { Some('"') } else if c == '\\' { Some('\\') } else if c == '/' { Some('/') }
    else if c == 'b' { Some('\x08') } else if c == 'f' { Some('\x0c') } else if c == 'n' { Some('\n') }
    else if c == 'r' { Some('\r') } else if c == 't' { Some('\t') } else { None }
}
pub open spec fn u4(t: Seq<char>) -> int { hexval(t[2]) * 4096 + hexval(t[3]) * 256 + hexval(t[4]) * 16 + hexval(t[5]) }
pub open spec fn is_scalar(v: int) -> bool { 0 <= v < 0xD800 || 0xE000 <= v <= 0x10FFFF }
// length of the first token of t (0 = no valid token starts here)
pub open spec fn tok_len(t: Seq<char>) -> int {
    if t.len() == 0 { 0 }
    else if t[0] == '\\' {
        if t.len() >= 2 && simple_escape(t[1]) is Some { 2 }
        else if t.len() >= 6 && t[1] == 'u' && hexval(t[2]) >= 0 && hexval(t[3]) >= 0 && hexval(t[4]) >= 0 && hexval(t[5]) >= 0 && is_scalar(u4(t)) { 6 }
        else { 0 }
    }
    else if t[0] == '"' || t[0] == '\n' || t[0] == '\r' { 0 }
    else { 1 }
}
pub open spec fn tok_val(t: Seq<char>) -> char {
    if t[0] == '\\' { if simple_escape(t[1]) is Some { simple_escape(t[1])->Some_0 } else { u4(t) as char } } else { t[0] }
}
pub open spec fn gql_string_decode(t: Seq<char>) -> Option<Seq<char>> decreases t.len() {
    if t.len() == 0 { Some(Seq::empty()) }
    else {
        let k = tok_len(t);
        if k <= 0 { None } else {
            match gql_string_decode(t.skip(k)) { Some(x) => Some(seq![tok_val(t)] + x), None => None }
        }
    }
}
// w is exactly one token that denotes c
pub open spec fn gql_unit(w: Seq<char>, c: char) -> bool { w.len() > 0 && tok_len(w) == w.len() && tok_val(w) == c }

pub proof fn lemma_decode_append(a: Seq<char>, w: Seq<char>, c: char)
    requires gql_string_decode(a) is Some, gql_unit(w, c)
    ensures gql_string_decode(a + w) == Some(gql_string_decode(a)->Some_0.push(c))
    decreases a.len()
{
    if a.len() == 0 {
        assert(a + w =~= w);
        assert(w.skip(w.len() as int) =~= Seq::<char>::empty());
        assert(gql_string_decode(w.skip(w.len() as int)) == Some(Seq::<char>::empty()));
        assert(seq![c] + Seq::<char>::empty() =~= Seq::<char>::empty().push(c));
    } else {
        let k = tok_len(a);
        assert(k > 0);
        assert(tok_len(a + w) == k);
        assert(tok_val(a + w) == tok_val(a));
        assert((a + w).skip(k) =~= a.skip(k) + w);
        lemma_decode_append(a.skip(k), w, c);
        let x = gql_string_decode(a.skip(k))->Some_0;
        assert(seq![tok_val(a)] + x.push(c) =~= (seq![tok_val(a)] + x).push(c));
    }
}
