// ---- trusted shims (R-ty) for the type registry: FIELD SUBSETS of the real definitions in src/registry/mod.rs.
// extract.py checks on every run that each field below exists in the real definition with the same type text (shim conformance).
#[verifier::external_body]
#[verifier::accept_recursive_types(V)]
pub struct StrMap<V> { _p: core::marker::PhantomData<V> }      // indexmap::IndexMap<String, V>
impl<V> StrMap<V> {
    pub uninterp spec fn view(&self) -> Map<Seq<char>, V>;
    #[verifier::external_body]
    pub fn get(&self, k: &str) -> (r: Option<&V>)
        ensures match r { Some(v) => self.view().contains_key(k@) && *v == self.view()[k@], None => !self.view().contains_key(k@) }
    { unimplemented!() }
    #[verifier::external_body]
    pub fn contains_key(&self, k: &str) -> (r: bool) ensures r == self.view().contains_key(k@) { unimplemented!() }
}
#[verifier::external_body]
pub struct StrSet { _p: u8 }                                     // indexmap::IndexSet<String>
impl StrSet {
    pub uninterp spec fn view(&self) -> Set<Seq<char>>;
    #[verifier::external_body]
    pub fn contains(&self, k: &str) -> (r: bool) ensures r == self.view().contains(k@) { unimplemented!() }
}
