// trusted shim for core::fmt::Formatter (R-ty): an append-only character sink that may fail.
// `out()` is the text accepted so far. Every write either appends exactly the stated text and returns Ok, or returns Err.
pub struct Formatter { pub buf: Vec<char> }
pub open spec fn hexdigit(d: int) -> char { if d < 10 { ('0' as int + d) as char } else { ('a' as int + d - 10) as char } }
pub open spec fn hex4(v: int) -> Seq<char> { seq![hexdigit(v / 4096), hexdigit((v / 256) % 16), hexdigit((v / 16) % 16), hexdigit(v % 16)] }
pub open spec fn decdigit(d: int) -> char { ('0' as int + d) as char }
pub open spec fn dec4(v: int) -> Seq<char> { seq![decdigit(v / 1000), decdigit((v / 100) % 10), decdigit((v / 10) % 10), decdigit(v % 10)] }
impl Formatter {
    pub open spec fn out(&self) -> Seq<char> { self.buf@ }
    #[verifier::external_body]
    pub fn write_char(&mut self, c: char) -> (r: fmt::Result)
        ensures r.is_ok() ==> final(self).out() == old(self).out().push(c)
    { unimplemented!() }
    #[verifier::external_body]
    pub fn write_str(&mut self, s: &str) -> (r: fmt::Result)
        ensures r.is_ok() ==> final(self).out() == old(self).out() + s@
    { unimplemented!() }
    // `{:04x}` on a u32: lower-case hex, zero padded to width 4 (core::fmt, assumed); exactly hex4(v) when v < 0x10000
    #[verifier::external_body]
    pub fn write_hex04(&mut self, v: u32) -> (r: fmt::Result)
        ensures r.is_ok() ==> (v < 0x10000 ==> final(self).out() == old(self).out() + hex4(v as int))
            && final(self).out().len() >= old(self).out().len() + 4 && final(self).out().take(old(self).out().len() as int) == old(self).out()
    { unimplemented!() }
    // `{:04}` on a u32: decimal, zero padded to width 4 (core::fmt, assumed); exactly dec4(v) when v < 10000
    #[verifier::external_body]
    pub fn write_dec04(&mut self, v: u32) -> (r: fmt::Result)
        ensures r.is_ok() ==> (v < 10000 ==> final(self).out() == old(self).out() + dec4(v as int))
            && final(self).out().len() >= old(self).out().len() + 4 && final(self).out().take(old(self).out().len() as int) == old(self).out()
    { unimplemented!() }
}
// trusted: char::is_control is the Unicode general category Cc = U+0000..=U+001F and U+007F..=U+009F
pub assume_specification [ char::is_control ] (c: char) -> (r: bool)
    ensures r == ((c as u32) <= 0x1f || (0x7f <= (c as u32) && (c as u32) <= 0x9f));
