// ---- trusted shim (R-ty): indexmap::IndexMap<Name, V> as its insertion-ordered entry list. The distinctness of keys is the
// map's own data-structure invariant (type invariant here); insert follows indexmap's documented behaviour: a new key is
// appended, an existing key keeps its position and gets the new value. Iterating the map by value yields `entries` in order.
pub struct IndexMapE<V> { entries: Vec<(Name, V)> }
pub open spec fn keys_distinct<V>(s: Seq<(Name, V)>) -> bool { forall|i: int, j: int| 0 <= i < j < s.len() ==> s[i].0@ != s[j].0@ }
pub open spec fn has_key<V>(s: Seq<(Name, V)>, k: Seq<char>) -> bool { exists|i: int| 0 <= i < s.len() && s[i].0@ == k }
impl<V> IndexMapE<V> {
    #[verifier::type_invariant]
    closed spec fn inv(&self) -> bool { keys_distinct(self.entries@) }
    pub closed spec fn ents(&self) -> Seq<(Name, V)> { self.entries@ }
    #[verifier::external_body]
    pub fn with_capacity(n: usize) -> (r: Self) ensures r.ents().len() == 0 { unimplemented!() }
    #[verifier::external_body]
    pub fn new() -> (r: Self) ensures r.ents().len() == 0 { unimplemented!() }
    #[verifier::external_body]
    pub fn len(&self) -> (r: usize) ensures r == self.ents().len() { unimplemented!() }
    pub fn entry(&self, i: usize) -> (r: (&Name, &V)) requires i < self.ents().len() ensures *r.0 == self.ents()[i as int].0, *r.1 == self.ents()[i as int].1
    { let e = &self.entries[i]; (&e.0, &e.1) }
    #[verifier::external_body]
    pub fn insert(&mut self, k: Name, v: V) -> (r: Option<V>)
        ensures !has_key(old(self).ents(), k@) ==> final(self).ents() == old(self).ents().push((k, v)),
                has_key(old(self).ents(), k@) ==> exists|i: int| 0 <= i < old(self).ents().len() && old(self).ents()[i].0@ == k@ && final(self).ents() == old(self).ents().update(i, (old(self).ents()[i].0, v))
    { unimplemented!() }
}
