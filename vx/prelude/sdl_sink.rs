// trusted shim (R-write on a String sink): `{}` of a string-like argument appends its text (Display for str/String), never fails
pub trait AsStrV { spec fn sv(&self) -> Seq<char>; }
impl AsStrV for String { open spec fn sv(&self) -> Seq<char> { self@ } }
impl AsStrV for &String { open spec fn sv(&self) -> Seq<char> { (*self)@ } }
impl AsStrV for &str { open spec fn sv(&self) -> Seq<char> { (*self)@ } }
impl AsStrV for &&str { open spec fn sv(&self) -> Seq<char> { (**self)@ } }
impl AsStrV for &&String { open spec fn sv(&self) -> Seq<char> { (**self)@ } }
pub trait SdlSink {
    spec fn text(&self) -> Seq<char>;
    fn write_disp<T: AsStrV>(&mut self, x: T) -> (r: Result<(), core::fmt::Error>)
        ensures final(self).text() == old(self).text() + x.sv(), r.is_ok();
}
impl SdlSink for String {
    open spec fn text(&self) -> Seq<char> { self@ }
    #[verifier::external_body]
    fn write_disp<T: AsStrV>(&mut self, x: T) -> (r: Result<(), core::fmt::Error>) { unimplemented!() }
}
