// trusted: std integer methods a plausible edit may introduce (so that it is decided instead of rejected as unsupported)
pub open spec fn spec_abs(x: int) -> int { if x < 0 { -x } else { x } }
pub assume_specification [ i64::unsigned_abs ] (x: i64) -> (r: u64) ensures r as int == spec_abs(x as int);
pub assume_specification [ i32::unsigned_abs ] (x: i32) -> (r: u32) ensures r as int == spec_abs(x as int);
pub assume_specification [ i16::unsigned_abs ] (x: i16) -> (r: u16) ensures r as int == spec_abs(x as int);
pub assume_specification [ i8::unsigned_abs ] (x: i8) -> (r: u8) ensures r as int == spec_abs(x as int);
pub assume_specification [ isize::unsigned_abs ] (x: isize) -> (r: usize) ensures r as int == spec_abs(x as int);
pub assume_specification [ i64::abs ] (x: i64) -> (r: i64) requires x != i64::MIN ensures r as int == spec_abs(x as int);
pub assume_specification [ i64::wrapping_abs ] (x: i64) -> (r: i64) ensures x != i64::MIN ==> r as int == spec_abs(x as int), x == i64::MIN ==> r == i64::MIN;
pub assume_specification [ i64::saturating_abs ] (x: i64) -> (r: i64) ensures x != i64::MIN ==> r as int == spec_abs(x as int), x == i64::MIN ==> r == i64::MAX;
pub assume_specification [ i64::is_negative ] (x: i64) -> (r: bool) ensures r == (x < 0);
pub assume_specification [ i64::is_positive ] (x: i64) -> (r: bool) ensures r == (x > 0);
