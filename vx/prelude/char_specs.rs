// trusted: std char methods a plausible edit may introduce (so that it is decided instead of rejected as unsupported)
pub assume_specification [ char::len_utf16 ] (c: char) -> (r: usize)
    ensures r == (if (c as u32) >= 0x10000 { 2usize } else { 1usize });
pub assume_specification [ char::is_ascii ] (c: &char) -> (r: bool)
    ensures r == ((*c as u32) < 0x80);
